package main

import (
	"github.com/foxboron/go-uefi/efi"
	"os"
	"syscall"
	"bytes"
	"crypto"
	"crypto/x509"
	"fmt"
	"io"
	"strings"

	"github.com/foxboron/go-uefi/authenticode"
	"github.com/foxboron/go-uefi/efi/attributes"
	efs "github.com/foxboron/go-uefi/efi/fs"
	"github.com/foxboron/go-uefi/efi/signature"
	"github.com/foxboron/go-uefi/efivar"
	"github.com/foxboron/go-uefi/efivarfs"
	"github.com/foxboron/go-uefi/efivarfs/fswrapper"
	"github.com/foxboron/go-uefi/pkcs7"
	"github.com/spf13/afero"
)

// faultyReaderAt fails the k-th ReadAt (counted from when it is armed).
type faultyReaderAt struct {
	r     io.ReaderAt
	k       int
	n       int
	armed   bool
	partial bool
	eof     bool // the failure is an early end of file
}

func (f *faultyReaderAt) ReadAt(p []byte, off int64) (int, error) {
	if f.armed {
		i := f.n
		f.n++
		if i == f.k {
			if f.eof {
				// the file ends here: fewer bytes than the image had when it was parsed
				if f.partial && len(p) > 1 {
					n, _ := f.r.ReadAt(p[:len(p)/2], off)
					return n, io.EOF
				}
				return 0, io.EOF
			}
			if f.partial && len(p) > 1 {
				// part of the data together with the error
				n, _ := f.r.ReadAt(p[:len(p)/2], off)
				return n, errInjected
			}
			return 0, errInjected
		}
	}
	return f.r.ReadAt(p, off)
}

// the kinds of file-system calls the last operation issued (for the fault-free run: the order of calls)
var lastKinds []string

// every operation of C15: runs with the k-th dependency call failing (k = -1: none)
// and returns: result ("ok"/"err"), calls after the failing one ("0" close / "1" other),
// whether the state of the objects is unchanged, and the number of dependency calls.
func c15Run(op string, k int, mode string, in []byte) (res string, after []string, same bool, ncalls int) {
	same = true
	short, silent := mode == "short" || mode == "short-noerr", mode == "short-noerr"
	key := rsaKey(2048, 0)
	cert := simpleCert(key, "image signer 0", 300)
	signer := &recSigner{key: key, fail: k == 0 && strings.HasPrefix(op, "sign")}
	errRes := func(err error) string {
		if err != nil {
			return "err"
		}
		return "ok"
	}
	kindNo := map[string]string{"open": "0", "stat": "1", "read": "2", "write": "3", "close": "4"}
	fsAfter := func(rec *recFs) {
		lastKinds = nil
		for _, c := range rec.calls {
			lastKinds = append(lastKinds, kindNo[c])
		}
		for _, c := range rec.plan.after {
			if c == "close" {
				after = append(after, "0")
			} else {
				after = append(after, "1")
			}
		}
		ncalls = len(rec.calls)
	}
	dbVar := efivar.Db
	attributes.Efivars = "/sys/firmware/efi/efivars"
	path := "/sys/firmware/efi/efivars/db-" + dbVar.GUID.Format()
	switch op {
	case "sign/SignPKCS7":
		_, err := pkcs7.SignPKCS7(signer, cert, pkcs7.OIDData, in)
		return errRes(err), nil, true, signer.calls
	case "sign/SignAuthenticode":
		_, err := authenticode.SignAuthenticode(signer, cert, bytes.NewReader(in), crypto.SHA256)
		return errRes(err), nil, true, signer.calls
	case "sign/SignEFIVariable":
		_, _, err := signature.SignEFIVariable(dbVar, rawValue(in), signer, cert)
		return errRes(err), nil, true, signer.calls
	case "sign/PECOFFBinary.Sign":
		p, err := authenticode.Parse(bytes.NewReader(in))
		if err != nil {
			return "setup-failed", nil, true, 0
		}
		before, bb := p.VerifState(), p.Bytes()
		_, err = p.Sign(signer, cert)
		sigs, _ := p.Signatures()
		if err != nil {
			same = before == p.VerifState() && bytes.Equal(bb, p.Bytes()) && len(sigs) == 0
			// the caller tries again with a signer that works: what it gets must be a valid signature of the image
			if same {
				if _, err2 := p.Sign(&recSigner{key: key}, cert); err2 == nil {
					q, perr := authenticode.Parse(bytes.NewReader(p.Bytes()))
					if perr != nil {
						return "ok-wrong-value", nil, true, signer.calls
					}
					if ok, verr := q.Verify(cert); !ok || verr != nil {
						return "ok-wrong-value", nil, true, signer.calls
					}
				}
			}
		}
		return errRes(err), nil, same, signer.calls
	case "sign/WriteSignedUpdate":
		rec := newRecFs(afero.NewMemMapFs())
		e := &efivarfs.EFIFS{FSWrapper: fswrapper.NewMemoryWrapper()}
		e.SetFS(rec)
		err := e.Open().WriteSignedUpdate(dbVar, rawValue(in), signer, cert)
		// the signer failed: nothing may have touched the file system
		same = len(rec.calls) == 0 && len(rec.trace) == 0
		if err == nil {
			same = true
		}
		return errRes(err), nil, same, signer.calls
	case "fs/WriteVar", "fs/WriteEfivars-legacy", "fs/WriteSignedUpdate":
		rec := newRecFs(afero.NewMemMapFs())
		rec.plan.k, rec.plan.short, rec.plan.silent = k, short, silent
		if mode == "eintr-always" {
			rec.plan.k, rec.plan.writeErr = -1, syscall.EINTR
		}
		var err error
		switch op {
		case "fs/WriteVar":
			e := &efivarfs.EFIFS{FSWrapper: fswrapper.NewMemoryWrapper()}
			e.SetFS(rec)
			err = e.WriteVar(dbVar, rawValue(in))
		case "fs/WriteEfivars-legacy":
			efs.SetFS(rec)
			err = attributes.WriteEfivars("db", dbVar.Attributes, in)
		default:
			e := &efivarfs.EFIFS{FSWrapper: fswrapper.NewMemoryWrapper()}
			e.SetFS(rec)
			err = e.Open().WriteSignedUpdate(dbVar, rawValue(in), signer, cert)
		}
		fsAfter(rec)
		return errRes(err), after, true, ncalls
	case "fs/efi.Getdb-legacy":
		// the legacy getter of package efi: "the variable does not exist" (a failing open) is an empty
		// database by design; every other failure is an error, whatever errno it carries
		base := afero.NewMemMapFs()
		afero.WriteFile(base, path, append([]byte{0x27, 0, 0, 0}, in...), 0644)
		rec := newRecFs(base)
		rec.plan.k = k
		injectedKind = nil
		if mode == "enoent" {
			injectedKind = &os.PathError{Op: "read", Path: path, Err: syscall.ENOENT}
		}
		defer func() { injectedKind = nil }()
		efs.SetFS(rec)
		db, err := efi.Getdb()
		fsAfter(rec)
		if err == nil && (db == nil || !bytes.Equal(db.Bytes(), in)) {
			return "ok-wrong-value", after, true, ncalls
		}
		return errRes(err), after, true, ncalls
	case "fs/GetVarWithAttributes", "fs/GetVar", "fs/ReadEfivars-legacy", "fs/Getdb":
		base := afero.NewMemMapFs()
		afero.WriteFile(base, path, append([]byte{0x27, 0, 0, 0}, in...), 0644)
		rec := newRecFs(base)
		rec.plan.k = k
		rec.plan.shortRead, rec.plan.thenFail = strings.HasPrefix(mode, "short-read"), mode == "short-read-then-fail"
		defer func() {
			if rec.plan.shortRead && !rec.plan.applied {
				res = "n/a" // the call was not a read of two or more bytes: nothing was injected
			}
		}()
		var err error
		switch op {
		case "fs/GetVarWithAttributes":
			e := &efivarfs.EFIFS{FSWrapper: fswrapper.NewMemoryWrapper()}
			e.SetFS(rec)
			dec := &recDecoder{}
			_, err = e.GetVarWithAttributes(dbVar, dec)
			if err == nil && !bytes.Equal(dec.got, in) {
				return "ok-wrong-value", nil, true, len(rec.calls)
			}
		case "fs/GetVar":
			e := &efivarfs.EFIFS{FSWrapper: fswrapper.NewMemoryWrapper()}
			e.SetFS(rec)
			dec := &recDecoder{}
			err = e.GetVar(dbVar, dec)
			if err == nil && !bytes.Equal(dec.got, in) {
				return "ok-wrong-value", nil, true, len(rec.calls)
			}
		case "fs/ReadEfivars-legacy":
			efs.SetFS(rec)
			var b *bytes.Buffer
			_, b, err = attributes.ReadEfivars("db")
			if err == nil && !bytes.Equal(b.Bytes(), in) {
				return "ok-wrong-value", nil, true, len(rec.calls)
			}
		default:
			e := &efivarfs.EFIFS{FSWrapper: fswrapper.NewMemoryWrapper()}
			e.SetFS(rec)
			var db *signature.SignatureDatabase
			db, err = e.Open().Getdb()
			if err == nil && !bytes.Equal(db.Bytes(), in) {
				return "ok-wrong-value", nil, true, len(rec.calls)
			}
		}
		fsAfter(rec)
		return errRes(err), after, true, ncalls
	case "reader/Parse":
		fr := &faultyReaderAt{r: bytes.NewReader(in), k: k, armed: true, partial: mode == "partial" || mode == "partial-eof", eof: strings.HasSuffix(mode, "eof")}
		p, err := authenticode.Parse(fr)
		if err == nil && k >= 0 && fr.n > k && fr.eof {
			// the source ended early once and Parse went on: the image it holds must then be the
			// whole one (the source delivers everything from now on), never a shorter or zero-filled one
			clean, cerr := authenticode.Parse(bytes.NewReader(in))
			if cerr != nil {
				return "ok-wrong-value", nil, true, fr.n
			}
			if !bytes.Equal(p.Hash(crypto.SHA256), clean.Hash(crypto.SHA256)) || !bytes.Equal(p.Bytes(), clean.Bytes()) || p.VerifState() != clean.VerifState() {
				return "ok-wrong-value", nil, true, fr.n
			}
			return "ok-right-value", nil, true, fr.n
		}
		return errRes(err), nil, true, fr.n
	case "reader/Hash", "reader/Sign", "reader/Verify":
		fr := &faultyReaderAt{r: bytes.NewReader(in), k: k, partial: mode == "partial" || mode == "partial-eof", eof: strings.HasSuffix(mode, "eof")}
		p, err := authenticode.Parse(fr)
		if err != nil {
			return "setup-failed", nil, true, 0
		}
		bytesBefore := p.Bytes()
		fr.armed = true
		switch op {
		case "reader/Hash":
			h := p.Hash(crypto.SHA256)
			if h == nil {
				// a failed read-only call leaves the object as it was: it still serialises to the same file
				if n0 := fr.n; !bytes.Equal(bytesBefore, p.Bytes()) {
					return "err", nil, false, n0
				}
				// the source works again and the caller asks once more: then the digest is the right one
				if h2 := p.Hash(crypto.SHA256); h2 != nil {
					if clean, cerr := authenticode.Parse(bytes.NewReader(in)); cerr == nil && !bytes.Equal(h2, clean.Hash(crypto.SHA256)) {
						return "ok-wrong-value", nil, true, fr.n
					}
				}
				return "err", nil, true, fr.n
			}
			// a digest was returned although a read failed: it must at least be the right one
			clean, _ := authenticode.Parse(bytes.NewReader(in))
			if k >= 0 && fr.n > k && !bytes.Equal(h, clean.Hash(crypto.SHA256)) {
				return "ok-wrong-value", nil, true, fr.n
			}
			if k >= 0 && fr.n > k {
				return "ok", nil, true, fr.n
			}
			return "ok", nil, true, fr.n
		case "reader/Sign":
			before := p.VerifState()
			sigs0, _ := p.Signatures()
			_, err := p.Sign(key, cert)
			if err != nil {
				sigs, _ := p.Signatures()
				same = before == p.VerifState() && len(sigs) == len(sigs0)
				// the source works again and the caller signs once more: the result verifies
				if n0 := fr.n; same {
					if _, err2 := p.Sign(key, cert); err2 == nil {
						q, perr := authenticode.Parse(bytes.NewReader(p.Bytes()))
						if perr != nil {
							return "ok-wrong-value", nil, true, n0
						}
						if ok, verr := q.Verify(cert); !ok || verr != nil {
							return "ok-wrong-value", nil, true, n0
						}
					}
					return errRes(err), nil, same, n0
				}
			}
			return errRes(err), nil, same, fr.n
		default:
			ok, err := p.Verify(cert)
			if err == nil && ok {
				return "ok", nil, true, fr.n
			}
			return "err", nil, true, fr.n
		}
	}
	return "unknown-op", nil, true, 0
}

func init() {
	implOps["fault"] = func(a []string) []string {
		var k int
		fmt.Sscan(a[1], &k)
		res, after, same, n := c15Run(a[0], k, a[2], unhx(a[3]))
		return []string{res, strings.Join(after, ","), b01(same), fmt.Sprint(n), strings.Join(lastKinds, ",")}
	}
	checkers["C15"] = checker{
		rule: "operations: SignPKCS7, SignAuthenticode, PECOFFBinary.Sign, SignEFIVariable, WriteSignedUpdate with a failing crypto.Signer; WriteVar, attributes.WriteEfivars, WriteSignedUpdate, GetVar, GetVarWithAttributes, attributes.ReadEfivars, Getdb over a fault-injecting afero.Fs; Parse, Hash, Sign, Verify over a fault-injecting io.ReaderAt; for each operation and input a fault-free run in the sandboxed worker counts the dependency calls, then EVERY position k of that sequence is failed in turn (errors; for the write also a short count with and without an error, and a write that is interrupted (EINTR) however often it is tried; for reads of a variable also a legal short read, alone (the value must still be right) and followed by failing reads; for image reads also part of the data together with the error, and after Parse a source that ends early, with or without part of the data): exhaustive for the sequences the operation issues; the order of the calls of every fault-free run is compared with the program model's (extracted check_call_order: open, [stat, reads,] write, close; the signer before any file-system call); R_C15 (extracted check_fault) requires: no success and no digest, only Close after a failed file-system call, the image object unchanged after a failed Sign, no file-system call after a failed signer, process alive (worker class return); non-trivial = every fault position, distinct by (operation, k, mode, input)",
		run:  runC15,
	}
}

func runC15(c *Ctx) {
	rng := c.Rng
	nInputs := c.N(4, 240)
	// inputs per family
	var images [][]byte
	for len(images) < nInputs {
		spec := smallPESpec(rng)
		spec.certs = nil
		images = append(images, spec.build(rng).bytes)
	}
	var signed [][]byte
	for _, img := range images {
		if p, err := authenticode.Parse(bytes.NewReader(img)); err == nil {
			if _, err := p.Sign(rsaKey(2048, 0), simpleCert(rsaKey(2048, 0), "image signer 0", 300)); err == nil {
				signed = append(signed, p.Bytes())
			}
		}
	}
	var dbs [][]byte
	for len(dbs) < nInputs {
		s, _ := genWfStream(rng, 3, 60)
		dbs = append(dbs, s)
	}
	type fam struct {
		op     string
		inputs [][]byte
		short  bool
	}
	fams := []fam{
		{"sign/SignPKCS7", dbs, false}, {"sign/SignAuthenticode", dbs, false}, {"sign/SignEFIVariable", dbs, false},
		{"sign/PECOFFBinary.Sign", images, false}, {"sign/WriteSignedUpdate", dbs, false},
		{"fs/WriteVar", dbs, true}, {"fs/WriteEfivars-legacy", dbs, true}, {"fs/WriteSignedUpdate", dbs, true},
		{"fs/GetVarWithAttributes", dbs, false}, {"fs/GetVar", dbs, false}, {"fs/ReadEfivars-legacy", dbs, false}, {"fs/Getdb", dbs, false}, {"fs/efi.Getdb-legacy", dbs, false},
		{"reader/Parse", append(append([][]byte{}, images...), signed...), false}, {"reader/Hash", append(append([][]byte{}, images...), signed...), false}, {"reader/Sign", append(append([][]byte{}, images...), signed...), false}, {"reader/Verify", signed, false},
	}
	for _, f := range fams {
		for _, in := range f.inputs {
			// fault-free run: count the calls, and it must succeed
			o := c.Impl("fault", f.op, "-1", "fail", hx(in))
			if o.Class != "ret" || len(o.Fields) < 4 || (o.Fields[0] != "ok" && !(f.op == "reader/Verify")) {
				c.Rep.Record(f.op, "fault-free", true, "", []string{f.op, hx(in)}, "violation", append([]string{"the fault-free run does not succeed: " + o.Class}, o.Fields...), map[string]string{"op": f.op, "k": "-1"})
				continue
			}
			var n int
			fmt.Sscan(o.Fields[3], &n)
			// the order of the dependency calls of the fault-free run is the program model's
			if strings.HasPrefix(f.op, "fs/") && len(o.Fields) > 4 {
				opNo, kinds := "1", o.Fields[4]
				switch f.op {
				case "fs/WriteVar", "fs/WriteEfivars-legacy":
					opNo = "0"
				case "fs/WriteSignedUpdate":
					opNo, kinds = "2", "5,"+kinds // the signer is asked first
				}
				v, info := c.Drv.Eval("call_order", opNo, kinds)
				c.Rep.Record(f.op, "call-order", true, kinds, []string{f.op, kinds}, v, info, map[string]string{"op": f.op, "what": "call-order"})
			}
			c.Rep.Histogram["calls/"+f.op] += n
			modes := []string{"fail"}
			if f.short {
				modes = append(modes, "short", "short-noerr", "eintr-always")
			}
			if strings.HasPrefix(f.op, "fs/Get") || f.op == "fs/ReadEfivars-legacy" {
				modes = append(modes, "short-read", "short-read-then-fail")
			}
			if f.op == "fs/efi.Getdb-legacy" {
				modes = append(modes, "enoent")
			}
			if strings.HasPrefix(f.op, "reader/") {
				modes = append(modes, "partial")
				// once an image is parsed its extent is known: a source that ends early has failed.
				// For Parse itself the end of the source is what defines the image: there a source that
				// reports its end too early at one read may be an error, or Parse may read on and hold
				// the whole image; what it may not do is succeed with a shorter or zero-filled one.
				modes = append(modes, "eof", "partial-eof")
			}

			for k := 0; k < n; k++ {
				for _, mode := range modes {
					o := c.Impl("fault", f.op, fmt.Sprint(k), mode, hx(in))
					res, after, same := "exit", "", "1"
					if o.Class == "ret" && len(o.Fields) >= 3 {
						res, after, same = o.Fields[0], o.Fields[1], o.Fields[2]
					} else {
						res = o.Class
					}
					if res == "n/a" || (f.op == "fs/efi.Getdb-legacy" && k == 0 && mode == "enoent") {
						continue // a failing open with ENOENT is "no such variable": an empty database by design
					}
					resOK := res != "err"
					if f.op == "reader/Parse" && strings.HasSuffix(mode, "eof") {
						resOK = res == "ok-wrong-value" || res == "ok"
					}
					if mode == "short-read" {
						// a short read is legal: the operation may go on reading and succeed, but then with the right value
						resOK = res == "ok-wrong-value"
						after = "" // further reads are exactly what is expected
					}
					args := []string{b01(resOK), after, same}
					v, info := c.Drv.Eval("fault", args...)
					if v != "ok" {
						info = append(info, fmt.Sprintf("operation %s, call %d of %d fails (%s): result %s, calls after: [%s], state unchanged: %s", f.op, k, n, mode, res, after, same))
					}
					c.Rep.Record(f.op, mode, true, fmt.Sprintf("k=%d/%d", k, n), append([]string{f.op, fmt.Sprint(k), mode, hx(in)}, args...), v, info,
						map[string]string{"op": f.op, "result": res})
				}
			}
		}
	}
	c.Rep.Exhaustive = true
	_ = x509.Certificate{}
}
