package main

import (
	"strings"
	"bytes"
	"crypto"
	"crypto/x509"
	"encoding/binary"
	"fmt"
	"math/rand"
	"os"

	"github.com/foxboron/go-uefi/authenticode"
)

func init() {
	checkers["C02"] = checker{
		rule: "signed images: synthetic well-formed images signed by the library with one or two keys, and the sbsign-signed HelloWorld fixture; adversarial derivations of each: single-byte changes at positions drawn from every region (sampled; exhaustive for the smallest image in the thorough tier), transplant of the signature table onto another image, bytes appended behind the certificate table, rewrites inside the PKCS#7 blob with lengths fixed up (the digest in SpcIndirectDataContent alone, digest + image together (the digest-swap forgery, also with the signer entry's unsigned digest algorithm rewritten; the two-signer forgery: a changed image signed by a foreign key with the genuine signer entry appended behind), content, content type, certificates, messageDigest, signature, attributes), re-embedded as a fresh WIN_CERTIFICATE; verifying certificates: the signer's, another key under the same issuer+serial, same key other serial / issuer, unrelated; Parse(x).Verify(cert) runs in the sandboxed worker, also after other certificates were verified on the same parsed image; R_C02 (extracted check_pe_verify) accepts a success only if some table entry is an Authenticode signature whose digest is the SHA-256 of the specification content of exactly these bytes and whose SignedData is valid for the certificate (R_C04); non-trivial = the image carries a table; distinct by (image, certificate) hash",
		run:  runC02,
	}
}

// rebuildWithBlobs replaces the certificate table of a signed image.
func rebuildWithBlobs(signed []byte, blobs [][]byte) []byte {
	e := int(binary.LittleEndian.Uint32(signed[0x3c:]))
	opt := e + 24
	dd4 := opt + 128
	if binary.LittleEndian.Uint16(signed[opt:]) == 0x20b {
		dd4 = opt + 144
	}
	va := int(binary.LittleEndian.Uint32(signed[dd4:]))
	if va == 0 || va > len(signed) {
		va = len(signed)
		for va%8 != 0 {
			signed = append(signed, 0)
			va++
		}
	}
	out := append([]byte{}, signed[:va]...)
	for _, b := range blobs {
		hdr := make([]byte, 8)
		binary.LittleEndian.PutUint32(hdr, uint32(8+len(b)))
		binary.LittleEndian.PutUint16(hdr[4:], 0x0200)
		binary.LittleEndian.PutUint16(hdr[6:], 0x0002)
		out = append(out, hdr...)
		out = append(out, b...)
		for len(out)%8 != 0 {
			out = append(out, 0)
		}
	}
	binary.LittleEndian.PutUint32(out[dd4:], uint32(va))
	binary.LittleEndian.PutUint32(out[dd4+4:], uint32(len(out)-va))
	return out
}

type signedImage struct {
	name   string
	img    []byte
	blobs  [][]byte
	seed   p7Seed // first signature as a PKCS#7 seed (cert, key)
	region []peRegion
}

func runC02(c *Ctx) {
	rng := c.Rng
	var images []signedImage
	// library-signed synthetic images
	for i := 0; i < c.N(6, 120); i++ {
		spec := smallPESpec(rng)
		spec.certs = nil
		if i%3 == 1 {
			spec.nrva = 5 + rng.Intn(11) // fewer than sixteen data directories
		}
		im := spec.build(rng)
		p, err := authenticode.Parse(bytes.NewReader(im.bytes))
		if err != nil {
			// the generator makes well-formed images: one that cannot be parsed or signed is reported
			c.Rep.Record("C02/library/setup", "parse", true, "", []string{hx(im.bytes)}, "violation", []string{"a well-formed image is not accepted: " + err.Error()}, map[string]string{"class": "setup"})
			continue
		}
		key := rsaKey(2048, i%2)
		cert := simpleCert(key, fmt.Sprintf("image signer %d", i%2), int64(300+i%2))
		sig, err := p.Sign(key, cert)
		if err != nil {
			c.Rep.Record("C02/library/setup", "sign", true, "", []string{hx(im.bytes)}, "violation", []string{"a well-formed image cannot be signed: " + err.Error()}, map[string]string{"class": "setup"})
			continue
		}
		blobs := [][]byte{sig}
		if rng.Intn(3) == 0 {
			k2 := rsaKey(2048, 1-i%2)
			c2 := simpleCert(k2, fmt.Sprintf("image signer %d", 1-i%2), int64(300+1-i%2))
			if s2, err := p.Sign(k2, c2); err == nil {
				blobs = append(blobs, s2)
			}
		}
		out := p.Bytes()
		regs := append([]peRegion{}, im.regions...)
		regs = append(regs, peRegion{"padding+table", len(im.bytes), len(out)})
		images = append(images, signedImage{"library", out, blobs, p7Seed{"pe", sig, cert, key, nil}, regs})
	}
	// the sbsign fixture
	if b, err := os.ReadFile("/repo/tests/data/binary/HelloWorld.efi.signed"); err == nil {
		if p, err := authenticode.Parse(bytes.NewReader(b)); err == nil {
			if sigs, err := p.Signatures(); err == nil && len(sigs) > 0 {
				if ac, err := authenticode.ParseAuthenticode(sigs[0].Certificate); err == nil && len(ac.Pkcs.Certs) > 0 {
					images = append(images, signedImage{"fixture/sbsign", b, [][]byte{sigs[0].Certificate}, p7Seed{"pe", sigs[0].Certificate, ac.Pkcs.Certs[0], nil, nil},
						[]peRegion{{"whole-file", 0, len(b)}}})
				}
			}
		}
	}
	c.Rep.Extra["signed_images"] = len(images)
	nflip := c.Bound(14, 300)
	for idx, si := range images {
		others := otherCerts(si.seed, rng)
		check := func(class string, img []byte, certs bool) {
			evalPEVerify(c, "C02/"+si.name+"/"+class, "signer", img, si.seed.cert, false)
			if certs {
				for k, oc := range others {
					evalPEVerify(c, "C02/"+si.name+"/"+class, k, img, oc, false)
				}
			}
		}
		check("original", si.img, true)
		// the verdict does not depend on what the same parsed image verified before
		if twin := others["same-issuer-serial-other-key"]; twin != nil {
			evalPEVerify(c, "C02/"+si.name+"/original-after-signer", "same-issuer-serial-other-key", si.img, twin, false, twin, si.seed.cert)
			evalPEVerify(c, "C02/"+si.name+"/original-after-twin", "signer", si.img, si.seed.cert, false, twin)
		}
		if si.name != "library" && c.Quick() {
			continue // a 55 KB image costs the extracted SHA-256 seconds per evaluation: thorough tier only
		}
		// single-byte changes
		exhaustive := !c.Quick() && idx == 0
		if exhaustive {
			for p := 0; p < len(si.img); p++ {
				m := append([]byte{}, si.img...)
				m[p] ^= 0x01
				check("byte-change-exhaustive", m, false)
			}
		}
		flipsHere := nflip
		if si.name != "library" && flipsHere > 40 {
			flipsHere = 40 // the 55 KB fixture costs seconds per evaluation in the extracted SHA-256
		}
		for k := 0; k < flipsHere; k++ {
			r := si.region[k%len(si.region)]
			if r.end <= r.start {
				continue
			}
			p := r.start + rng.Intn(r.end-r.start)
			m := append([]byte{}, si.img...)
			m[p] ^= byte(1 + rng.Intn(255))
			check("byte-change/"+r.name, m, rng.Intn(6) == 0)
		}
		// bytes appended behind the certificate table (the directory entry no longer reaches the end of the file)
		for _, n := range []int{1, 8, 4096} {
			if n < 4096 || si.name == "library" {
				check(fmt.Sprintf("appended-after-table/%d", n), append(append([]byte{}, si.img...), randBytes(rng, n)...), false)
			}
		}
		// transplant onto another image
		if len(images) > 1 {
			other := images[(idx+1)%len(images)]
			if other.name == "library" {
				check("transplant", rebuildWithBlobs(other.img, si.blobs), true)
				// ... and onto an image that keeps its own, valid signature by another key
				if len(other.blobs) > 0 {
					check("transplant-behind-own-signature", rebuildWithBlobs(other.img, append(append([][]byte{}, other.blobs...), si.blobs...)), true)
					check("transplant-before-own-signature", rebuildWithBlobs(other.img, append(append([][]byte{}, si.blobs...), other.blobs...)), false)
				}
			}
		}
		// rewrites inside the blob, re-embedded
		for _, m := range p7Mutants(si.seed, rng, 6) {
			class, blob := m[0].(string), m[1].([]byte)
			if c.Quick() && strings.Contains(class, "+") && rng.Intn(4) != 0 {
				continue // compound rewrites: a quarter of them in the quick tier (C04 runs them all at blob level)
			}
			check("blob/"+class, rebuildWithBlobs(si.img, append([][]byte{blob}, si.blobs[1:]...)), rng.Intn(c.Bound(12, 4)) == 0)
		}
		// the digest-swap forgery: change a covered byte of the image and put the new
		// image digest into SpcIndirectDataContent (lengths are unchanged)
		if si.name == "library" {
			m := append([]byte{}, si.img...)
			m[2] ^= 0xff
			if p, err := authenticode.Parse(bytes.NewReader(m)); err == nil {
				newDigest := p.Hash(crypto.SHA256)
				if roots := parseDER(si.blobs[0], 0); len(roots) == 1 {
					root := roots[0].clone()
					if d := root.at(1, 0, 2, 1, 0, 1, 1); d != nil && d.tag == 0x04 && len(d.val) == 32 {
						d.val = newDigest
						check("digest-swap-forgery", rebuildWithBlobs(m, append([][]byte{root.encode()}, si.blobs[1:]...)), false)
						// ... and with a messageDigest of the rewritten content among the attributes nothing signs
						if r2 := root.clone(); sdOf(r2) != nil && addUnauthMessageDigest(sdOf(r2), true) {
							check("digest-swap-forgery+unauthenticated-messagedigest", rebuildWithBlobs(m, append([][]byte{r2.encode()}, si.blobs[1:]...)), false)
						}
						// ... and with the fields no signature covers rewritten as well (digest algorithm of the signer entry)
						if sd := sdOf(root); sd != nil {
							for i, ch := range sd.children {
								if ch.tag == 0x31 && i >= 2 && len(ch.children) > 0 {
									if o := ch.children[0].at(2, 0); o != nil && o.tag == 0x06 && len(o.val) > 0 {
										o.val = append([]byte{}, o.val...)
										o.val[len(o.val)-1]++
										check("digest-swap-forgery+signer-digestalg", rebuildWithBlobs(m, append([][]byte{root.encode()}, si.blobs[1:]...)), false)
									}
								}
							}
						}
					}
				}
			}
			if f := twoSignerForgery(si.img, si.blobs[0]); f != nil {
				check("two-signer-forgery", f, false)
			}
		}
	}
	_ = x509.Certificate{}
	_ = rand.Int
}

// twoSignerForgery: a covered byte of the signed image is changed, an attacker signs
// the changed image with a key of their own, and the genuine signer entry is
// appended behind the attacker's in the same SignedData.
func twoSignerForgery(signedImg []byte, genuineBlob []byte) []byte {
	m := append([]byte{}, signedImg...)
	m[2] ^= 0xff
	// the changed image without its table
	e := int(binary.LittleEndian.Uint32(m[0x3c:]))
	dd4 := e + 24 + 128
	if binary.LittleEndian.Uint16(m[e+24:]) == 0x20b {
		dd4 = e + 24 + 144
	}
	va := int(binary.LittleEndian.Uint32(m[dd4:]))
	if va == 0 || va > len(m) {
		return nil
	}
	bare := append([]byte{}, m[:va]...)
	for i := 0; i < 8; i++ {
		bare[dd4+i] = 0
	}
	p, err := authenticode.Parse(bytes.NewReader(bare))
	if err != nil {
		return nil
	}
	ak := rsaKey(2048, 3)
	ab, err := p.Sign(ak, simpleCert(ak, "attacker", 666))
	if err != nil {
		return nil
	}
	g := graftSigner(ab, genuineBlob)
	if g == nil {
		return nil
	}
	return rebuildWithBlobs(m, [][]byte{g})
}
