package main

import (
	"bytes"
	"crypto"
	"crypto/rsa"
	"crypto/sha256"
	"crypto/x509"
	"crypto/x509/pkix"
	"encoding/asn1"
	"fmt"
	"math/big"
)

// An independent PKCS#7 SignedData verifier written from RFC 2315 on top of
// encoding/asn1 and crypto/rsa. It shares no code with the library under test
// nor with the Coq model; it validates the Coq specification and plays the
// "independent implementation" of C05 / C16.

type refContentInfo struct {
	Type    asn1.ObjectIdentifier
	Content asn1.RawValue `asn1:"explicit,optional,tag:0"`
}

type refSignerInfo struct {
	Version         int
	IssuerAndSerial struct {
		Issuer asn1.RawValue
		Serial *big.Int
	}
	DigestAlg       pkix.AlgorithmIdentifier
	AuthAttrs       asn1.RawValue `asn1:"optional,tag:0"`
	EncAlg          pkix.AlgorithmIdentifier
	EncryptedDigest []byte
	UnauthAttrs     asn1.RawValue `asn1:"optional,tag:1"`
}

type refSignedData struct {
	Version          int
	DigestAlgorithms asn1.RawValue
	ContentInfo      refContentInfo
	Certificates     asn1.RawValue `asn1:"optional,tag:0"`
	CRLs             asn1.RawValue `asn1:"optional,tag:1"`
	SignerInfos      []refSignerInfo `asn1:"set"`
}

type refAttribute struct {
	Type  asn1.ObjectIdentifier
	Value asn1.RawValue `asn1:"set"`
}

var (
	refOIDSignedData    = asn1.ObjectIdentifier{1, 2, 840, 113549, 1, 7, 2}
	refOIDMessageDigest = asn1.ObjectIdentifier{1, 2, 840, 113549, 1, 9, 4}
	refOIDContentType   = asn1.ObjectIdentifier{1, 2, 840, 113549, 1, 9, 3}
)

// refVerify: does blob carry a signature by cert over the content? content is
// the detached content; nil means "use the encapsulated content".
func refVerify(blob []byte, content []byte, cert *x509.Certificate) (bool, string) {
	var outer refContentInfo
	sdBytes := blob
	if rest, err := asn1.Unmarshal(blob, &outer); err == nil && outer.Type.Equal(refOIDSignedData) && len(rest) == 0 {
		sdBytes = outer.Content.Bytes
	}
	var sd refSignedData
	if _, err := asn1.Unmarshal(sdBytes, &sd); err != nil {
		return false, "parse: " + err.Error()
	}
	var digest []byte
	if content != nil {
		h := sha256.Sum256(content)
		digest = h[:]
	} else if len(sd.ContentInfo.Content.Bytes) > 0 {
		var inner asn1.RawValue
		if _, err := asn1.Unmarshal(sd.ContentInfo.Content.Bytes, &inner); err != nil {
			return false, "content: " + err.Error()
		}
		h := sha256.Sum256(inner.Bytes)
		digest = h[:]
	}
	pub, ok := cert.PublicKey.(*rsa.PublicKey)
	if !ok {
		return false, "not an RSA certificate"
	}
	for _, si := range sd.SignerInfos {
		if !bytes.Equal(si.IssuerAndSerial.Issuer.FullBytes, cert.RawIssuer) || si.IssuerAndSerial.Serial.Cmp(cert.SerialNumber) != 0 {
			continue
		}
		if len(si.AuthAttrs.FullBytes) == 0 {
			return false, "no signed attributes"
		}
		signed := append([]byte{0x31}, si.AuthAttrs.FullBytes[1:]...)
		h := sha256.Sum256(signed)
		if err := rsa.VerifyPKCS1v15(pub, crypto.SHA256, h[:], si.EncryptedDigest); err != nil {
			return false, "rsa: " + err.Error()
		}
		var attrs []refAttribute
		if _, err := asn1.UnmarshalWithParams(signed, &attrs, "set"); err != nil {
			return false, "attributes: " + err.Error()
		}
		var md []byte
		haveCT := false
		for _, a := range attrs {
			if a.Type.Equal(refOIDMessageDigest) {
				if _, err := asn1.Unmarshal(a.Value.Bytes, &md); err != nil {
					return false, "messageDigest: " + err.Error()
				}
			}
			if a.Type.Equal(refOIDContentType) {
				var ct asn1.ObjectIdentifier
				if _, err := asn1.Unmarshal(a.Value.Bytes, &ct); err == nil {
					haveCT = ct.Equal(sd.ContentInfo.Type)
				}
			}
		}
		if digest != nil && !bytes.Equal(md, digest) {
			return false, "messageDigest does not match the content"
		}
		if !haveCT {
			return false, "contentType attribute missing or different from the content type"
		}
		return true, ""
	}
	return false, fmt.Sprintf("no signer for issuer/serial %s", cert.SerialNumber)
}

// refSigningTime returns the signingTime attribute's UTCTime string of the
// first signer (ContentInfo-wrapped or bare SignedData).
func refSigningTime(blob []byte) string {
	var outer refContentInfo
	sdBytes := blob
	if rest, err := asn1.Unmarshal(blob, &outer); err == nil && outer.Type.Equal(refOIDSignedData) && len(rest) == 0 {
		sdBytes = outer.Content.Bytes
	}
	var sd refSignedData
	if _, err := asn1.Unmarshal(sdBytes, &sd); err != nil || len(sd.SignerInfos) == 0 {
		return ""
	}
	signed := append([]byte{0x31}, sd.SignerInfos[0].AuthAttrs.FullBytes[1:]...)
	var attrs []refAttribute
	if _, err := asn1.UnmarshalWithParams(signed, &attrs, "set"); err != nil {
		return ""
	}
	for _, a := range attrs {
		if a.Type.Equal(asn1.ObjectIdentifier{1, 2, 840, 113549, 1, 9, 5}) {
			var rv asn1.RawValue
			if _, err := asn1.Unmarshal(a.Value.Bytes, &rv); err == nil {
				return string(rv.Bytes)
			}
		}
	}
	return ""
}

func simpleCertParse(raw []byte) *x509.Certificate {
	c, err := x509.ParseCertificate(raw)
	if err != nil {
		panic(err)
	}
	return c
}
