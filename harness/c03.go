package main

import (
	"crypto/x509/pkix"
	"math/big"
	"bytes"
	"crypto/x509"
	"fmt"
	"math/rand"
	"strings"

	"github.com/foxboron/go-uefi/authenticode"
)

func init() {
	// worker: sign an image through a history of signings; args: image, steps "k[r]" (key index, r = re-parse first)
	implOps["pe_sign_history"] = func(a []string) []string {
		img := unhx(a[0])
		p, err := authenticode.Parse(bytes.NewReader(img))
		if err != nil {
			return []string{"err-parse"}
		}
		var blobs []string
		for _, st := range strings.Split(a[1], ",") {
			reparse := strings.HasSuffix(st, "r")
			if strings.HasSuffix(st, "b") {
				// the caller looks at the file so far, then goes on signing the same object
				p.Bytes()
				st = strings.TrimSuffix(st, "b")
			}
			var ki int
			fmt.Sscan(strings.TrimSuffix(st, "r"), &ki)
			if reparse {
				p, err = authenticode.Parse(bytes.NewReader(p.Bytes()))
				if err != nil {
					return []string{"err-reparse"}
				}
			}
			key := rsaKey(2048, ki)
			cert := c03SignerCert(ki, a[2])
			sig, err := p.Sign(key, cert)
			if err != nil {
				return []string{"err-sign"}
			}
			blobs = append(blobs, hx(sig))
		}
		otherObjects()
		rememberImage(img)
		return []string{"ok", strings.Join(blobs, ","), hx(p.Bytes())}
	}
	implOps["pe_verify"] = func(a []string) []string {
		img := unhx(a[0])
		cert, err := x509.ParseCertificate(unhx(a[1]))
		if err != nil {
			return []string{"0", "err-cert"}
		}
		peok := b01(peAccepts(img))
		p, err := authenticode.Parse(bytes.NewReader(img))
		if err != nil {
			return []string{peok, "err"}
		}
		if len(a) > 2 && a[2] != "" {
			for _, h := range strings.Split(a[2], ",") {
				if pc, err := x509.ParseCertificate(unhx(h)); err == nil {
					p.Verify(pc)
				}
			}
		}
		otherObjects()
		rememberImage(img)
		ok, err := p.Verify(cert)
		if err != nil {
			return []string{peok, "err"}
		}
		if ok {
			return []string{peok, "true"}
		}
		return []string{peok, "false"}
	}
	checkers["C03"] = checker{
		rule: "well-formed synthetic images (as in C01, small enough for the extracted SHA-256) crossed with signing histories of 1..3 steps (same or another 2048-bit key, certificates sized so that the signature length takes every residue modulo 8, with or without serialise/re-parse between steps; the image may already carry a table); the implementation's Bytes() is read by R_C03 (extracted check_signed_image): output well-formed, every original byte except the directory entry kept, zero padding, 8-aligned table spanned by the directory entry exactly to EOF, table = old entries || one revision-2.0 PKCS#7 WIN_CERTIFICATE per signature with correct length and padding, digest pre-image unchanged, Signatures() = old || new, every new signature embedding the digest of the output file; and compared byte for byte with the model's pe_bytes; then every signer's certificate must verify on Parse(out) and an unrelated certificate must not (R_C02); non-trivial = the history has at least one step and the image is well-formed; distinct by (image, history) hash",
		run:  runC03,
	}
}

// c03SignerCert: signer 0 is self-signed, signer 1 is issued by a CA (issuer differs from subject);
// with a pad starting with "L" both are issued by the same CA (same issuer, different serials).
func c03SignerCert(ki int, pad string) *x509.Certificate {
	if strings.HasPrefix(pad, "S") {
		// the certificate itself was signed with SHA-384
		return mintCertAlg(rsaKey(2048, ki), pkix.Name{CommonName: fmt.Sprintf("image signer %d", ki) + pad}, big.NewInt(int64(300+ki)), x509.SHA384WithRSA)
	}
	if strings.HasPrefix(pad, "F") && ki == 0 {
		// a certificate so large that the WIN_CERTIFICATE exceeds 64 KiB
		return storeFatCert(rsaKey(2048, ki), simpleCert(rsaKey(2048, ki), "fallback", int64(300+ki)))
	}
	if strings.HasPrefix(pad, "U") {
		// names as OpenSSL encodes them (UTF8String)
		return mintCertRawName(rsaKey(2048, ki), utf8Name(fmt.Sprintf("image signer %d", ki)+pad, "Verif Org"), big.NewInt(int64(300+ki)))
	}
	if ki == 1 || strings.HasPrefix(pad, "L") {
		return leafCert(rsaKey(2048, ki), fmt.Sprintf("image signer %d", ki)+pad, int64(300+ki))
	}
	return simpleCert(rsaKey(2048, ki), fmt.Sprintf("image signer %d", ki)+pad, int64(300+ki))
}

func smallPESpec(rng *rand.Rand) peSpec {
	s := genPESpec(rng, 64)
	if len(s.sections) > 5 {
		s.sections = s.sections[:5]
		s.fileOrder = rng.Perm(5)
		s.gaps = s.gaps[:5]
	}
	if s.trailing > 60 {
		s.trailing = rng.Intn(60)
	}
	return s
}

func runC03(c *Ctx) {
	rng := c.Rng
	n := c.N(70, 1000)
	// the common name is padded per case so that the signature length takes every residue modulo 8
	cnPad := ""
	signerCert := func(ki int) *x509.Certificate { return c03SignerCert(ki, cnPad) }
	for i := 0; i < n; i++ {
		cnPad = strings.Repeat("x", i%8)
		if i%3 == 2 {
			cnPad = "L" + cnPad
		} else if i%5 == 4 {
			cnPad = "U" + cnPad
		} else if i%7 == 3 {
			cnPad = "S" + cnPad
		} else if i == 1 || (!c.Quick() && i%50 == 1) {
			cnPad = "F"
		}
		spec := smallPESpec(rng)
		im := spec.build(rng)
		steps := []string{}
		nsteps := 1 + rng.Intn(3)
		anyReparse := false
		used := map[int]bool{}
		for k := 0; k < nsteps; k++ {
			ki := rng.Intn(2)
			used[ki] = true
			st := fmt.Sprint(ki)
			if k > 0 && rng.Intn(2) == 0 {
				st += "r"
				anyReparse = true
			} else if k > 0 && rng.Intn(2) == 0 {
				st += "b"
			}
			steps = append(steps, st)
		}
		class := fmt.Sprintf("table=%v/steps=%d/reparse=%v", len(spec.certs) > 0, nsteps, anyReparse)
		o := c.Impl("pe_sign_history", hx(im.bytes), strings.Join(steps, ","), cnPad)
		if o.Class != "ret" || len(o.Fields) < 3 || o.Fields[0] != "ok" {
			c.Rep.Record("pe_signed", class, true, "", []string{hx(im.bytes), strings.Join(steps, ",")}, "violation", append([]string{"signing failed: " + o.Class}, o.Fields...), nil)
			continue
		}
		blobs, out := o.Fields[1], o.Fields[2]
		args := []string{hx(im.bytes), blobs, out, b01(!anyReparse)}
		v, info := c.Drv.Eval("pe_signed", args...)
		c.Rep.Record("pe_signed", class, true, fmt.Sprintf("%d-byte image, steps %s", len(im.bytes), strings.Join(steps, ",")), args, v, info, map[string]string{"class": class})
		// verification of the output: every signer, and a certificate that did not sign
		outb := unhx(out)
		// (a table of pre-existing entries that are not signatures makes Verify stop at
		// the first of them: "already signed" images are produced by the histories themselves)
		for ki := range used {
			evalPEVerify(c, "C03/verify-signer", class, outb, signerCert(ki), len(spec.certs) == 0)
		}
		for ki := 0; ki < 2; ki++ {
			if !used[ki] {
				evalPEVerify(c, "C03/verify-nonsigner", class, outb, signerCert(ki), false)
			}
		}
		evalPEVerify(c, "C03/verify-nonsigner", class, outb, simpleCert(rsaKey(2048, 2), "unrelated", 999), false)
	}
}

// evalPEVerify runs Parse(img).Verify(cert) and decides it with R_C02; when
// want is true a success is additionally required (C03: the signer verifies).
func evalPEVerify(c *Ctx, op, class string, img []byte, cert *x509.Certificate, want bool, prior ...*x509.Certificate) string {
	var ph []string
	for _, pc := range prior {
		ph = append(ph, hx(pc.Raw))
	}
	o := c.Impl("pe_verify", hx(img), hx(cert.Raw), strings.Join(ph, ","))
	impl, peok := "err", "0"
	if o.Class != "ret" {
		impl = o.Class
	} else if len(o.Fields) >= 2 {
		peok, impl = o.Fields[0], o.Fields[1]
	}
	args := []string{peok, hx(img), certArg(cert), impl}
	v, info := c.Drv.Eval("pe_verify", args...)
	if v == "mismatch" && (impl == "panic" || impl == "exit" || impl == "timeout") {
		v = "ok"
	}
	if v == "ok" && want && impl != "true" {
		v, info = "violation", append(info, "the signing certificate does not verify")
	}
	if len(info) > 0 {
		c.Rep.Histogram["model-says/"+info[0]]++
	}
	c.Rep.Histogram["impl-says/"+impl]++
	c.Rep.Record(op, class, true, fmt.Sprintf("%d-byte image", len(img)), args, v, info, map[string]string{"class": class})
	return impl
}
