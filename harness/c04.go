package main

import (
	"strings"
	"crypto/x509"
	"fmt"
	"math/rand"
)

func init() {
	checkers["C04"] = checker{
		rule: "seeds: library-produced (detached data, embedded content, Authenticode), OpenSSL-produced at check time (smime and cms, detached/attached, with/without S/MIME capabilities, with/without certificates) and the sbsign / sbvarsign fixtures; derivations: random single-bit and single-byte changes, DER-structural edits with lengths fixed up (swap / remove / duplicate attributes, strip [0], drop contentType, replace messageDigest, content, content type, certificates, signature, signer serial, duplicate signer, broken signer first, trailing element, Spc digest swap, embed content into a detached blob, truncate, append); verifying certificates: the signer's, another key under the same issuer+serial, the same key under another serial / another issuer, unrelated; the implementation's ParsePKCS7+Verify runs in the sandboxed worker; R_C04 (extracted check_verify, RSA/X.509/UTCTime answered by the Go primitives) accepts a reported success only if some signer naming the certificate is RSA-valid over SET||attrs-as-in-blob and its messageDigest is the SHA-256 of the encapsulated content; non-trivial = the model parses the blob; distinct by (blob, certificate) hash",
		run:  runC04,
	}
}

func evalVerify(c *Ctx, prop, mode, class string, blob []byte, cert *x509.Certificate, certClass string, prior ...*x509.Certificate) string {
	var ph []string
	for _, pc := range prior {
		ph = append(ph, hx(pc.Raw))
	}
	o := c.Impl("p7_verify", hx(blob), hx(cert.Raw), strings.Join(ph, ","))
	impl := "err"
	if o.Class != "ret" {
		impl = o.Class
	} else if len(o.Fields) > 0 {
		switch o.Fields[0] {
		case "true", "false":
			impl = o.Fields[0]
		case "true-without-certificate":
			impl = "true"
		}
	}
	args := []string{mode, hx(blob), certArg(cert), impl}
	v, info := c.Drv.Eval("p7_verify", args...)
	nt := len(info) > 1 && info[1] == "1"
	if v == "mismatch" && (impl == "panic" || impl == "exit" || impl == "timeout") {
		// the way a call ends abnormally is C13's subject; here it is only "not success"
		v = "ok"
	}
	if v == "mismatch" {
		c.Rep.Histogram["mismatch/"+class]++
	}
	if len(info) > 0 {
		c.Rep.Histogram["model-says/"+info[0]]++
	}
	c.Rep.Histogram["impl-says/"+impl]++
	c.Rep.Record(prop+"/"+class, certClass, nt, fmt.Sprintf("%d-byte blob", len(blob)), args, v, info, map[string]string{"class": class, "cert": certClass})
	return impl
}

func runC04(c *Ctx) {
	rng := c.Rng
	seeds := librarySeeds(rng, c.N(6, 30))
	os, note := opensslSeeds(c, rng, c.N(10, 40))
	if note != "" {
		c.Rep.Extra["openssl_note"] = note
	}
	seeds = append(seeds, os...)
	seeds = append(seeds, fixtureSeeds()...)
	c.Rep.Extra["seeds"] = len(seeds)
	nflip := c.Bound(40, 600)
	for _, s := range seeds {
		others := otherCerts(s, rng)
		evalVerify(c, "C04", "sound", s.name+"/original", s.blob, s.cert, "signer")
		// the verdict for a certificate does not depend on what the same parsed object verified before
		if twin := others["same-issuer-serial-other-key"]; twin != nil {
			evalVerify(c, "C04", "sound", s.name+"/original-after-signer", s.blob, twin, "same-issuer-serial-other-key", s.cert)
			evalVerify(c, "C04", "sound", s.name+"/original-after-twin", s.blob, s.cert, "signer", twin, twin)
		}
		for k, oc := range others {
			evalVerify(c, "C04", "sound", s.name+"/original", s.blob, oc, k)
		}
		for _, m := range p7Mutants(s, rng, nflip) {
			class, blob := m[0].(string), m[1].([]byte)
			evalVerify(c, "C04", "sound", s.name+"/"+class, blob, s.cert, "signer")
			if rng.Intn(4) == 0 {
				for k, oc := range others {
					if rng.Intn(2) == 0 {
						evalVerify(c, "C04", "sound", s.name+"/"+class, blob, oc, k)
					}
				}
			}
		}
	}
	_ = rand.Int
}
