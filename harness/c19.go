package main

import (
	"encoding/binary"
	"github.com/foxboron/go-uefi/pkcs7"
	encasn1 "encoding/asn1"
	"math/big"
	"crypto/x509/pkix"
	"bytes"
	"crypto"
	"crypto/sha256"
	"crypto/x509"
	"fmt"
	"io"
	"math/rand"
	"os"
	"path/filepath"
	"reflect"
	"sort"
	"strings"
	"sync"

	"github.com/foxboron/go-uefi/authenticode"
	"github.com/foxboron/go-uefi/efi/signature"
	"github.com/foxboron/go-uefi/efi/util"
	"github.com/foxboron/go-uefi/efivar"
)

// C19: read-only operations on one shared object, repeated in random orders on
// one goroutine and concurrently on several (the latter in a race-detector build).

type pureOp struct {
	id  int
	run func() []byte // canonical encoding of the result
}

func sum(b []byte) []byte { h := sha256.Sum256(b); return h[:12] }

func encSigs(sigs []*signature.WINCertificate, err error) []byte {
	var b bytes.Buffer
	if err != nil {
		return []byte("err")
	}
	for _, s := range sigs {
		fmt.Fprintf(&b, "%d/%x/%x/%x;", s.Length, s.Revision, s.CertType, s.Certificate)
	}
	return b.Bytes()
}

// pureObject builds the object of a case and returns its read-only operations
// and a snapshot function of everything an operation could move.
func pureObject(kind string, data []byte, variant int) (ops []pureOp, snap func() []byte, fresh func() []pureOp, err error) {
	cert := func(ki int) *x509.Certificate {
		return simpleCert(rsaKey(2048, ki), fmt.Sprintf("image signer %d", ki), int64(300+ki))
	}
	switch kind {
	case "image":
		p, err := authenticode.Parse(bytes.NewReader(data))
		if err != nil {
			return nil, nil, nil, err
		}
		// variant: number of signatures appended in memory (0..2), +4: serialise and re-parse afterwards
		for k := 0; k < variant&3; k++ {
			if _, err := p.Sign(rsaKey(2048, k), cert(k)); err != nil {
				return nil, nil, nil, err
			}
		}
		// same issuer and serial as signer 0, another key
		twin := mintCert(rsaKey(2048, 5), pkix.Name{CommonName: "image signer 0", Organization: []string{"verif"}}, big.NewInt(300))
		mk := func(p *authenticode.PECOFFBinary) []pureOp {
			verify := func(c *x509.Certificate) []byte {
				ok, err := p.Verify(c)
				if err != nil {
					return []byte("err:" + err.Error())
				}
				return []byte(fmt.Sprint(ok))
			}
			return []pureOp{
				{1, func() []byte { return p.Bytes() }},
				{2, func() []byte { b, _ := io.ReadAll(p.Open()); return b }},
				{3, func() []byte { return p.Hash(crypto.SHA256) }},
				{4, func() []byte { return p.Hash(crypto.SHA1) }},
				{5, func() []byte { return encSigs(p.Signatures()) }},
				{6, func() []byte { return verify(cert(0)) }},
				{7, func() []byte { return verify(cert(1)) }},
				{8, func() []byte { return verify(cert(5)) }},
				{9, func() []byte { b, _ := p.VerifHashContent(); return b }},
				{10, func() []byte { return verify(twin) }},
				{11, func() []byte { return p.Hash(crypto.SHA512) }},
			}
		}
		// a fresh object with the same content: the serialisation of a builder object, parsed anew
		// (for an object signed in memory this is the same image by C03's re-parse theorem)
		serial := p.Bytes()
		if variant&4 != 0 || variant&3 == 0 {
			// the object under test is itself a fresh parse (never touched)
			if p, err = authenticode.Parse(bytes.NewReader(serial)); err != nil {
				return nil, nil, nil, err
			}
		}
		fresh = func() []pureOp {
			q, err := authenticode.Parse(bytes.NewReader(serial))
			if err != nil {
				return nil
			}
			return mk(q)
		}
		return mk(p), func() []byte { return []byte(p.VerifState()) }, fresh, nil
	case "db":
		db, err := signature.ReadSignatureDatabase(bytes.NewReader(data))
		if err != nil {
			return nil, nil, nil, err
		}
		fresh = func() []pureOp {
			o, _, _, err := pureObject("db", data, -1)
			if err != nil {
				return nil
			}
			return o
		}
		if variant == -1 {
			fresh = nil
		}
		var present, absent *signature.SignatureData
		var ptype util.EFIGUID
		var plist *signature.SignatureList
		for _, l := range db {
			if len(l.Signatures) > 0 {
				present, ptype, plist = &signature.SignatureData{Owner: l.Signatures[0].Owner, Data: append([]byte{}, l.Signatures[0].Data...)}, l.SignatureType, l
			}
		}
		absent = &signature.SignatureData{Owner: util.EFIGUID{Data1: 7}, Data: bytes.Repeat([]byte{0xee}, 32)}
		bb := func(b bool) []byte { return []byte(fmt.Sprint(b)) }
		ops = []pureOp{
			{1, func() []byte { return db.Bytes() }},
			{2, func() []byte { var b bytes.Buffer; db.Marshal(&b); return b.Bytes() }},
			{3, func() []byte { return bb(db.SigDataExists(signature.CERT_SHA256_GUID, absent)) }},
			{4, func() []byte { return bb(db.BytesExists(signature.CERT_X509_GUID, absent.Owner, absent.Data)) }},
		}
		if present != nil {
			ops = append(ops,
				pureOp{5, func() []byte { return bb(db.SigDataExists(ptype, present)) }},
				pureOp{6, func() []byte { return bb(db.Exists(ptype, plist)) }},
				pureOp{7, func() []byte { return bb(db.BytesExists(ptype, present.Owner, present.Data)) }},
				pureOp{8, func() []byte { return plist.Bytes() }},
				pureOp{9, func() []byte { ok, i := plist.Exists(present); return []byte(fmt.Sprint(ok, i)) }})
		}
		snap = func() []byte {
			var b bytes.Buffer
			fmt.Fprintf(&b, "%d:", len(db))
			for _, l := range db {
				fmt.Fprintf(&b, "[%v %d %d %d %x|", l.SignatureType, l.ListSize, l.HeaderSize, l.Size, l.SignatureHeader)
				for _, s := range l.Signatures {
					fmt.Fprintf(&b, "%v %x,", s.Owner, s.Data)
				}
				b.WriteString("]")
			}
			return b.Bytes()
		}
		return ops, snap, fresh, nil
	case "p7":
		// a parsed PKCS#7 object: verification of several certificates on the same object
		key := rsaKey(2048, 0)
		sc := cert(0)
		twin := mintCert(rsaKey(2048, 5), pkix.Name{CommonName: "image signer 0", Organization: []string{"verif"}}, big.NewInt(300))
		blob, err := pkcs7.SignPKCS7(key, sc, encasn1.ObjectIdentifier{1, 3, 6, 1, 4, 1, 311, 2, 1, 4}, data)
		if err != nil {
			return nil, nil, nil, err
		}
		mk := func() []pureOp {
			p, err := pkcs7.ParsePKCS7(blob)
			if err != nil {
				return nil
			}
			v := func(c *x509.Certificate) []byte { ok, err := p.Verify(c); return []byte(fmt.Sprint(ok, err != nil)) }
			return []pureOp{
				{1, func() []byte { return v(sc) }},
				{2, func() []byte { return v(twin) }},
				{3, func() []byte { return v(cert(1)) }},
				{4, func() []byte { return []byte(fmt.Sprint(p.HasCertificate(sc), p.HasCertificate(twin))) }},
				{5, func() []byte { return append([]byte(p.OID.String()), p.ContentInfo...) }},
			}
		}
		o := mk()
		if o == nil {
			return nil, nil, nil, fmt.Errorf("own output does not parse")
		}
		return o, func() []byte { return nil }, mk, nil
	case "value":
		key := rsaKey(2048, 0)
		auth, m, err := signature.SignEFIVariable(efivar.Db, rawValue(data), key, cert(0))
		if err != nil {
			return nil, nil, nil, err
		}
		ops = []pureOp{
			{1, func() []byte { var b bytes.Buffer; m.Marshal(&b); return b.Bytes() }},
			{2, func() []byte { return m.(interface{ Bytes() []byte }).Bytes() }},
			{3, func() []byte { var b bytes.Buffer; auth.Marshal(&b); return b.Bytes() }},
			{5, func() []byte { ok, err := auth.Verify(cert(0)); return []byte(fmt.Sprint(ok, err)) }},
			{6, func() []byte { ok, err := auth.Verify(cert(1)); return []byte(fmt.Sprint(ok, err)) }},
		}
		snap = func() []byte {
			// the bytes.Buffer inside the value: length of its slice and its read offset
			v := reflect.ValueOf(m)
			s := ""
			if v.Kind() == reflect.Struct && v.NumField() >= 2 {
				s = fmt.Sprintf("buf=%d off=%d ", v.Field(0).Len(), v.Field(1).Int())
			}
			return []byte(fmt.Sprintf("%s%v %d %x", s, auth.Time, auth.AuthInfo.Header.Length, auth.AuthInfo.CertData))
		}
		return ops, snap, nil, nil
	}
	return nil, nil, nil, fmt.Errorf("unknown object kind")
}

func init() {
	// pure <kind> <data> <variant> <seed> <nseq> <goroutines> <rounds>
	implOps["pure"] = func(a []string) []string {
		var variant, nseq, g, rounds int
		var seed int64
		fmt.Sscan(a[2], &variant)
		fmt.Sscan(a[3], &seed)
		fmt.Sscan(a[4], &nseq)
		fmt.Sscan(a[5], &g)
		fmt.Sscan(a[6], &rounds)
		ops, snap, fresh, err := pureObject(a[0], unhx(a[1]), variant)
		if err != nil {
			return []string{"setup-failed", err.Error()}
		}
		rng := rand.New(rand.NewSource(seed))
		var alone, obs, snaps []string
		// the result is recorded; then either the caller overwrites the returned bytes (they are the
		// caller's: a later call must not see what was done with them) or keeps them, in which case
		// nothing the library does later -- on this object or on any other -- may change them
		type heldT struct{ r, c []byte }
		var held []heldT
		var heldMu sync.Mutex
		pair := func(id int, r []byte) string {
			s := fmt.Sprintf("%d:%s", id, hx(sum(r)))
			if len(r) > 0 && (len(r)+id)%2 == 0 {
				heldMu.Lock()
				if len(held) < 64 {
					held = append(held, heldT{r, append([]byte{}, r...)})
				}
				heldMu.Unlock()
				return s
			}
			for i := range r {
				r[i] = 0xAA
			}
			return s
		}
		heldOK := func() string {
			for _, h := range held {
				if !bytes.Equal(h.r, h.c) {
					return "99:" + hx(sum([]byte("a result the caller kept was changed later")))
				}
			}
			return "99:" + hx(sum([]byte("kept results unchanged")))
		}
		// operations on OTHER objects of the same kind, rebuilt (re-parsed) every time, between the calls
		noise := func() {
			if len(a) <= 7 || a[7] == "" {
				return
			}
			if nops, _, _, err := pureObject(a[0], unhx(a[7]), variant&3); err == nil && len(nops) > 0 {
				nops[rng.Intn(len(nops))].run()
				nops[rng.Intn(len(nops))].run()
			}
		}
		snaps = append(snaps, hx(sum(snap())))
		for j, o := range ops {
			if fresh != nil {
				// the call made alone: on an object of the same content that nothing else has touched
				if fo := fresh(); fo != nil && j < len(fo) && fo[j].id == o.id {
					alone = append(alone, pair(o.id, fo[j].run()))
					continue
				}
			}
			alone = append(alone, pair(o.id, o.run()))
			snaps = append(snaps, hx(sum(snap())))
		}
		alone = append(alone, "99:"+hx(sum([]byte("kept results unchanged"))))
		for i := 0; i < nseq; i++ {
			if rng.Intn(3) == 0 {
				noise()
			}
			o := ops[rng.Intn(len(ops))]
			obs = append(obs, pair(o.id, o.run()))
			snaps = append(snaps, hx(sum(snap())))
			if i%4 == 3 {
				obs = append(obs, heldOK())
			}
		}
		noise()
		obs = append(obs, heldOK())
		if g > 1 {
			var wg sync.WaitGroup
			res := make([][]string, g)
			start := make(chan struct{})
			for t := 0; t < g; t++ {
				wg.Add(1)
				seq := make([]pureOp, rounds)
				for i := range seq {
					seq[i] = ops[rng.Intn(len(ops))]
				}
				go func(t int, seq []pureOp) {
					defer wg.Done()
					<-start
					for _, o := range seq {
						res[t] = append(res[t], pair(o.id, o.run()))
					}
				}(t, seq)
			}
			close(start)
			wg.Wait()
			for _, r := range res {
				obs = append(obs, r...)
			}
			obs = append(obs, heldOK())
			snaps = append(snaps, hx(sum(snap())))
		}
		return []string{"ok", strings.Join(alone, ","), strings.Join(obs, ","), strings.Join(snaps, ",")}
	}
	checkers["C19"] = checker{
		rule: "objects: parsed synthetic well-formed images (unsigned, carrying a table, signed in memory 0..2 times, serialised and re-parsed) and the sbsign fixture; decoded signature databases (grammar-generated and repository fixtures); signed-update values and descriptors from SignEFIVariable; parsed PKCS#7 objects. Operations: Bytes, Open+ReadAll, Hash(SHA-256/SHA-1), Signatures, Verify (signer, second signer, stranger, a certificate with the signer's issuer and serial but another key), the hash pre-image; database Bytes, Marshal, SigDataExists/Exists/BytesExists (present and absent), list Bytes/Exists; value Marshal, Bytes, descriptor Marshal/Bytes/Verify. Per object: each operation once alone (on a freshly parsed object of the same content where the object can be rebuilt deterministically), every returned byte slice either overwritten by the caller after it was recorded or kept and re-examined later (nothing may change it), then a random sequence, interleaved with operations on other freshly built objects of the same kind, on one goroutine with a state snapshot (verif hook: every stored reader's cursor, the certificate buffer's content and length, sizes; the database's lists; the value's buffer length and read offset) after every call, then 2..16 goroutines running random sequences concurrently in a -race build of the worker, snapshot after the join; R_C19 (extracted check_pure) requires every result to equal the result of the same call alone and every snapshot to equal the first; any race-detector report is a violation; non-trivial = all, distinct by (object, seed)",
		run:  runC19,
	}
}

func runC19(c *Ctx) {
	rng := c.Rng
	raceBin := os.Getenv("VERIF_RACE_BIN")
	raceDir := filepath.Join(c.Work, "race")
	os.MkdirAll(raceDir, 0755)
	var wr *Worker
	if raceBin != "" {
		wr = &Worker{Bin: raceBin, Env: []string{"VERIF_NO_RLIMIT=1", "GORACE=log_path=" + raceDir + "/report halt_on_error=0 history_size=2"}}
	}
	raceSeen := map[string]bool{}
	raceReports := func() string {
		fs, _ := filepath.Glob(raceDir + "/report*")
		out := ""
		for _, f := range fs {
			b, _ := os.ReadFile(f)
			if !raceSeen[f+fmt.Sprint(len(b))] && bytes.Contains(b, []byte("DATA RACE")) {
				raceSeen[f+fmt.Sprint(len(b))] = true
				out += string(b)
			}
		}
		return out
	}
	type obj struct {
		kind    string
		data    []byte
		variant int
		class   string
	}
	var objs []obj
	nImg, nDb, nVal := c.N(24, 300), c.N(16, 200), c.N(8, 60)
	for i := 0; i < nImg; i++ {
		spec := smallPESpec(rng)
		v := rng.Intn(3)
		if rng.Intn(2) == 0 {
			v |= 4
		}
		objs = append(objs, obj{"image", spec.build(rng).bytes, v, fmt.Sprintf("image/table=%v/signed=%d/reparsed=%v", len(spec.certs) > 0, v&3, v&4 != 0)})
	}
	// images whose certificate table carries eight bytes of slack behind its last entry (listing tolerates them)
	for i := 0; i < c.N(3, 24); i++ {
		spec := smallPESpec(rng)
		if len(spec.certs) == 0 {
			spec.certs = [][]byte{randBytes(rng, 1+rng.Intn(100))}
		}
		im := spec.build(rng)
		for _, r := range im.regions {
			if r.name == "cert-dir-entry" {
				b := append(append([]byte{}, im.bytes...), make([]byte, 8)...)
				binary.LittleEndian.PutUint32(b[r.start+4:], binary.LittleEndian.Uint32(b[r.start+4:])+8)
				objs = append(objs, obj{"image", b, 0, "image/table-with-slack"})
			}
		}
	}
	if !c.Quick() {
		if b, err := os.ReadFile("/repo/tests/data/binary/HelloWorld.efi.signed"); err == nil {
			objs = append(objs, obj{"image", b, 0, "image/fixture"})
		}
	}
	for i := 0; i < nDb; i++ {
		s, _ := genWfStream(rng, 4, 80)
		objs = append(objs, obj{"db", s, 0, "db/generated"})
	}
	// a database with a long unsorted list (hundreds of entries)
	{
		l := signature.NewSignatureList(signature.CERT_SHA256_GUID)
		for k := 0; k < 300; k++ {
			l.AppendBytes(util.EFIGUID{Data1: uint32(rng.Intn(5))}, randBytes(rng, 32))
		}
		objs = append(objs, obj{"db", l.Bytes(), 0, "db/long-list"})
	}
	fx := sigFixtures()
	names := make([]string, 0, len(fx))
	for n := range fx {
		names = append(names, n)
	}
	sort.Strings(names)
	for _, n := range names {
		if _, err := signature.ReadSignatureDatabase(bytes.NewReader(fx[n])); err == nil && (len(fx[n]) < 20000 || !c.Quick()) {
			objs = append(objs, obj{"db", fx[n], 0, "db/fixture"})
		}
	}
	for i := 0; i < nVal; i++ {
		b := make([]byte, rng.Intn(200))
		rng.Read(b)
		objs = append(objs, obj{"value", b, 0, "value"})
	}
	for i := 0; i < c.N(4, 40); i++ {
		objs = append(objs, obj{"p7", randBytes(rng, 1+rng.Intn(100)), 0, "pkcs7"})
	}
	nseq, rounds := c.Bound(24, 60), c.Bound(40, 1000)
	for i, o := range objs {
		g := []int{2, 3, 4, 8, 16}[i%5]
		seed := rng.Int63()
		// another object of the same kind, for the operations in between
		noiseData := ""
		for k := 1; k < len(objs); k++ {
			if n := objs[(i+k)%len(objs)]; n.kind == o.kind && !bytes.Equal(n.data, o.data) && len(n.data) < 20000 {
				noiseData = hx(n.data)
				break
			}
		}
		args := []string{o.kind, hx(o.data), fmt.Sprint(o.variant), fmt.Sprint(seed), fmt.Sprint(nseq), "1", "0", noiseData}
		run := func(w *Worker, mode string, args []string) {
			var ob Obs
			if w == nil {
				ob = c.Impl("pure", args...)
			} else {
				ob = w.Call(120*1e9, "pure", args...)
			}
			if ob.Class != "ret" || len(ob.Fields) < 4 || ob.Fields[0] != "ok" {
				c.Rep.Record("pure/"+mode, o.class, true, "", args, "violation", append([]string{"the calls did not all return: " + ob.Class}, ob.Fields...), map[string]string{"kind": o.kind, "mode": mode})
				return
			}
			v, info := c.Drv.Eval("pure", ob.Fields[1], ob.Fields[2], ob.Fields[3])
			if v != "ok" {
				info = append(info, describePure(ob.Fields[1], ob.Fields[2], ob.Fields[3]))
			}
			c.Rep.Record("pure/"+mode, o.class, true, fmt.Sprintf("%s seed=%d", o.class, seed), append(append([]string{}, args...), ob.Fields[1:4]...), v, info, map[string]string{"kind": o.kind, "mode": mode})
			if w != nil {
				if r := raceReports(); r != "" {
					c.Rep.Record("race", o.class, true, "", args, "violation", []string{"the race detector reported:", firstLines(r, 30)}, map[string]string{"kind": o.kind, "mode": "race"})
				}
			}
		}
		run(nil, "sequential", args)
		if wr != nil {
			cargs := append([]string{}, args...)
			cargs[4], cargs[5], cargs[6] = "6", fmt.Sprint(g), fmt.Sprint(rounds)
			run(wr, fmt.Sprintf("concurrent-%d", g), cargs)
		}
	}
	if wr != nil {
		wr.stop()
	} else {
		c.Rep.Extra["race_build"] = "VERIF_RACE_BIN not set: the concurrent half did not run"
	}
}

func firstLines(s string, n int) string {
	l := strings.Split(s, "\n")
	if len(l) > n {
		l = l[:n]
	}
	return strings.Join(l, " | ")
}

func describePure(alone, obs, snaps string) string {
	first := map[string]string{}
	for _, p := range strings.Split(alone, ",") {
		if kv := strings.SplitN(p, ":", 2); len(kv) == 2 {
			first[kv[0]] = kv[1]
		}
	}
	out := ""
	for i, p := range strings.Split(obs, ",") {
		if kv := strings.SplitN(p, ":", 2); len(kv) == 2 && first[kv[0]] != kv[1] {
			out += fmt.Sprintf("call %d (operation %s) returned %s, alone it returned %s; ", i, kv[0], kv[1], first[kv[0]])
			break
		}
	}
	sn := strings.Split(snaps, ",")
	for i, s := range sn {
		if s != sn[0] {
			out += fmt.Sprintf("state snapshot %d differs from the first", i)
			break
		}
	}
	return out
}
