package main

import (
	"testing/iotest"
	"bytes"
	"encoding/binary"
	"encoding/pem"
	"fmt"
	"math/rand"
	"os"
	"path/filepath"
	"strings"

	"github.com/foxboron/go-uefi/efi/signature"
	"github.com/foxboron/go-uefi/efi/util"
)

// ---- encodings shared with the driver ----

func sigArg(s signature.SignatureData) string { return guidArg(s.Owner) + "/" + hx(s.Data) }

func listArg(l *signature.SignatureList) string {
	sigs := make([]string, len(l.Signatures))
	for i, s := range l.Signatures {
		sigs[i] = sigArg(s)
	}
	return fmt.Sprintf("%s|%d|%d|%d|%s|%s", guidArg(l.SignatureType), l.ListSize, l.HeaderSize, l.Size, hx(l.SignatureHeader), strings.Join(sigs, ","))
}

func dbArg(db signature.SignatureDatabase) string {
	ls := make([]string, len(db))
	for i, l := range db {
		ls[i] = listArg(l)
	}
	return strings.Join(ls, ";")
}

func parseGuidArg(s string) util.EFIGUID {
	var g util.EFIGUID
	var d4 string
	f := strings.Split(s, ":")
	fmt.Sscan(f[0], &g.Data1)
	fmt.Sscan(f[1], &g.Data2)
	fmt.Sscan(f[2], &g.Data3)
	d4 = f[3]
	copy(g.Data4[:], unhx(d4))
	return g
}

func parseListArg(s string) *signature.SignatureList {
	f := strings.Split(s, "|")
	l := &signature.SignatureList{SignatureType: parseGuidArg(f[0])}
	fmt.Sscan(f[1], &l.ListSize)
	fmt.Sscan(f[2], &l.HeaderSize)
	fmt.Sscan(f[3], &l.Size)
	l.SignatureHeader = unhx(f[4])
	if len(l.SignatureHeader) == 0 {
		l.SignatureHeader = []uint8{}
	}
	l.Signatures = []signature.SignatureData{}
	if f[5] != "" {
		for _, sg := range strings.Split(f[5], ",") {
			p := strings.Split(sg, "/")
			l.Signatures = append(l.Signatures, signature.SignatureData{Owner: parseGuidArg(p[0]), Data: unhx(p[1])})
		}
	}
	return l
}

func parseDbArg(s string) signature.SignatureDatabase {
	db := signature.SignatureDatabase{}
	if s == "" {
		return db
	}
	for _, l := range strings.Split(s, ";") {
		db = append(db, parseListArg(l))
	}
	return db
}

// ---- worker operations ----

func init() {
	// decode through the three entry points; report the lists and the re-encoding
	implOps["db_decode"] = func(a []string) []string {
		in := unhx(a[0])
		var db signature.SignatureDatabase
		var err error
		switch a[1] {
		case "read":
			db, err = signature.ReadSignatureDatabase(bytes.NewReader(in))
		case "read-onebyte": // io.Reader contracts: a reader may return fewer bytes than asked for
			db, err = signature.ReadSignatureDatabase(iotest.OneByteReader(bytes.NewReader(in)))
		case "read-half":
			db, err = signature.ReadSignatureDatabase(iotest.HalfReader(bytes.NewReader(in)))
		case "read-dataerr": // ... or the last bytes together with io.EOF
			db, err = signature.ReadSignatureDatabase(iotest.DataErrReader(bytes.NewReader(in)))
		case "unmarshal":
			// the receiver is not empty: Unmarshal replaces what it held
			if len(in)%2 == 1 {
				l := signature.NewSignatureList(signature.CERT_SHA256_GUID)
				l.AppendBytes(util.EFIGUID{Data1: 9}, bytes.Repeat([]byte{9}, 32))
				db.AppendList(l)
			}
			err = db.Unmarshal(bytes.NewBuffer(in))
		case "readlist": // ReadSignatureList repeatedly, the way callers of the list API do
			r := bytes.NewReader(in)
			for r.Len() > 0 {
				var l *signature.SignatureList
				l, err = signature.ReadSignatureList(r)
				if err != nil {
					break
				}
				db = append(db, l)
			}
		}
		if err != nil {
			return []string{"err"}
		}
		// the encoding is taken, then another database is encoded, then the first result is looked at
		enc := db.Bytes()
		if earlierDB != nil {
			earlierDB.Bytes()
		}
		if len(in) < 20000 {
			earlierDB = &db
		}
		return []string{"ok", dbArg(db), hx(enc)}
	}
	// a history of database operations; one observation per step
	implOps["db_history"] = func(a []string) []string {
		db := parseDbArg(a[0])
		var obs []string
		if a[1] == "" {
			return []string{""}
		}
		for opIdx, op := range strings.Split(a[1], "&") {
			f := strings.Split(op, "~")
			// data of length zero reaches the library as nil in one step and as an empty slice in the next
			unhx := func(s string) []byte {
				if s == "" && opIdx%2 == 1 {
					return nil
				}
				return unhx(s)
			}
			ok, ans := true, false
			switch f[0] {
			case "A":
				ok = db.Append(parseGuidArg(f[1]), parseGuidArg(f[2]), unhx(f[3])) == nil
			case "R":
				ok = db.Remove(parseGuidArg(f[1]), parseGuidArg(f[2]), unhx(f[3])) == nil
			case "L":
				db.AppendList(parseListArg(f[1]))
			case "E":
				var nd signature.SignatureDatabase
				if err := nd.Unmarshal(bytes.NewBuffer(db.Bytes())); err != nil {
					ok = false
				} else {
					if nd == nil {
						nd = signature.SignatureDatabase{}
					}
					db = nd
				}
			case "Q":
				t, o, d := parseGuidArg(f[1]), parseGuidArg(f[2]), unhx(f[3])
				ans = db.BytesExists(t, o, d)
				if ans != db.SigDataExists(t, &signature.SignatureData{Owner: o, Data: d}) {
					ok = false
				}
			case "X":
				l := parseListArg(f[1])
				ans = db.Exists(l.SignatureType, l)
			}
			obs = append(obs, b01(ok)+"~"+dbArg(db)+"~"+b01(ans))
		}
		return []string{strings.Join(obs, "&")}
	}
}

func init() {
	// a history of operations on one list, called directly; one observation per step
	implOps["list_history"] = func(a []string) []string {
		sl := parseListArg(a[0])
		if len(sl.Signatures) == 0 {
			sl = signature.NewSignatureList(sl.SignatureType)
		}
		var obs []string
		if a[1] == "" {
			return []string{""}
		}
		for opIdx, op := range strings.Split(a[1], "&") {
			f := strings.Split(op, "~")
			o, d := parseGuidArg(f[1]), unhx(f[2])
			if len(d) == 0 && opIdx%2 == 1 {
				d = nil
			}
			ok, found, idx := true, false, 0
			switch f[0] {
			case "a":
				// both spellings of the operation
				if opIdx%2 == 0 {
					ok = sl.AppendBytes(o, d) == nil
				} else {
					ok = sl.AppendSignature(signature.SignatureData{Owner: o, Data: d}) == nil
				}
			case "r":
				if opIdx%2 == 0 {
					ok = sl.RemoveBytes(o, d) == nil
				} else {
					ok = sl.RemoveSignature(signature.SignatureData{Owner: o, Data: d}) == nil
				}
			case "q":
				found, idx = sl.Exists(&signature.SignatureData{Owner: o, Data: d})
			}
			obs = append(obs, b01(ok)+"~"+listArg(sl)+"~"+b01(found)+"~"+fmt.Sprint(idx))
		}
		return []string{strings.Join(obs, "&"), listArg(sl)}
	}
}

func answerOracle(c *Ctx, kind string, args []string) string {
	switch kind {
	case "pem":
		if block, _ := pem.Decode(unhx(args[0])); block != nil {
			return hx(block.Bytes)
		}
		return "-"
	}
	return answerCryptoOracle(c, kind, args)
}

// ---- generators ----

var (
	gX509   = signature.CERT_X509_GUID
	gSHA256 = signature.CERT_SHA256_GUID
	gEXT    = signature.CERT_EXTERNAL_MANAGEMENT_GUID
)

func encList(t util.EFIGUID, listSize, headerSize, size uint32, header []byte, sigs [][]byte) []byte {
	var b bytes.Buffer
	binary.Write(&b, binary.LittleEndian, t)
	binary.Write(&b, binary.LittleEndian, listSize)
	binary.Write(&b, binary.LittleEndian, headerSize)
	binary.Write(&b, binary.LittleEndian, size)
	b.Write(header)
	for _, s := range sigs {
		b.Write(s)
	}
	return b.Bytes()
}

// genWfList returns the encoding of one well-formed list of a decodable type.
func genWfList(rng *rand.Rand, maxCert int) ([]byte, string) {
	var t util.EFIGUID
	var dl int
	kind := ""
	switch rng.Intn(4) {
	case 0:
		t, dl, kind = gSHA256, 32, "sha256"
	case 1:
		t, dl, kind = gEXT, 1, "extmgmt"
	default:
		t, kind = gX509, "x509"
		switch rng.Intn(4) {
		case 0:
			dl = rng.Intn(4) // tiny, including empty data (Size == 16)
		default:
			dl = 1 + rng.Intn(maxCert)
		}
		if maxCert >= 1000 && rng.Intn(60) == 0 {
			// entry sizes around 2^16 (SignatureSize = 16 + data)
			dl = pick(rng, []int{65519, 65520, 65521, 65536, 65537, 70000})
		}
	}
	n := rng.Intn(5)
	if rng.Intn(6) == 0 {
		n = 0
	}
	// X.509 entries whose bytes happen to be PEM text (stored data is opaque to the decoder)
	pemText := kind == "x509" && rng.Intn(8) == 0
	if pemText {
		dl = len(pem.EncodeToMemory(&pem.Block{Type: "CERTIFICATE", Bytes: make([]byte, 30+rng.Intn(200))}))
		kind = "x509-pemtext"
	}
	sigs := make([][]byte, n)
	for i := range sigs {
		var o util.EFIGUID
		if rng.Intn(3) > 0 {
			o, _ = genGUID(rng)
		}
		var b bytes.Buffer
		binary.Write(&b, binary.LittleEndian, o)
		if pemText {
			// the PEM length depends only on the DER length: find a DER length giving dl bytes
			for k := 1; k < 400; k++ {
				if e := pem.EncodeToMemory(&pem.Block{Type: "CERTIFICATE", Bytes: randBytes(rng, k)}); len(e) == dl {
					b.Write(e)
					break
				}
			}
		} else {
			b.Write(randBytes(rng, dl))
		}
		sigs[i] = b.Bytes()
	}
	size := uint32(16 + dl)
	return encList(t, 28+uint32(n)*size, 0, size, nil, sigs), fmt.Sprintf("%s*%d", kind, n)
}

func genWfStream(rng *rand.Rand, maxLists, maxCert int) ([]byte, string) {
	n := rng.Intn(maxLists + 1)
	var out []byte
	kinds := []string{}
	for i := 0; i < n; i++ {
		b, k := genWfList(rng, maxCert)
		out = append(out, b...)
		kinds = append(kinds, k)
	}
	return out, fmt.Sprintf("%d lists", n)
}

func sigFixtures() map[string][]byte {
	out := map[string][]byte{}
	for _, pat := range []string{"/repo/tests/data/signatures/siglist/*", "/repo/tests/data/signatures/siglistchecksum/*"} {
		fs, _ := filepath.Glob(pat)
		for _, f := range fs {
			if b, err := os.ReadFile(f); err == nil {
				out[filepath.Base(f)] = b
			}
		}
	}
	// captured variables: 4 attribute bytes, then the database
	fs, _ := filepath.Glob("/repo/efi/signature/testdata/*")
	for _, f := range fs {
		if b, err := os.ReadFile(f); err == nil && len(b) >= 4 {
			out["var-"+filepath.Base(f)] = b[4:]
		}
	}
	return out
}

var earlierDB *signature.SignatureDatabase

func decodeEntries(rng *rand.Rand) string {
	return pick(rng, []string{"read", "read", "unmarshal", "unmarshal", "readlist", "readlist", "read-onebyte", "read-half", "read-dataerr"})
}

func (c *Ctx) evalDecode(op, class string, in []byte, entry string, match map[string]string) string {
	o := c.Impl("db_decode", hx(in), entry)
	fields := o.Fields
	if o.Class != "ret" || len(fields) == 0 {
		fields = []string{o.Class}
	}
	args := append([]string{hx(in)}, fields...)
	v, info := c.Drv.Eval(op, args...)
	nt := len(info) > 0 && info[0] == "1"
	if op == "c08_decode" {
		nt = len(in) > 0
	}
	c.Rep.Record(entry, class, nt, fmt.Sprintf("%d bytes", len(in)), args, v, info, match)
	return v
}

func init() {
	checkers["C07"] = checker{
		rule: "streams from a grammar generator (0..n lists; X.509 lists with any certificate size incl. empty data and sizes around 2^16 and any count incl. zero, incl. entries whose bytes are PEM text; SHA-256 lists; externally managed lists; any owners; any order), the repository's .esl files and captured variables, and databases built through Append/Remove/AppendList; each stream is decoded by the implementation (ReadSignatureDatabase over a byte reader and over readers that return one byte, half of the request, or data together with EOF; Unmarshal; repeated ReadSignatureList) in the sandboxed worker and R_C07 (extracted) requires exactly the model's lists and a byte-identical re-encoding, and for operation-built databases (extracted check_c07_built) that the lists the implementation holds encode per the layout to a stream that decodes to an equal database; non-trivial = the model decodes at least one list; distinct by input hash",
		run:  runC07,
	}
	checkers["C08"] = checker{
		rule: "byte strings near the well-formed language: every truncation point of valid streams (exhaustive per stream), edits of ListSize/HeaderSize/SignatureSize to 0, 15, 16, 27, 28, non-multiples, larger than the data and 2^32-1, unsupported and unknown signature types, trailing garbage, lists of 4095..4098 entries (whole, and announcing one more than present), and streams of 2^12..2^22 bytes whose list boundary falls exactly on the power of two followed by a list, garbage or a truncated list; R_C08 (extracted) accepts an implementation success only when the model decodes the same lists from the whole input; non-trivial = mutated input on which the verdict is not trivially 'both reject an empty input' (counted when the input is non-empty); distinct by input hash",
		run:  runC08,
	}
}

func runC07(c *Ctx) {
	rng := c.Rng
	for name, b := range sigFixtures() {
		for _, e := range []string{"read", "unmarshal", "readlist"} {
			c.evalDecode("c07_decode", "fixture:"+name, b, e, nil)
		}
	}
	n := c.N(900, 120000)
	maxCert := c.Bound(1500, 6000)
	for i := 0; i < n; i++ {
		s, class := genWfStream(rng, 5, maxCert)
		c.evalDecode("c07_decode", "grammar/"+class, s, decodeEntries(rng), nil)
	}
	// lists of a few hundred hashes (dbx): counts around the sizes at which decoders batch their reads
	for _, cnt := range []int{127, 128, 129, 130, 255, 256, 257, 300 + rng.Intn(300)} {
		sigs := make([][]byte, cnt)
		for i := range sigs {
			sigs[i] = append(randBytes(rng, 16), randBytes(rng, 32)...)
		}
		whole := encList(gSHA256, uint32(28+48*cnt), 0, 48, nil, sigs)
		c.evalDecode("c07_decode", "hundreds-of-hashes", whole, decodeEntries(rng), nil)
		next, _ := genWfList(rng, 40)
		c.evalDecode("c07_decode", "hundreds-of-hashes/then-list", append(append([]byte{}, whole...), next...), decodeEntries(rng), nil)
	}
	// databases built through the library's own operations, decodable types only
	u := newSigUniverse(rng)
	nh := c.N(150, 15000)
	for i := 0; i < nh; i++ {
		ops := u.genOps(rng, 2+rng.Intn(12), true)
		o := c.Impl("db_history", "", strings.Join(ops, "&"))
		if o.Class != "ret" || len(o.Fields) == 0 {
			c.Rep.Record("ops-built", "worker-"+o.Class, true, "", ops, "violation", nil, nil)
			continue
		}
		steps := strings.Split(o.Fields[0], "&")
		last := strings.Split(steps[len(steps)-1], "~")
		db := parseDbArg(last[1])
		enc := db.Bytes()
		c.evalDecode("c07_decode", "ops-built", enc, decodeEntries(rng), nil)
		// the database the operations built must itself encode to a well-formed stream that decodes to it
		od := c.Impl("db_decode", hx(enc), "read")
		fields := od.Fields
		if od.Class != "ret" || len(fields) == 0 {
			fields = []string{od.Class}
		}
		bargs := append([]string{last[1], hx(enc)}, fields...)
		v, info := c.Drv.Eval("c07_built", bargs...)
		c.Rep.Record("built-roundtrip", "ops-built", len(db) > 0, fmt.Sprintf("%d lists", len(db)), bargs, v, info, nil)
	}
}

func runC08(c *Ctx) {
	rng := c.Rng
	match := func(class string) map[string]string { return map[string]string{"input": class} }
	// exhaustive truncations of valid streams
	nTr := c.N(25, 400)
	streams := [][]byte{}
	for _, b := range sigFixtures() {
		if len(b) < 3000 {
			streams = append(streams, b)
		}
	}
	for len(streams) < nTr {
		s, _ := genWfStream(rng, 3, 60)
		if len(s) > 0 {
			streams = append(streams, s)
		}
	}
	for _, s := range streams {
		for k := 0; k <= len(s); k++ {
			c.evalDecode("c08_decode", "truncation", s[:k], "read", match("truncation"))
		}
	}
	n := c.N(2000, 300000)
	interesting := []uint32{0, 1, 15, 16, 17, 27, 28, 29, 44, 47, 48, 49, 76, 0x7fffffff, 0x80000000, 0xfffffff0, 0xffffffff}
	for i := 0; i < n; i++ {
		s, _ := genWfStream(rng, 3, 80)
		for len(s) == 0 {
			s, _ = genWfStream(rng, 3, 80)
		}
		m := append([]byte{}, s...)
		// locate a list header to mutate
		offs := []int{}
		for p := 0; p+28 <= len(m); {
			offs = append(offs, p)
			ls := int(binary.LittleEndian.Uint32(m[p+16:]))
			if ls < 28 {
				break
			}
			p += ls
		}
		p := pick(rng, offs)
		class := ""
		switch rng.Intn(8) {
		case 0:
			class = "listsize"
			v := pick(rng, interesting)
			if rng.Intn(2) == 0 {
				v = binary.LittleEndian.Uint32(m[p+16:]) + uint32(rng.Intn(97)) - 48
			}
			binary.LittleEndian.PutUint32(m[p+16:], v)
		case 1:
			class = "headersize"
			binary.LittleEndian.PutUint32(m[p+20:], pick(rng, interesting)|uint32(rng.Intn(2)))
		case 2:
			class = "sigsize"
			v := pick(rng, interesting)
			if rng.Intn(2) == 0 {
				v = binary.LittleEndian.Uint32(m[p+24:]) + uint32(rng.Intn(33)) - 16
			}
			binary.LittleEndian.PutUint32(m[p+24:], v)
		case 3:
			class = "type-valid-unsupported"
			var b bytes.Buffer
			binary.Write(&b, binary.LittleEndian, pick(rng, []util.EFIGUID{signature.CERT_SHA1_GUID, signature.CERT_RSA2048_GUID, signature.CERT_SHA384_GUID, signature.CERT_X509_SHA256_GUID}))
			copy(m[p:], b.Bytes())
		case 4:
			class = "type-unknown"
			copy(m[p:], randBytes(rng, 16))
		case 5:
			class = "trailing-garbage"
			m = append(m, randBytes(rng, 1+rng.Intn(40))...)
		case 6:
			class = "type-swap" // sha256 <-> x509 <-> extmgmt: the size rule of the new type applies
			var b bytes.Buffer
			binary.Write(&b, binary.LittleEndian, pick(rng, []util.EFIGUID{gX509, gSHA256, gEXT}))
			copy(m[p:], b.Bytes())
		case 7:
			class = "byte-flip-header"
			m[p+16+rng.Intn(12)] ^= 1 << uint(rng.Intn(8))
		}
		if i%40 == 3 {
			// zero padding behind the lists (a whole zeroed header, then maybe another list or garbage)
			class = "zero-header-then-more"
			m = append(append([]byte{}, s...), make([]byte, 28)...)
			switch rng.Intn(3) {
			case 0:
				nx, _ := genWfList(rng, 40)
				m = append(m, nx...)
			case 1:
				m = append(m, randBytes(rng, 1+rng.Intn(30))...)
			}
		}
		c.evalDecode("c08_decode", class, m, decodeEntries(rng), match(class))
	}
	// lists with thousands of entries: counts around 4096, whole, and announcing one entry more than is present
	for _, cnt := range []int{4095, 4096, 4097, 4098} {
		sigs := make([][]byte, cnt)
		for i := range sigs {
			sigs[i] = append(make([]byte, 16), randBytes(rng, 32)...)
		}
		whole := encList(gSHA256, uint32(28+48*cnt), 0, 48, nil, sigs)
		c.evalDecode("c08_decode", "many-entries/whole", whole, "read", match("many-entries"))
		short := encList(gSHA256, uint32(28+48*(cnt+1)), 0, 48, nil, sigs)
		c.evalDecode("c08_decode", "many-entries/one-announced-too-many", short, "read", match("many-entries"))
		next, _ := genWfList(rng, 40)
		c.evalDecode("c08_decode", "many-entries/then-list", append(append([]byte{}, whole...), next...), "read", match("many-entries"))
	}
	// large streams whose list boundary falls exactly on a power of two (where
	// buffer sizes and read limits live), followed by another list, by garbage
	// and by a truncated list
	ks := []int{12, 16, 20}
	if !c.Quick() {
		ks = []int{10, 12, 13, 15, 16, 17, 20, 21, 22}
	}
	for _, k := range ks {
		total := 1 << uint(k)
		owner := make([]byte, 16)
		first := encList(gX509, uint32(total), 0, uint32(total-28), nil, [][]byte{append(owner, randBytes(rng, total-28-16)...)})
		next, _ := genWfList(rng, 40)
		class := fmt.Sprintf("boundary-2^%d", k)
		c.evalDecode("c08_decode", class+"/exact", first, "read", match(class))
		c.evalDecode("c08_decode", class+"/then-list", append(append([]byte{}, first...), next...), "read", match(class))
		c.evalDecode("c08_decode", class+"/then-garbage", append(append([]byte{}, first...), randBytes(rng, 1+rng.Intn(27))...), "read", match(class))
		if len(next) > 30 {
			c.evalDecode("c08_decode", class+"/then-truncated-list", append(append([]byte{}, first...), next[:len(next)-1-rng.Intn(len(next)-29)]...), "read", match(class))
		}
	}
}
