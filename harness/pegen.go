package main

import (
	"encoding/binary"
	"math/rand"
)

// Synthetic PE/COFF images built from a layout description. The encoder is
// written from the PE format documentation and shares nothing with debug/pe.

type peSection struct {
	size   int // SizeOfRawData
	offset int // PointerToRawData (assigned by build unless fixed)
}

type peSpec struct {
	plus      bool
	elfanew   int
	nrva      int
	sections  []peSection // in section-table order
	fileOrder []int       // indices into sections, in file order (zero-size ones may be anywhere)
	gaps      []int       // gap before each section in file order
	sohSlack  int         // extra bytes between the section table and SizeOfHeaders
	trailing  int         // bytes after the last section
	certs     [][]byte    // existing certificate-table entries (payloads)
	certUnpadded bool     // the last table entry is not padded: the directory Size is not a multiple of 8
	padToEight bool       // when no table: leave the length as it falls (false) or pad (true)
}

type peRegion struct {
	name       string
	start, end int
}

type peImage struct {
	bytes   []byte
	regions []peRegion
	wf      bool // by construction: what the generator believes
}

func genPESpec(rng *rand.Rand, maxSection int) peSpec {
	s := peSpec{plus: rng.Intn(2) == 0, elfanew: 64 + 8*rng.Intn(57), nrva: 16}
	if rng.Intn(6) == 0 {
		s.elfanew = 64 + rng.Intn(449) // not 8-aligned
	}
	if rng.Intn(8) == 0 {
		s.nrva = 5 + rng.Intn(11)
	}
	n := rng.Intn(9)
	if rng.Intn(10) == 0 {
		n = 9 + rng.Intn(4)
	}
	for i := 0; i < n; i++ {
		sz := 0
		switch rng.Intn(6) {
		case 0:
			sz = 0
		case 1:
			sz = 1 + rng.Intn(16)
		default:
			sz = 8 * (1 + rng.Intn(maxSection/8+1))
			if rng.Intn(4) == 0 {
				sz += rng.Intn(8)
			}
		}
		s.sections = append(s.sections, peSection{size: sz})
	}
	s.fileOrder = rng.Perm(n)
	s.gaps = make([]int, n)
	if rng.Intn(4) == 0 {
		for i := range s.gaps {
			if rng.Intn(3) == 0 {
				s.gaps[i] = rng.Intn(24)
			}
		}
	}
	s.sohSlack = 8 * rng.Intn(8)
	if rng.Intn(5) == 0 {
		s.sohSlack = rng.Intn(64)
	}
	switch rng.Intn(4) {
	case 0:
		s.trailing = 0
	case 1:
		s.trailing = rng.Intn(9)
	default:
		s.trailing = rng.Intn(300)
	}
	if rng.Intn(4) == 0 {
		for k := 1 + rng.Intn(3); k > 0; k-- {
			s.certs = append(s.certs, randBytes(rng, 1+rng.Intn(120)))
		}
	}
	s.padToEight = rng.Intn(3) == 0
	return s
}

func (s peSpec) build(rng *rand.Rand) peImage {
	var regs []peRegion
	optSize := 224
	ddOff := 96
	machine := uint16(0x14c)
	magic := uint16(0x10b)
	if s.plus {
		optSize, ddOff, machine, magic = 240, 112, 0x8664, 0x20b
	}
	optSize = ddOff + 8*s.nrva
	opt := s.elfanew + 24
	secTab := opt + optSize
	soh := secTab + 40*len(s.sections) + s.sohSlack
	// assign file offsets in file order
	pos := soh
	secs := append([]peSection{}, s.sections...)
	for k, idx := range s.fileOrder {
		pos += s.gaps[k]
		if secs[idx].size == 0 {
			if rng.Intn(2) == 0 {
				secs[idx].offset = 0
			} else {
				secs[idx].offset = pos // a zero-size section may point anywhere
			}
			continue
		}
		secs[idx].offset = pos
		pos += secs[idx].size
	}
	endOfSections := pos
	img := make([]byte, endOfSections+s.trailing)
	rng.Read(img)
	// any gap makes SUM < end of sections: the "trailing" region then starts at SUM
	copy(img[0:], []byte{'M', 'Z'})
	binary.LittleEndian.PutUint32(img[0x3c:], uint32(s.elfanew))
	copy(img[s.elfanew:], []byte{'P', 'E', 0, 0})
	coff := s.elfanew + 4
	binary.LittleEndian.PutUint16(img[coff:], machine)
	binary.LittleEndian.PutUint16(img[coff+2:], uint16(len(secs)))
	binary.LittleEndian.PutUint32(img[coff+8:], 0)  // PointerToSymbolTable
	binary.LittleEndian.PutUint32(img[coff+12:], 0) // NumberOfSymbols
	binary.LittleEndian.PutUint16(img[coff+16:], uint16(optSize))
	binary.LittleEndian.PutUint16(img[opt:], magic)
	binary.LittleEndian.PutUint32(img[opt+60:], uint32(soh))
	binary.LittleEndian.PutUint32(img[opt+ddOff-4:], uint32(s.nrva))
	for i := 0; i < 8*s.nrva; i++ { // data directories: zero, then the certificate entry
		img[opt+ddOff+i] = 0
	}
	for i, sc := range secs {
		o := secTab + 40*i
		copy(img[o:o+8], []byte{'.', 's', 'e', 'c', byte('a' + i%26), 0, 0, 0}) // a plain name (no "/<offset>" string-table reference)
		binary.LittleEndian.PutUint32(img[o+16:], uint32(sc.size))
		binary.LittleEndian.PutUint32(img[o+20:], uint32(sc.offset))
		binary.LittleEndian.PutUint32(img[o+24:], 0)
		binary.LittleEndian.PutUint32(img[o+28:], 0)
		binary.LittleEndian.PutUint16(img[o+32:], 0) // NumberOfRelocations
		binary.LittleEndian.PutUint16(img[o+34:], 0)
	}
	dd4 := opt + ddOff + 32
	regs = append(regs, peRegion{"dos-header", 0, 0x3c}, peRegion{"e_lfanew", 0x3c, 0x40}, peRegion{"dos-stub", 0x40, s.elfanew},
		peRegion{"coff-header", s.elfanew, opt}, peRegion{"opt-before-checksum", opt, opt + 64}, peRegion{"checksum", opt + 64, opt + 68},
		peRegion{"opt-after-checksum", opt + 68, dd4}, peRegion{"cert-dir-entry", dd4, dd4 + 8})
	if dd4+8 < secTab {
		regs = append(regs, peRegion{"other-data-dirs", dd4 + 8, secTab})
	}
	regs = append(regs, peRegion{"section-table", secTab, secTab + 40*len(secs)})
	if s.sohSlack > 0 {
		regs = append(regs, peRegion{"header-slack", secTab + 40*len(secs), soh})
	}
	if endOfSections > soh {
		regs = append(regs, peRegion{"sections", soh, endOfSections})
	}
	if s.trailing > 0 {
		regs = append(regs, peRegion{"trailing", endOfSections, endOfSections + s.trailing})
	}
	if len(s.certs) > 0 {
		// the table must be 8-aligned and end the file
		for len(img)%8 != 0 {
			img = append(img, 0)
		}
		va := len(img)
		for ci := range s.certs {
			c := s.certs[ci]
			l := 8 + len(c)
			e := make([]byte, 8)
			binary.LittleEndian.PutUint32(e, uint32(l))
			binary.LittleEndian.PutUint16(e[4:], 0x0200)
			binary.LittleEndian.PutUint16(e[6:], 0x0002)
			e = append(e, c...)
			for len(e)%8 != 0 && !(s.certUnpadded && ci == len(s.certs)-1) {
				e = append(e, 0)
			}
			img = append(img, e...)
		}
		binary.LittleEndian.PutUint32(img[dd4:], uint32(va))
		binary.LittleEndian.PutUint32(img[dd4+4:], uint32(len(img)-va))
		regs = append(regs, peRegion{"cert-table", va, len(img)})
	} else if s.padToEight {
		for len(img)%8 != 0 {
			img = append(img, byte(rng.Intn(256)))
		}
	}
	// well-formed by construction unless a non-empty section points at 0 (never) --
	// the generator only produces layouts the property quantifies over
	return peImage{bytes: img, regions: regs, wf: true}
}
