package main

import (
	"flag"
	"fmt"
	"math/rand"
	"os"
	"time"
)

type Ctx struct {
	Tier   string
	Seed   int64
	Rng    *rand.Rand
	Drv    *Driver
	Rep    *Report
	Replay string
	Work   string
	W      *Worker

	timeouts int
	Shards   int // the thorough tier is split over this many processes; volumes are divided among them
	Shard    int
}

// Impl runs one implementation operation in the sandboxed worker.
func (c *Ctx) Impl(op string, args ...string) Obs {
	if c.W == nil {
		c.W = &Worker{}
	}
	o := c.W.Call(10*time.Second, op, args...)
	if o.Class == "timeout" {
		c.timeouts++
		// every timeout costs ten seconds: once the search has found this many
		// non-terminating calls it stops (the violations found so far are reported)
		if c.timeouts >= 12 {
			panic(stopSearch{fmt.Sprintf("%d calls did not return within 10 s", c.timeouts)})
		}
	}
	return o
}

// stopSearch ends a check's exploration early; what was recorded so far is reported.
type stopSearch struct{ why string }

func (c *Ctx) Quick() bool { return c.Tier != "thorough" }

// N picks the case volume for the tier.
func (c *Ctx) N(quick, thorough int) int {
	if c.Quick() {
		return quick
	}
	if c.Shards > 1 && thorough > quick {
		// a count of cases: each shard takes its part (never less than the quick tier's)
		if t := (thorough + c.Shards - 1) / c.Shards; t > quick {
			return t
		}
		return quick
	}
	return thorough
}

// Bound is for size bounds (not counts): the tier's value, whatever the number of shards.
func (c *Ctx) Bound(quick, thorough int) int {
	if c.Quick() {
		return quick
	}
	return thorough
}

type checker struct {
	rule string
	run  func(c *Ctx)
}

var checkers = map[string]checker{}

func main() {
	if len(os.Args) < 2 {
		fmt.Fprintln(os.Stderr, "usage: harness check|sites|worker ...")
		os.Exit(2)
	}
	switch os.Args[1] {
	case "check":
		fs := flag.NewFlagSet("check", flag.ExitOnError)
		prop := fs.String("prop", "", "property id")
		tier := fs.String("tier", "quick", "quick|thorough")
		seed := fs.Int64("seed", 1, "PRNG seed")
		driver := fs.String("driver", "", "path of the OCaml driver")
		out := fs.String("out", "", "report path")
		replay := fs.String("replay", "", "replay file")
		work := fs.String("work", "", "scratch directory")
		shards := fs.Int("shards", 1, "number of parallel shards of this run")
		shard := fs.Int("shard", 0, "index of this shard")
		fs.Parse(os.Args[2:])
		ck, ok := checkers[*prop]
		if !ok {
			fmt.Fprintln(os.Stderr, "unknown property", *prop)
			os.Exit(2)
		}
		if *work != "" {
			os.Setenv("VERIF_KEYDIR", *work+"/keys")
		}
		c := &Ctx{Tier: *tier, Seed: *seed, Rng: rand.New(rand.NewSource(*seed + int64(*shard)*1000003)), Replay: *replay, Work: *work, Shards: *shards, Shard: *shard}
		drv, err := StartDriver(*driver, func(kind string, args []string) string { return answerOracle(c, kind, args) })
		if err != nil {
			fmt.Fprintln(os.Stderr, "driver:", err)
			os.Exit(2)
		}
		c.Drv = drv
		c.Rep = NewReport(*prop, *tier, *seed, ck.rule)
		func() {
			defer func() {
				if r := recover(); r != nil {
					if st, ok := r.(stopSearch); ok {
						c.Rep.Extra["stopped_early"] = st.why
						return
					}
					panic(r)
				}
			}()
			ck.run(c)
		}()
		drv.Close()
		if c.W != nil {
			c.Rep.Extra["worker_restarts"] = c.W.Restarts
			c.W.stop()
		}
		c.Rep.OracleQueries = drv.Queries
		if err := c.Rep.Write(*out); err != nil {
			fmt.Fprintln(os.Stderr, "report:", err)
			os.Exit(2)
		}
	case "worker":
		workerMain(os.Args[2:])
	case "sites":
		sitesMain(os.Args[2:])
	default:
		fmt.Fprintln(os.Stderr, "unknown subcommand", os.Args[1])
		os.Exit(2)
	}
}
