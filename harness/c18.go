package main

import (
	"bytes"
	"encoding/binary"
	"fmt"
	"math/rand"
	"os"
	"path/filepath"
	"strings"
	"testing/fstest"
	"unicode/utf16"

	"github.com/foxboron/go-uefi/efi"
	"github.com/foxboron/go-uefi/efi/attributes"
	"github.com/foxboron/go-uefi/efi/device"
	efs "github.com/foxboron/go-uefi/efi/fs"
	"github.com/foxboron/go-uefi/efivarfs/testfs"
	"github.com/spf13/afero"
)

func hdrArg(h device.EFIDevicePath) string {
	return fmt.Sprintf("%d,%d,%d,%d", h.Type, h.SubType, h.Length[0], h.Length[1])
}

func nodeArg(n device.EFIDevicePaths) string {
	switch v := n.(type) {
	case device.PCIDevicePath:
		return fmt.Sprintf("P|%s|%d|%d", hdrArg(v.EFIDevicePath), v.Function[0], v.Device[0])
	case device.ACPIDevicePath:
		return fmt.Sprintf("A|%s|%s|%s", hdrArg(v.EFIDevicePath), hx(v.HID[:]), hx(v.UID[:]))
	case device.HardDriveMediaDevicePath:
		return fmt.Sprintf("H|%s|%d|%d|%d|%s|%d|%d", hdrArg(v.EFIDevicePath), v.PartitionNumber,
			binary.LittleEndian.Uint64(v.PartitionStart[:]), binary.LittleEndian.Uint64(v.PartitionSize[:]),
			hx(v.PartitionSignature[:]), v.PartitionFormat, v.SignatureType)
	case device.FileTypeMediaDevicePath:
		return fmt.Sprintf("F|%s|%s", hdrArg(v.EFIDevicePath), runesArg([]rune(v.PathName)))
	case device.FirmwareFielMediaDevicePath:
		return fmt.Sprintf("W|%s|%s", hdrArg(v.EFIDevicePath), hx(v.FirmwareFileName[:]))
	case device.USBMessagingDevicePath:
		return fmt.Sprintf("U|%s|%d|%d", hdrArg(v.EFIDevicePath), v.USBParentPortNumber, v.Interface)
	case nil:
		return "nil"
	}
	return fmt.Sprintf("?%T", n)
}

func loadOptionObs(o *device.EFILoadOption) []string {
	ns := make([]string, len(o.FilePath))
	for i, n := range o.FilePath {
		ns[i] = nodeArg(n)
	}
	return []string{"ok", fmt.Sprint(uint32(o.Attributes)), fmt.Sprint(o.FilePathListLength), runesArg([]rune(o.Description)), strings.Join(ns, ";")}
}

func init() {
	implOps["load_option"] = func(a []string) []string {
		var o device.EFILoadOption
		if err := o.Unmarshal(bytes.NewBuffer(unhx(a[0]))); err != nil {
			return []string{"err"}
		}
		return loadOptionObs(&o)
	}
	// decode, then render every node
	implOps["load_option_format"] = func(a []string) []string {
		var o device.EFILoadOption
		if err := o.Unmarshal(bytes.NewBuffer(unhx(a[0]))); err != nil {
			return []string{"err"}
		}
		out := []string{"ok"}
		for _, n := range o.FilePath {
			out = append(out, nodeArg(n)+"#"+hx([]byte(n.Format())))
		}
		return out
	}
	// boot order through the object API on an in-memory store, then resolve every name
	implOps["boot_order"] = func(a []string) []string {
		attributes.Efivars = "/sys/firmware/efi/efivars"
		m := fstest.MapFS{}
		m["/sys/firmware/efi/efivars/BootOrder-8be4df61-93ca-11d2-aa0d-00e098032b8c"] = &fstest.MapFile{Data: append([]byte{7, 0, 0, 0}, unhx(a[0])...)}
		if a[1] != "" {
			for _, kv := range strings.Split(a[1], ",") {
				p := strings.Split(kv, "=")
				m["/sys/firmware/efi/efivars/"+p[0]+"-8be4df61-93ca-11d2-aa0d-00e098032b8c"] = &fstest.MapFile{Data: append([]byte{7, 0, 0, 0}, unhx(p[1])...)}
			}
		}
		var names []string
		resolved := []string{}
		switch a[2] {
		case "object":
			e := testfs.NewTestFS().With(m).Open()
			names = e.GetBootOrder()
			// the caller keeps the list while another store is asked for its own order
			other := testfs.NewTestFS().With(fstest.MapFS{"/sys/firmware/efi/efivars/BootOrder-8be4df61-93ca-11d2-aa0d-00e098032b8c": &fstest.MapFile{Data: []byte{7, 0, 0, 0, 0xcd, 0xab, 0xff, 0x00, 0x03, 0x20, 0x01, 0x00, 0x02, 0x00, 0x04, 0x00}}}).Open()
			other.GetBootOrder()
			for _, n := range names {
				if o, err := e.GetBootEntry(n); err == nil {
					resolved = append(resolved, hx([]byte(o.Description)))
				} else {
					resolved = append(resolved, "!")
				}
			}
		case "legacy":
			mem := afero.NewMemMapFs()
			for k, v := range m {
				afero.WriteFile(mem, k, v.Data, 0644)
			}
			efs.SetFS(mem)
			names = efi.GetBootOrder()
			for _, n := range names {
				if _, err := mem.Stat("/sys/firmware/efi/efivars/" + n + "-8be4df61-93ca-11d2-aa0d-00e098032b8c"); err != nil {
					resolved = append(resolved, "!")
					continue
				}
				if o, err := efi.GetBootEntry(n); err == nil {
					resolved = append(resolved, hx([]byte(o.Description)))
				} else {
					resolved = append(resolved, "!")
				}
			}
		}
		hn := make([]string, len(names))
		for i, n := range names {
			hn[i] = hx([]byte(n))
		}
		return []string{strings.Join(hn, ","), strings.Join(resolved, ",")}
	}
	checkers["C18"] = checker{
		rule: "boot order: every one of the 65536 boot numbers (exhaustive, in chunks) plus random orders of length 0..n, through Efivarfs.GetBootOrder and efi.GetBootOrder on an in-memory store, each returned name then resolved through GetBootEntry against variables named by an independent upper-case formatter; load options from an independent encoder over PCI/ACPI/hard-drive(MBR,GPT)/file-path/firmware-file/USB nodes with arbitrary field values and descriptions, the 22 captured Boot#### variables; every hard-drive and file-path node is rendered and the rendering parsed by the text grammar (R_C18, extracted); non-trivial = a boot order with at least one entry / a load option with at least one node; distinct by input hash",
		run:  runC18,
	}
}

const upperHex = "0123456789ABCDEF"

func fwBootName(n uint16) string {
	return "Boot" + string([]byte{upperHex[n>>12], upperHex[(n>>8)&15], upperHex[(n>>4)&15], upperHex[n&15]})
}

func encUTF16(s []rune) []byte {
	var b []byte
	for _, u := range utf16.Encode(s) {
		b = append(b, byte(u), byte(u>>8))
	}
	return append(b, 0, 0)
}

// genNode: independent encoder of one supported node.
func genNode(rng *rand.Rand) ([]byte, string) {
	hdr := func(t, st byte) []byte {
		l := uint16(rng.Intn(65536))
		return []byte{t, st, byte(l), byte(l >> 8)}
	}
	switch rng.Intn(7) {
	case 0:
		return append(hdr(1, 1), byte(rng.Intn(256)), byte(rng.Intn(256))), "pci"
	case 1:
		return append(hdr(2, 1), randBytes(rng, 8)...), "acpi"
	case 2, 3:
		b := hdr(4, 1)
		pn := make([]byte, 4)
		binary.LittleEndian.PutUint32(pn, rng.Uint32()>>uint(rng.Intn(32)))
		st, sz := make([]byte, 8), make([]byte, 8)
		binary.LittleEndian.PutUint64(st, rng.Uint64()>>uint(rng.Intn(64)))
		binary.LittleEndian.PutUint64(sz, rng.Uint64()>>uint(rng.Intn(64)))
		sig := randBytes(rng, 16)
		kind := "hd-gpt"
		pf, sty := byte(2), byte(2)
		switch rng.Intn(5) {
		case 0, 1:
			pf, sty, kind = 1, 1, "hd-mbr"
			copy(sig[4:], make([]byte, 12))
			switch rng.Intn(4) {
			case 0: // signatures with leading zero digits
				sig[3], sig[2] = 0, byte(rng.Intn(16))
			case 1:
				copy(sig[:4], []byte{0, 0, 0, 0})
			}
		case 2:
			pf, sty, kind = byte(rng.Intn(256)), byte(rng.Intn(256)), "hd-other"
		case 3:
			// the partition format and the signature type are separate fields and may disagree:
			// the text follows the signature type
			if rng.Intn(2) == 0 {
				pf, sty, kind = 2, 1, "hd-mbr"
				copy(sig[4:], make([]byte, 12))
			} else {
				pf, sty, kind = 1, 2, "hd-gpt"
			}
		}
		if kind == "hd-gpt" && rng.Intn(3) == 0 { // asymmetric bytes: byte order shows
			sig = []byte{1, 2, 3, 4, 5, 6, 7, 8, 9, 10, 11, 12, 13, 14, 15, 16}
		}
		b = append(b, pn...)
		b = append(b, st...)
		b = append(b, sz...)
		b = append(b, sig...)
		return append(b, pf, sty), kind
	case 4:
		p, _ := genString(rng, 30)
		if rng.Intn(2) == 0 {
			p = []rune("\\EFI\\BOOT\\BOOTX64.EFI")
		}
		return append(hdr(4, 4), encUTF16(p)...), "file"
	case 5:
		return append(hdr(4, 6), randBytes(rng, 16)...), "fwfile"
	default:
		return append(hdr(3, 5), byte(rng.Intn(256)), byte(rng.Intn(256))), "usb"
	}
}

func runC18(c *Ctx) {
	rng := c.Rng
	// ---- boot order: all 65536 numbers, exhaustive ----
	evalOrder := func(nums []uint16, api string, class string) {
		var raw []byte
		vars := []string{}
		seen := map[uint16]bool{}
		for _, n := range nums {
			raw = append(raw, byte(n), byte(n>>8))
			if !seen[n] {
				seen[n] = true
				// a minimal load option whose description is the decimal boot number
				lo := append([]byte{1, 0, 0, 0, 4, 0}, encUTF16([]rune(fmt.Sprint(n)))...)
				lo = append(lo, 0x7f, 0xff, 4, 0)
				vars = append(vars, fwBootName(n)+"="+hx(lo))
			}
		}
		o := c.Impl("boot_order", hx(raw), strings.Join(vars, ","), api)
		names, resolved := "", ""
		if o.Class == "ret" && len(o.Fields) == 2 {
			names, resolved = o.Fields[0], o.Fields[1]
		} else {
			names = hx([]byte("worker-" + o.Class))
		}
		args := []string{hx(raw), names}
		v, info := c.Drv.Eval("boot_order", args...)
		if v == "ok" {
			// every name must resolve to the entry of its own number
			rs := []string{}
			if resolved != "" {
				rs = strings.Split(resolved, ",")
			}
			if len(rs) != len(nums) {
				v, info = "violation", []string{"resolved count"}
			}
			for i := range rs {
				if i < len(nums) && rs[i] != hx([]byte(fmt.Sprint(nums[i]))) {
					v, info = "violation", []string{fmt.Sprintf("entry %d (%s) does not resolve", i, fwBootName(nums[i]))}
					break
				}
			}
		}
		c.Rep.Record("boot_order/"+api, class, len(nums) > 0, fmt.Sprintf("%d entries", len(nums)), args, v, info, map[string]string{"api": api})
	}
	chunk := 512
	for base := 0; base < 65536; base += chunk {
		nums := make([]uint16, chunk)
		for i := range nums {
			nums[i] = uint16(base + i)
		}
		api := "object"
		if (base/chunk)%4 == 3 {
			api = "legacy"
		}
		evalOrder(nums, api, "exhaustive-chunk")
	}
	c.Rep.Extra["boot_numbers_exhaustive"] = 65536
	for i := 0; i < c.N(150, 15000); i++ {
		n := rng.Intn(12)
		if rng.Intn(8) == 0 {
			n = 0
		}
		nums := make([]uint16, n)
		for j := range nums {
			nums[j] = uint16(rng.Intn(65536))
			if rng.Intn(3) == 0 {
				nums[j] = pick(rng, []uint16{0, 1, 0xa, 0xf, 0x10, 0xab, 0xabc, 0xabcd, 0xffff, 0x00ff, 0xff00, 0x1A, 0x2001})
			}
		}
		evalOrder(nums, pick(rng, []string{"object", "legacy"}), "random")
	}
	// ---- load options ----
	evalLO := func(in []byte, class string) {
		o := c.Impl("load_option", hx(in))
		f := o.Fields
		if o.Class != "ret" || len(f) == 0 {
			f = []string{o.Class}
		}
		args := append([]string{hx(in)}, f...)
		v, info := c.Drv.Eval("load_option", args...)
		nt := len(info) > 0 && info[0] == "1"
		c.Rep.Record("load_option", class, nt, fmt.Sprintf("%d bytes", len(in)), args, v, info, nil)
		// text rendering of every node
		o2 := c.Impl("load_option_format", hx(in))
		if o2.Class != "ret" {
			if nt {
				c.Rep.Record("node_text", class+"/worker-"+o2.Class, true, "", []string{hx(in)}, "violation", []string{o2.Class}, map[string]string{"worker": o2.Class})
			}
			return
		}
		for _, nf := range o2.Fields[1:] {
			p := strings.SplitN(nf, "#", 2)
			f := strings.Split(p[0], "|")
			switch f[0] {
			case "H":
				args := []string{f[2], f[3], f[4], f[5], f[7], p[1]}
				v, info := c.Drv.Eval("hd_text", args...)
				kind := "other"
				if f[7] == "1" {
					kind = "mbr"
				} else if f[7] == "2" {
					kind = "gpt"
				}
				c.Rep.Record("hd_text", kind, kind != "other", string(unhx(p[1])), args, v, info, map[string]string{"node": "hd-" + kind})
			case "F":
				args := []string{f[2], runesArg([]rune(string(unhx(p[1]))))}
				v, info := c.Drv.Eval("file_text", args...)
				c.Rep.Record("file_text", "file", true, string(unhx(p[1])), args, v, info, nil)
			}
		}
	}
	files, _ := filepath.Glob("/repo/tests/data/boot/Boot*")
	for _, f := range files {
		if b, err := os.ReadFile(f); err == nil && len(b) > 4 {
			evalLO(b[4:], "capture")
		}
	}
	for i := 0; i < c.N(500, 100000); i++ {
		attrs := make([]byte, 4)
		binary.LittleEndian.PutUint32(attrs, rng.Uint32()>>uint(rng.Intn(32)))
		desc, _ := genString(rng, 24)
		in := append(attrs, byte(rng.Intn(256)), byte(rng.Intn(256)))
		in = append(in, encUTF16(desc)...)
		kinds := []string{}
		for k := rng.Intn(5); k > 0; k-- {
			b, kind := genNode(rng)
			in = append(in, b...)
			kinds = append(kinds, kind)
		}
		in = append(in, 0x7f, 0xff, 4, 0)
		in = append(in, randBytes(rng, rng.Intn(8))...) // optional data
		evalLO(in, "encoder/"+strings.Join(kinds, "+"))
	}
}
