package main

import (
	"bytes"
	"encoding/binary"
	"encoding/pem"
	"fmt"
	"math/rand"
	"strings"

	"github.com/foxboron/go-uefi/efi/signature"
	"github.com/foxboron/go-uefi/efi/util"
)

// A small universe of types, owners and data values chosen to collide.
type sigUniverse struct {
	owners []util.EFIGUID
	hashes [][]byte
	wrong  [][]byte // 31/33-byte "hashes"
	ders   [][]byte
	pems   [][]byte
}

func pemOf(der []byte) []byte {
	return pem.EncodeToMemory(&pem.Block{Type: "CERTIFICATE", Bytes: der})
}

func newSigUniverse(rng *rand.Rand) *sigUniverse {
	u := &sigUniverse{}
	u.owners = []util.EFIGUID{{}, {Data1: 1, Data2: 2, Data3: 3, Data4: [8]byte{4, 5, 6, 7, 8, 9, 10, 11}}, *util.StringToGUID("77fa9abd-0359-4d32-bd60-28f4e78f784b")}
	for i := 0; i < 4; i++ {
		u.hashes = append(u.hashes, randBytes(rng, 32))
	}
	u.wrong = [][]byte{randBytes(rng, 31), randBytes(rng, 33), {}}
	// three "certificates": two of equal DER length, and one whose DER length
	// equals the length of another's PEM text
	a := append([]byte{0x30, 0x82}, randBytes(rng, 198)...)
	b := append([]byte{0x30, 0x82}, randBytes(rng, 198)...)
	pa := pemOf(a)
	cc := append([]byte{0x30, 0x82}, randBytes(rng, len(pa)-2)...)
	d := append([]byte{0x30, 0x81}, randBytes(rng, 90)...)
	u.ders = [][]byte{a, b, cc, d}
	for _, x := range u.ders {
		if blk, _ := pem.Decode(x); blk != nil {
			panic("universe: DER value decodes as PEM")
		}
		u.pems = append(u.pems, pemOf(x))
	}
	// PEM text that carries explanatory text in front of the armour (openssl pkcs12 / x509 -text output)
	u.pems = append(u.pems, append([]byte("Bag Attributes\n    friendlyName: verif\nsubject=CN = x\n"), pemOf(a)...),
		append([]byte("Certificate:\n    Data:\n        Version: 3 (0x2)\n"), pemOf(d)...))
	return u
}

func (u *sigUniverse) entry(rng *rand.Rand, decodableOnly bool) (t util.EFIGUID, o util.EFIGUID, d []byte, class string) {
	o = pick(rng, u.owners)
	k := rng.Intn(10)
	if decodableOnly && k >= 7 {
		k = rng.Intn(7)
	}
	switch {
	case k < 3:
		return gSHA256, o, pick(rng, u.hashes), "sha256"
	case k < 5:
		if rng.Intn(8) == 0 {
			// an entry without data (SignatureSize 16): given as nil or as an empty slice
			if rng.Intn(2) == 0 {
				return gX509, o, nil, "x509-empty"
			}
			return gX509, o, []byte{}, "x509-empty"
		}
		return gX509, o, pick(rng, u.ders), "x509-der"
	case k < 7:
		return gX509, o, pick(rng, u.pems), "x509-pem"
	case k == 7:
		return gSHA256, o, pick(rng, u.wrong), "sha256-wrong-size"
	case k == 8:
		if rng.Intn(2) == 0 {
			// EFI_CERT_X509_SHA256: a 32-byte hash and a 16-byte time of revocation
			return signature.CERT_X509_SHA256_GUID, o, append(append([]byte{}, pick(rng, u.hashes)...), make([]byte, 16)...), "x509-sha256"
		}
		return signature.CERT_SHA1_GUID, o, randBytes(rng, 20)[:20], "sha1-undecodable"
	default:
		// one fixed unknown type per universe, so that histories return to it
		return u.unknownType(), o, pick(rng, u.hashes), "unknown-type"
	}
}

func (u *sigUniverse) unknownType() util.EFIGUID {
	return util.EFIGUID{Data1: 0xfeedface, Data2: 0x1234, Data3: 0x5678, Data4: [8]byte{1, 2, 3, 4, 5, 6, 7, 8}}
}

func (u *sigUniverse) freshList(rng *rand.Rand, decodableOnly bool) *signature.SignatureList {
	if !decodableOnly && rng.Intn(4) == 0 {
		// AppendList takes any list: one of a type the library does not know
		l := signature.NewSignatureList(u.unknownType())
		l.AppendBytes(pick(rng, u.owners), pick(rng, u.hashes))
		return l
	}
	if rng.Intn(2) == 0 {
		l := signature.NewSignatureList(gSHA256)
		for i := 0; i < 1+rng.Intn(2); i++ {
			l.AppendBytes(pick(rng, u.owners), pick(rng, u.hashes))
		}
		return l
	}
	l := signature.NewSignatureList(gX509)
	l.AppendBytes(pick(rng, u.owners), pick(rng, u.ders))
	return l
}

// genOps generates a history; sha1Data is kept per universe so removes can hit.
func (u *sigUniverse) genOps(rng *rand.Rand, n int, decodableOnly bool) []string {
	ops := []string{}
	type ent struct {
		t, o util.EFIGUID
		d    []byte
	}
	added := []ent{}
	for len(ops) < n {
		k := rng.Intn(20)
		switch {
		case k < 9:
			t, o, d, _ := u.entry(rng, decodableOnly)
			if t == signature.CERT_SHA1_GUID {
				d = u.hashes[0][:20]
			}
			ops = append(ops, fmt.Sprintf("A~%s~%s~%s", guidArg(t), guidArg(o), hx(d)))
			added = append(added, ent{t, o, d})
		case k < 13:
			// remove something that was (probably) added, in stored form, or something absent
			var e ent
			if len(added) > 0 && rng.Intn(4) > 0 {
				e = pick(rng, added)
				if blk, _ := pem.Decode(e.d); blk != nil && rng.Intn(3) > 0 {
					e.d = blk.Bytes
				}
			} else {
				t, o, d, _ := u.entry(rng, decodableOnly)
				e = ent{t, o, d}
			}
			ops = append(ops, fmt.Sprintf("R~%s~%s~%s", guidArg(e.t), guidArg(e.o), hx(e.d)))
		case k < 16:
			var e ent
			if len(added) > 0 && rng.Intn(3) > 0 {
				e = pick(rng, added)
				if blk, _ := pem.Decode(e.d); blk != nil && rng.Intn(3) > 0 {
					e.d = blk.Bytes
				}
				if rng.Intn(4) == 0 { // same owner and data under another type
					e.t = pick(rng, []util.EFIGUID{gSHA256, gX509, signature.CERT_SHA1_GUID})
				}
			} else {
				t, o, d, _ := u.entry(rng, decodableOnly)
				e = ent{t, o, d}
			}
			ops = append(ops, fmt.Sprintf("Q~%s~%s~%s", guidArg(e.t), guidArg(e.o), hx(e.d)))
		case k < 17:
			l := u.freshList(rng, decodableOnly)
			ops = append(ops, "L~"+listArg(l))
			for _, s := range l.Signatures {
				added = append(added, ent{l.SignatureType, s.Owner, s.Data})
			}
		case k < 18:
			l := u.freshList(rng, decodableOnly)
			ops = append(ops, "X~"+listArg(l))
		default:
			if !decodableOnly || true {
				ops = append(ops, "E")
			}
		}
	}
	return ops
}

func init() {
	checkers["C09"] = checker{
		rule: "random histories of append / remove / entry query / list query / append-list (fresh non-empty lists, also of a type the library does not know, which later appends name again) / encode-decode over a colliding universe (3 owners; SHA-256, X.509, SHA-1 (valid but undecodable) and unknown types; 4 hashes, 31/33/0-byte hashes, 4 certificates as DER and PEM, two of equal DER length, one whose DER length equals another's PEM length), from the empty database or from a decoded stream (incl. two same-size X.509 lists, and streams in which an entry occurs several times); the implementation runs the history in the sandboxed worker reporting result, database and answer after each step; R_C09 (extracted run_history) checks each step against the ordered-entry view, the list invariants and the model; the same for histories of the operations called on one list directly (AppendBytes/AppendSignature, RemoveBytes/RemoveSignature, Exists with its index; new lists and decoded ones of the X.509, SHA-256 and an unknown type; extracted run_list_history), whose final list, placed in a database, must encode to a stream that decodes to it (check_c07_built); non-trivial = the history has a successful append and a successful remove; distinct by history hash",
		run:  runC09,
	}
}

// genListOps: a history of direct operations on one list of type t.
func (u *sigUniverse) genListOps(rng *rand.Rand, t util.EFIGUID, n int) []string {
	type ent struct {
		o util.EFIGUID
		d []byte
	}
	var added []ent
	data := func() []byte {
		switch {
		case t == gX509:
			switch k := rng.Intn(10); {
			case k < 5:
				return pick(rng, u.ders)
			case k < 8:
				return pick(rng, u.pems)
			case k < 9:
				return []byte{}
			default:
				return pick(rng, u.hashes)
			}
		case t == gSHA256:
			if rng.Intn(5) == 0 {
				return pick(rng, u.wrong)
			}
			return pick(rng, u.hashes)
		default:
			if rng.Intn(3) == 0 {
				return pick(rng, u.ders)
			}
			return pick(rng, u.hashes)
		}
	}
	var ops []string
	for len(ops) < n {
		o, d := pick(rng, u.owners), data()
		if len(added) > 0 && rng.Intn(3) > 0 && rng.Intn(20) >= 10 {
			e := pick(rng, added)
			o, d = e.o, e.d
			if blk, _ := pem.Decode(d); blk != nil && rng.Intn(3) > 0 {
				d = blk.Bytes
			}
		}
		switch k := rng.Intn(20); {
		case k < 10:
			ops = append(ops, fmt.Sprintf("a~%s~%s", guidArg(o), hx(d)))
			added = append(added, ent{o, d})
		case k < 15:
			ops = append(ops, fmt.Sprintf("r~%s~%s", guidArg(o), hx(d)))
		default:
			ops = append(ops, fmt.Sprintf("q~%s~%s", guidArg(o), hx(d)))
		}
	}
	return ops
}

// runC09Lists: the same operations called on one list directly (AppendBytes / AppendSignature,
// RemoveBytes / RemoveSignature, Exists), as callers that build a list for AppendList do.
func runC09Lists(c *Ctx) {
	rng := c.Rng
	n := c.N(200, 12000)
	maxOps := c.Bound(40, 200)
	for i := 0; i < n; i++ {
		u := newSigUniverse(rng)
		t := gX509
		switch k := rng.Intn(20); {
		case k < 9:
		case k < 17:
			t = gSHA256
		default:
			t = u.unknownType()
		}
		sl := signature.NewSignatureList(t)
		class := "list/from-new"
		if rng.Intn(3) == 0 {
			// start from a decoded list
			switch t {
			case gX509:
				sl.AppendBytes(u.owners[0], u.ders[0])
				if rng.Intn(2) == 0 {
					sl.AppendBytes(u.owners[1], u.ders[1])
				}
			default:
				for j := 0; j < 1+rng.Intn(3); j++ {
					sl.AppendBytes(pick(rng, u.owners), u.hashes[j])
				}
			}
			if t != u.unknownType() {
				if nl, err := signature.ReadSignatureList(bytes.NewReader(sl.Bytes())); err == nil {
					sl = nl
					class = "list/from-decoded"
				}
			}
		}
		init := listArg(sl)
		ops := u.genListOps(rng, t, 1+rng.Intn(maxOps))
		opsArg := strings.Join(ops, "&")
		o := c.Impl("list_history", init, opsArg)
		if o.Class != "ret" || len(o.Fields) == 0 {
			c.Rep.Record("list_history", class+"/worker-"+o.Class, true, "", []string{init, opsArg}, "violation", []string{o.Class}, map[string]string{"worker": o.Class})
			continue
		}
		args := []string{init, opsArg, o.Fields[0]}
		v, info := c.Drv.Eval("list_history", args...)
		okA, okR := false, false
		steps := strings.Split(o.Fields[0], "&")
		for j, op := range ops {
			if j < len(steps) && strings.HasPrefix(steps[j], "1~") {
				okA = okA || strings.HasPrefix(op, "a~")
				okR = okR || strings.HasPrefix(op, "r~")
			}
		}
		match := map[string]string{}
		if v != "ok" && len(info) > 0 {
			var idx int
			fmt.Sscan(info[0], &idx)
			if idx < len(ops) {
				match["op"] = ops[idx][:1]
				info = append(info, "failing step: "+ops[idx])
			}
			if idx+1 < len(ops) {
				args = []string{init, strings.Join(ops[:idx+1], "&"), strings.Join(steps[:idx+1], "&")}
			}
		}
		c.Rep.Record("list_history", class, okA && okR, fmt.Sprintf("%d ops", len(ops)), args, v, info, match)
		for _, op := range ops {
			c.Rep.Histogram["listop/"+op[:1]]++
		}
		// a non-empty list of a decodable type, placed in a database, encodes to a well-formed stream
		if v == "ok" && len(o.Fields) > 1 && t != u.unknownType() {
			fl := parseListArg(o.Fields[1])
			if len(fl.Signatures) > 0 {
				db := signature.SignatureDatabase{}
				db.AppendList(fl)
				enc := db.Bytes()
				od := c.Impl("db_decode", hx(enc), "read")
				fields := od.Fields
				if od.Class != "ret" || len(fields) == 0 {
					fields = []string{od.Class}
				}
				bargs := append([]string{dbArg(db), hx(enc)}, fields...)
				bv, binfo := c.Drv.Eval("c07_built", bargs...)
				c.Rep.Record("list-built-roundtrip", class, true, fmt.Sprintf("%d entries", len(fl.Signatures)), bargs, bv, binfo, nil)
			}
		}
	}
}

func runC09(c *Ctx) {
	rng := c.Rng
	runC09Lists(c)
	n := c.N(300, 15000)
	maxOps := c.Bound(60, 400)
	for i := 0; i < n; i++ {
		u := newSigUniverse(rng)
		init := ""
		class := "from-empty"
		if rng.Intn(3) == 0 {
			// start from a decoded stream: two X.509 lists of the same size, then hashes
			db := signature.SignatureDatabase{}
			l1 := signature.NewSignatureList(gX509)
			l1.AppendBytes(u.owners[0], u.ders[0])
			l2 := signature.NewSignatureList(gX509)
			l2.AppendBytes(u.owners[0], u.ders[1])
			db.AppendList(l1)
			db.AppendList(l2)
			db.Append(gSHA256, u.owners[1], u.hashes[0])
			nd, err := signature.ReadSignatureDatabase(strings.NewReader(string(db.Bytes())))
			if err == nil {
				init = dbArg(nd)
				class = "from-decoded"
			}
		}
		if init == "" && rng.Intn(8) == 0 {
			// a decoded stream may hold the same entry more than once (nothing in the format forbids it):
			// the operations still edit one entry at a time and keep the size equations
			e := func(o util.EFIGUID, d []byte) []byte {
				var b bytes.Buffer
				binary.Write(&b, binary.LittleEndian, o)
				b.Write(d)
				return b.Bytes()
			}
			s := encList(gX509, uint32(28+len(u.ders[3])+16), 0, uint32(len(u.ders[3])+16), nil, [][]byte{e(u.owners[2], u.ders[3])})
			hs := [][]byte{e(u.owners[0], u.hashes[0]), e(u.owners[0], u.hashes[1]), e(u.owners[0], u.hashes[0])}
			if rng.Intn(2) == 0 {
				hs = append(hs, e(u.owners[1], u.hashes[1]), e(u.owners[0], u.hashes[0]))
			}
			s = append(s, encList(gSHA256, uint32(28+48*len(hs)), 0, 48, nil, hs)...)
			s = append(s, encList(gSHA256, 28+48, 0, 48, nil, [][]byte{e(u.owners[0], u.hashes[2])})...)
			if nd, err := signature.ReadSignatureDatabase(bytes.NewReader(s)); err == nil {
				init = dbArg(nd)
				class = "from-decoded-with-repeats"
			}
		}
		var pre []string
		if init == "" && rng.Intn(10) == 0 {
			// a decoded stream may hold a list without entries (a header alone, SignatureSize 48) in front of
			// a list of the same type that is about to lose its only entry: the untouched list stays as it is
			e := func(o util.EFIGUID, d []byte) []byte {
				var b bytes.Buffer
				binary.Write(&b, binary.LittleEndian, o)
				b.Write(d)
				return b.Bytes()
			}
			s := encList(gSHA256, 28, 0, 48, nil, nil)
			s = append(s, encList(gSHA256, 28+48, 0, 48, nil, [][]byte{e(u.owners[0], u.hashes[0])})...)
			if rng.Intn(2) == 0 {
				s = append(s, encList(gX509, uint32(28+len(u.ders[3])+16), 0, uint32(len(u.ders[3])+16), nil, [][]byte{e(u.owners[2], u.ders[3])})...)
			}
			if nd, err := signature.ReadSignatureDatabase(bytes.NewReader(s)); err == nil {
				init = dbArg(nd)
				class = "from-decoded-with-empty-list"
				pre = []string{fmt.Sprintf("R~%s~%s~%s", guidArg(gSHA256), guidArg(u.owners[0]), hx(u.hashes[0])), "E"}
			}
		}
		nops := 1 + rng.Intn(maxOps)
		ops := append(pre, u.genOps(rng, nops, false)...)
		opsArg := strings.Join(ops, "&")
		o := c.Impl("db_history", init, opsArg)
		if o.Class != "ret" || len(o.Fields) == 0 {
			c.Rep.Record("db_history", class+"/worker-"+o.Class, true, "", []string{init, opsArg}, "violation", []string{o.Class}, map[string]string{"worker": o.Class})
			continue
		}
		args := []string{init, opsArg, o.Fields[0]}
		v, info := c.Drv.Eval("db_history", args...)
		// non-trivial: at least one successful append and one successful remove
		okA, okR := false, false
		steps := strings.Split(o.Fields[0], "&")
		for j, op := range ops {
			if j < len(steps) && strings.HasPrefix(steps[j], "1~") {
				if strings.HasPrefix(op, "A~") {
					okA = true
				}
				if strings.HasPrefix(op, "R~") {
					okR = true
				}
			}
		}
		match := map[string]string{}
		if v != "ok" && len(info) > 0 {
			var idx int
			fmt.Sscan(info[0], &idx)
			if idx < len(ops) {
				match["op"] = ops[idx][:1]
				info = append(info, "failing step: "+ops[idx])
			}
			// shrink: the prefix up to the failing step is the replay
			if idx+1 < len(ops) {
				args = []string{init, strings.Join(ops[:idx+1], "&"), strings.Join(steps[:idx+1], "&")}
			}
		}
		c.Rep.Record("db_history", class, okA && okR, fmt.Sprintf("%d ops", len(ops)), args, v, info, match)
		for _, op := range ops {
			c.Rep.Histogram["op/"+op[:1]]++
		}
	}
}
