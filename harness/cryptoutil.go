package main

import (
	"crypto/rand"
	"crypto/rsa"
	"crypto/x509"
	"crypto/x509/pkix"
	"math/big"
	"sync"
	"time"
)

// Keys are expensive; cache them per size for the life of the process.
var (
	keyMu    sync.Mutex
	keyCache = map[int][]*rsa.PrivateKey{}
)

func rsaKey(bits, idx int) *rsa.PrivateKey {
	keyMu.Lock()
	defer keyMu.Unlock()
	for len(keyCache[bits]) <= idx {
		k, err := rsa.GenerateKey(rand.Reader, bits)
		if err != nil {
			panic(err)
		}
		keyCache[bits] = append(keyCache[bits], k)
	}
	return keyCache[bits][idx]
}

// mintCert makes a self-signed certificate for key with the given subject
// (= issuer) and serial number.
func mintCert(key *rsa.PrivateKey, subject pkix.Name, serial *big.Int) *x509.Certificate {
	tmpl := x509.Certificate{
		SerialNumber: serial,
		Subject:      subject,
		NotBefore:    time.Now().Add(-time.Hour),
		NotAfter:     time.Now().Add(24 * time.Hour),
		KeyUsage:     x509.KeyUsageDigitalSignature,
		ExtKeyUsage:  []x509.ExtKeyUsage{x509.ExtKeyUsageCodeSigning},
	}
	der, err := x509.CreateCertificate(rand.Reader, &tmpl, &tmpl, &key.PublicKey, key)
	if err != nil {
		panic(err)
	}
	c, err := x509.ParseCertificate(der)
	if err != nil {
		panic(err)
	}
	return c
}

func simpleCert(key *rsa.PrivateKey, cn string, serial int64) *x509.Certificate {
	return mintCert(key, pkix.Name{CommonName: cn, Organization: []string{"verif"}}, big.NewInt(serial))
}
