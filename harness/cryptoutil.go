package main

import (
	"encoding/asn1"
	"crypto/rand"
	"crypto/rsa"
	"crypto/x509"
	"crypto/x509/pkix"
	"fmt"
	"math/big"
	"os"
	"path/filepath"
	"sync"
	"time"
)

// Keys are expensive; cache them per size for the life of the process.
var (
	keyMu    sync.Mutex
	keyCache = map[int][]*rsa.PrivateKey{}
)

// rsaKey returns the idx-th key of the given size. Keys are shared between the
// harness and its sandboxed workers through files in $VERIF_KEYDIR, so that a
// certificate minted in one process names the key used in another.
func rsaKey(bits, idx int) *rsa.PrivateKey {
	keyMu.Lock()
	defer keyMu.Unlock()
	for len(keyCache[bits]) <= idx {
		keyCache[bits] = append(keyCache[bits], loadOrMakeKey(bits, len(keyCache[bits])))
	}
	return keyCache[bits][idx]
}

func loadOrMakeKey(bits, idx int) *rsa.PrivateKey {
	dir := os.Getenv("VERIF_KEYDIR")
	if dir == "" {
		k, err := rsa.GenerateKey(rand.Reader, bits)
		if err != nil {
			panic(err)
		}
		return k
	}
	os.MkdirAll(dir, 0700)
	path := filepath.Join(dir, fmt.Sprintf("rsa-%d-%d.der", bits, idx))
	for attempt := 0; attempt < 600; attempt++ {
		if b, err := os.ReadFile(path); err == nil {
			if k, err := x509.ParsePKCS1PrivateKey(b); err == nil {
				return k
			}
		}
		// become the generator by creating the lock file exclusively
		lock, err := os.OpenFile(path+".lock", os.O_CREATE|os.O_EXCL|os.O_WRONLY, 0600)
		if err != nil {
			time.Sleep(50 * time.Millisecond)
			continue
		}
		k, gerr := rsa.GenerateKey(rand.Reader, bits)
		if gerr != nil {
			panic(gerr)
		}
		tmp := path + ".tmp"
		os.WriteFile(tmp, x509.MarshalPKCS1PrivateKey(k), 0600)
		os.Rename(tmp, path)
		lock.Close()
		return k
	}
	panic("could not obtain key " + path)
}

// mintCert makes a self-signed certificate for key with the given subject
// (= issuer) and serial number.
func mintCert(key *rsa.PrivateKey, subject pkix.Name, serial *big.Int) *x509.Certificate {
	tmpl := x509.Certificate{
		SerialNumber: serial,
		Subject:      subject,
		NotBefore:    time.Now().Add(-time.Hour),
		NotAfter:     time.Now().Add(24 * time.Hour),
		KeyUsage:     x509.KeyUsageDigitalSignature,
		ExtKeyUsage:  []x509.ExtKeyUsage{x509.ExtKeyUsageCodeSigning},
	}
	der, err := x509.CreateCertificate(rand.Reader, &tmpl, &tmpl, &key.PublicKey, key)
	if err != nil {
		panic(err)
	}
	c, err := x509.ParseCertificate(der)
	if err != nil {
		panic(err)
	}
	return c
}

// mintCertRawName makes a self-signed certificate whose subject and issuer are the
// given DER Name, byte for byte (e.g. UTF8String values as OpenSSL writes them,
// which a re-marshalling of the parsed name would turn into PrintableString).
func mintCertRawName(key *rsa.PrivateKey, rawName []byte, serial *big.Int) *x509.Certificate {
	tmpl := x509.Certificate{
		SerialNumber: serial,
		RawSubject:   rawName,
		NotBefore:    time.Now().Add(-time.Hour),
		NotAfter:     time.Now().Add(24 * time.Hour),
		KeyUsage:     x509.KeyUsageDigitalSignature,
		ExtKeyUsage:  []x509.ExtKeyUsage{x509.ExtKeyUsageCodeSigning},
	}
	der, err := x509.CreateCertificate(rand.Reader, &tmpl, &tmpl, &key.PublicKey, key)
	if err != nil {
		panic(err)
	}
	c, err := x509.ParseCertificate(der)
	if err != nil {
		panic(err)
	}
	return c
}

// utf8Name is the DER of a Name whose attribute values are UTF8Strings.
func utf8Name(cn, org string) []byte {
	type atv struct {
		Type  asn1.ObjectIdentifier
		Value string `asn1:"utf8"`
	}
	type rdn []atv
	name := []rdn{{{asn1.ObjectIdentifier{2, 5, 4, 10}, org}}, {{asn1.ObjectIdentifier{2, 5, 4, 3}, cn}}}
	var seq []asn1.RawValue
	for _, r := range name {
		b, err := asn1.MarshalWithParams(r, "set")
		if err != nil {
			panic(err)
		}
		seq = append(seq, asn1.RawValue{FullBytes: b})
	}
	out, err := asn1.Marshal(seq)
	if err != nil {
		panic(err)
	}
	return out
}

// mintLeaf makes a certificate for leafKey issued by a separate CA (issuer name
// and subject name differ, as for every real-world signing certificate).
func mintLeaf(leafKey *rsa.PrivateKey, caName, leafName pkix.Name, serial *big.Int) *x509.Certificate {
	caKey := rsaKey(2048, 4)
	ca := x509.Certificate{
		SerialNumber: big.NewInt(1), Subject: caName,
		NotBefore: time.Now().Add(-time.Hour), NotAfter: time.Now().Add(48 * time.Hour),
		IsCA: true, BasicConstraintsValid: true, KeyUsage: x509.KeyUsageCertSign,
	}
	caDer, err := x509.CreateCertificate(rand.Reader, &ca, &ca, &caKey.PublicKey, caKey)
	if err != nil {
		panic(err)
	}
	caCert, err := x509.ParseCertificate(caDer)
	if err != nil {
		panic(err)
	}
	tmpl := x509.Certificate{
		SerialNumber: serial, Subject: leafName,
		NotBefore: time.Now().Add(-time.Hour), NotAfter: time.Now().Add(24 * time.Hour),
		KeyUsage: x509.KeyUsageDigitalSignature, ExtKeyUsage: []x509.ExtKeyUsage{x509.ExtKeyUsageCodeSigning},
	}
	der, err := x509.CreateCertificate(rand.Reader, &tmpl, caCert, &leafKey.PublicKey, caKey)
	if err != nil {
		panic(err)
	}
	c, err := x509.ParseCertificate(der)
	if err != nil {
		panic(err)
	}
	return c
}

// leafCert: a CA-issued certificate with the usual names.
func leafCert(key *rsa.PrivateKey, cn string, serial int64) *x509.Certificate {
	return mintLeaf(key, pkix.Name{CommonName: "verif issuing CA", Organization: []string{"verif"}},
		pkix.Name{CommonName: cn, Organization: []string{"verif"}}, big.NewInt(serial))
}

// mintCertAlg: self-signed, the certificate's own signature made with the given algorithm.
func mintCertAlg(key *rsa.PrivateKey, subject pkix.Name, serial *big.Int, alg x509.SignatureAlgorithm) *x509.Certificate {
	tmpl := x509.Certificate{SerialNumber: serial, Subject: subject, SignatureAlgorithm: alg,
		NotBefore: time.Now().Add(-time.Hour), NotAfter: time.Now().Add(24 * time.Hour),
		KeyUsage: x509.KeyUsageDigitalSignature, ExtKeyUsage: []x509.ExtKeyUsage{x509.ExtKeyUsageCodeSigning}}
	der, err := x509.CreateCertificate(rand.Reader, &tmpl, &tmpl, &key.PublicKey, key)
	if err != nil {
		panic(err)
	}
	c, err := x509.ParseCertificate(der)
	if err != nil {
		panic(err)
	}
	return c
}

func simpleCert(key *rsa.PrivateKey, cn string, serial int64) *x509.Certificate {
	return mintCert(key, pkix.Name{CommonName: cn, Organization: []string{"verif"}}, big.NewInt(serial))
}
