package main

import (
	"github.com/foxboron/go-uefi/pkcs7"
	encasn1 "encoding/asn1"
	"crypto/x509"
	"crypto/x509/pkix"
	"fmt"
	"strings"
)

func init() {
	checkers["C16"] = checker{
		rule: "at check time the OpenSSL CLI signs random contents with fresh RSA keys/certificates under every combination of {smime, cms} x {detached, -nodetach} x {S/MIME capabilities, -nosmimecap} x {certificates, -nocerts} plus cms -cades (additional signed attribute, also with a one-letter issuer) cms -receipt_request_to (several signed attributes the library does not know) and cms -econtent_type (content types other than data, SignedData version 3), with self-signed and CA-issued signing certificates; together with the sbsign / sbvarsign artefacts of the repository and SignedData carrying two signers (each must verify); each blob is parsed and verified by the library in the sandboxed worker against the signer's certificate (must succeed: completeness on the supported subset, extracted check_accepts) and against four other certificates (must not), the parsed values are compared with the model's parse, and Attributes.Marshal() of the parsed values is compared with SET||attributes-as-in-blob (extracted check_reencode); non-trivial = the model parses the blob; distinct by (blob, certificate) hash",
		run:  runC16,
	}
}

func runC16(c *Ctx) {
	rng := c.Rng
	type conf struct {
		tool  string
		extra []string
	}
	var confs []conf
	for _, tool := range []string{"smime", "cms"} {
		for _, det := range []string{"", "-nodetach"} {
			for _, cap := range []string{"", "-nosmimecap"} {
				for _, certs := range []string{"", "-nocerts"} {
					var e []string
					for _, x := range []string{det, cap, certs} {
						if x != "" {
							e = append(e, x)
						}
					}
					confs = append(confs, conf{tool, e})
				}
			}
		}
	}
	confs = append(confs, conf{"cms", []string{"-cades"}}, conf{"cms", []string{"-cades", "-nodetach"}},
		// several signed attributes the library does not know, in the order their DER encodings sort
		conf{"cms", []string{"-receipt_request_to", "a@b.c"}}, conf{"cms", []string{"-receipt_request_to", "a@b.c", "-nodetach"}},
		conf{"cms", []string{"-cades", "-receipt_request_to", "someone@example.org", "-nosmimecap"}},
		// an encapsulated content type other than data: CMS SignedData version 3
		conf{"cms", []string{"-nodetach", "-econtent_type", "1.2.840.113549.1.9.16.1.4"}},
		conf{"cms", []string{"-nodetach", "-econtent_type", "1.3.6.1.4.1.311.2.1.4", "-nosmimecap"}})
	var seeds []p7Seed
	if opensslPath() == "" {
		c.Rep.Extra["openssl_note"] = "openssl CLI not found: only the repository fixtures are checked"
	} else {
		reps := c.N(2, 60)
		for i, cf := range confs {
			for r := 0; r < reps; r++ {
				bits := 2048
				if !c.Quick() && r%7 == 3 {
					bits = 3072
				}
				if (i+r)%5 == 2 {
					// a modulus whose bit length is not a multiple of 8 (`openssl genrsa 2047`)
					bits = 2047
				}
				key := rsaKey(bits, (i+r)%2)
				cert := mintCert(key, genIssuer(rng), genSerial(rng))
				if rng.Intn(2) == 0 {
					// a CA-issued signing certificate, as every real producer uses
					cert = mintLeaf(key, genIssuer(rng), pkix.Name{CommonName: fmt.Sprintf("producer leaf %d", rng.Intn(1000))}, genSerial(rng))
				}
				if len(cf.extra) > 0 && cf.extra[0] == "-cades" && r%2 == 1 {
					// the signing-certificate attribute holds the issuer: its size decides how the attributes sort
					cert = mintCert(key, pkix.Name{CommonName: "A"}, genSerial(rng))
				}
				if (i+r)%4 == 3 {
					// a signing certificate that was itself signed with SHA-512
					cert = mintCertAlg(key, genIssuer(rng), genSerial(rng), x509.SHA512WithRSA)
				}
				content := randBytes(rng, 1+rng.Intn(400))
				b, err := opensslSign(c.Work, cf.tool, key, cert, content, cf.extra...)
				if err != nil {
					c.Rep.Extra["openssl_note"] = "openssl failed for " + cf.tool + " " + strings.Join(cf.extra, " ") + ": " + err.Error()
					continue
				}
				seeds = append(seeds, p7Seed{"openssl/" + cf.tool + strings.Join(cf.extra, ""), b, cert, key, content})
			}
		}
	}
	seeds = append(seeds, fixtureSeeds()...)
	// SignedData with two signers (as `openssl cms -signer a -signer b` writes): each of them verifies
	for i := 0; i < c.N(4, 40); i++ {
		ka, kb := rsaKey(2048, 0), rsaKey(2048, 1)
		ca := mintCert(ka, genIssuer(rng), genSerial(rng))
		cb := mintLeaf(kb, genIssuer(rng), pkix.Name{CommonName: fmt.Sprintf("second signer %d", i)}, genSerial(rng))
		content := randBytes(rng, 1+rng.Intn(100))
		oid := encasn1.ObjectIdentifier{1, 3, 6, 1, 4, 1, 311, 2, 1, 4}
		ba, err1 := pkcs7.SignPKCS7(ka, ca, oid, content)
		bb, err2 := pkcs7.SignPKCS7(kb, cb, oid, content)
		if err1 != nil || err2 != nil {
			continue
		}
		if g := graftSigner(ba, bb); g != nil {
			seeds = append(seeds, p7Seed{"two-signers/first", g, ca, ka, nil}, p7Seed{"two-signers/second", g, cb, kb, nil})
		}
	}
	c.Rep.Extra["seeds"] = len(seeds)
	for _, s := range seeds {
		impl := evalVerify(c, "C16", "both", s.name, s.blob, s.cert, "signer")
		_ = impl
		others := otherCerts(s, rng)
		for k, oc := range others {
			evalVerify(c, "C16", "both", s.name, s.blob, oc, k)
		}
		// the same verdicts when the parsed object has verified other certificates before
		if twin := others["same-issuer-serial-other-key"]; twin != nil {
			evalVerify(c, "C16", "both", s.name+"/after-signer", s.blob, twin, "same-issuer-serial-other-key", s.cert)
			evalVerify(c, "C16", "both", s.name+"/after-twin", s.blob, s.cert, "signer", twin)
		}
		o := c.Impl("p7_parse", hx(s.blob))
		f := o.Fields
		if o.Class != "ret" || len(f) == 0 {
			f = []string{o.Class}
		}
		args := append([]string{hx(s.blob)}, f...)
		v, info := c.Drv.Eval("p7_parse", args...)
		nt := len(info) > 0 && info[0] == "1"
		class := "parse+reencode"
		if v != "ok" && len(info) > 1 && info[1] == "0" {
			class = "reencode"
		}
		c.Rep.Record("C16/"+s.name, class, nt, fmt.Sprintf("%d-byte blob", len(s.blob)), args, v, info, map[string]string{"class": class, "producer": s.name})
	}
}
