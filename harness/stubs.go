package main

func answerOracle(c *Ctx, kind string, args []string) string { return "0" }
func workerMain(args []string)                                {}
func sitesMain(args []string)                                 {}
