package main

func answerCryptoOracle(c *Ctx, kind string, args []string) string { return "0" }
