package main

import (
	"testing/iotest"
	"io"
	"bytes"
	"crypto"
	"crypto/rsa"
	"crypto/x509"
	"crypto/x509/pkix"
	encasn1 "encoding/asn1"
	"fmt"
	"math/big"
	"math/rand"
	"os"
	"os/exec"
	"path/filepath"
	"strings"
	"time"

	"github.com/foxboron/go-uefi/authenticode"
	"github.com/foxboron/go-uefi/pkcs7"
	mozpkcs7 "go.mozilla.org/pkcs7"
)

func init() {
	checkers["C05"] = checker{
		rule: "contents (empty, 1 byte .. tier bound, and contents that are themselves DER elements: one SEQUENCE, two, an OCTET STRING), content types (data, SpcIndirectDataContent, arbitrary OIDs incl. large arcs), RSA 2048/3072/4096 keys, certificates with short / long / multi-RDN issuers and issuers with UTF8String values (as OpenSSL writes them), self-signed and CA-issued (issuer differs from subject) and serials of 1..20 bytes incl. high-bit and leading-zero patterns; a recording crypto.Signer captures the digest the library asks to sign; the output is compared byte for byte with the Coq model sign_pkcs7 (R_C05 extracted, signing time read back and bracketed), re-parsed and verified by the library itself, and verified -- with the right content accepted and another content rejected -- by an RFC 2315 verifier on encoding/asn1+crypto/rsa, by go.mozilla.org/pkcs7 and, for data content, by `openssl smime -verify`; every case is non-trivial, distinct by hash of (certificate, OID, content)",
		run:  runC05,
	}
}

func genIssuer(rng *rand.Rand) pkix.Name {
	switch rng.Intn(4) {
	case 0:
		return pkix.Name{CommonName: "a"}
	case 1:
		return pkix.Name{CommonName: strings.Repeat("long common name ", 3+rng.Intn(6)), Organization: []string{strings.Repeat("org", 20)}}
	case 2:
		return pkix.Name{Country: []string{"NO", "SE"}, Organization: []string{"verif", "second"}, OrganizationalUnit: []string{"u1", "u2", "u3"}, Locality: []string{"Oslo"}, CommonName: "multi rdn", SerialNumber: "42"}
	}
	return pkix.Name{CommonName: fmt.Sprintf("signer %d", rng.Intn(1000)), Organization: []string{"verif"}}
}

func genSerial(rng *rand.Rand) *big.Int {
	n := 1 + rng.Intn(20)
	if rng.Intn(6) == 0 {
		n = 20 // 160 random bits, as CAs emit
	}
	b := randBytes(rng, n)
	switch rng.Intn(5) {
	case 0:
		b[0] |= 0x80 // high bit: needs a leading zero octet (21 content octets for a 20-byte serial)
	case 1:
		b[0] = 0x00 // leading zero byte in the magnitude: must not appear in the encoding
		if n > 1 {
			b[1] |= 0x80
		}
	case 2:
		b = []byte{byte(1 + rng.Intn(127))}
	case 3:
		b[0] = 0x7f
	}
	s := new(big.Int).SetBytes(b)
	if s.Sign() == 0 {
		s = big.NewInt(1)
	}
	return s
}

func genOID(rng *rand.Rand) (encasn1.ObjectIdentifier, string) {
	switch rng.Intn(4) {
	case 0:
		return pkcs7.OIDData, "data"
	case 1:
		return authenticode.OIDSpcIndirectDataContent, "spc"
	case 2:
		o := encasn1.ObjectIdentifier{1 + rng.Intn(2), rng.Intn(40)}
		for k := rng.Intn(6); k > 0; k-- {
			o = append(o, pick(rng, []int{0, 1, 127, 128, 16383, 16384, 2097151, 2097152, 268435455, 1<<31 - 1, rng.Intn(100000)}))
		}
		return o, "arbitrary"
	}
	if rng.Intn(3) == 0 {
		// long object identifiers (a 16-arc Microsoft-template style OID: more than 32 encoded octets)
		o := encasn1.ObjectIdentifier{1, 3, 6, 1, 4, 1, 311, 21, 8}
		for k := 6 + rng.Intn(8); k > 0; k-- {
			o = append(o, 1000000+rng.Intn(15000000))
		}
		return o, "long"
	}
	return encasn1.ObjectIdentifier{2, 999, 3}, "joint-iso"
}

func opensslVerifyData(dir string, blob, content []byte) (bool, string) {
	bin := opensslPath()
	if bin == "" {
		return false, "skip"
	}
	sp, cp := filepath.Join(dir, "v.der"), filepath.Join(dir, "v.bin")
	os.WriteFile(sp, blob, 0644)
	os.WriteFile(cp, content, 0644)
	cmd := exec.Command(bin, "smime", "-verify", "-inform", "DER", "-in", sp, "-content", cp, "-noverify", "-binary", "-out", os.DevNull)
	out, err := cmd.CombinedOutput()
	return err == nil, string(out)
}

func runC05(c *Ctx) {
	rng := c.Rng
	// the process runs in a zone that is not UTC (the signing time must be UTC whatever the zone)
	time.Local = time.FixedZone("verif+0230", 2*3600+1800)
	n := c.N(120, 6000)
	maxContent := c.Bound(1500, 6000)
	for i := 0; i < n; i++ {
		bits := 2048
		if i%40 == 7 {
			bits = 3072
		}
		if i%40 == 23 {
			bits = 4096
		}
		key := rsaKey(bits, i%2)
		cert := mintCert(key, genIssuer(rng), genSerial(rng))
		if rng.Intn(4) == 0 {
			// an issuer as OpenSSL encodes it: UTF8String values
			cert = mintCertRawName(key, utf8Name(fmt.Sprintf("utf8 signer %d", rng.Intn(1000)), "Verif Org"), genSerial(rng))
		}
		if rng.Intn(5) == 0 {
			// a certificate issued by a CA: issuer and subject differ
			cert = mintLeaf(key, genIssuer(rng), pkix.Name{CommonName: fmt.Sprintf("leaf %d", rng.Intn(1000))}, genSerial(rng))
		}
		oid, oidClass := genOID(rng)
		var content []byte
		switch rng.Intn(7) {
		case 0:
			content = []byte{}
		case 1:
			content = []byte{byte(rng.Intn(256))}
		case 3:
			// content that is itself DER: one complete SEQUENCE, or two, or an OCTET STRING
			inner := randBytes(rng, rng.Intn(60))
			one := append([]byte{0x30, byte(len(inner))}, inner...)
			switch rng.Intn(3) {
			case 0:
				content = one
			case 1:
				content = append(append([]byte{}, one...), 0x30, 0x00)
			default:
				content = append([]byte{0x04, byte(len(inner))}, inner...)
			}
		case 2:
			content = randBytes(rng, rng.Intn(maxContent))
		default:
			content = randBytes(rng, rng.Intn(200))
		}
		if i == 5 {
			// at and just above 64 KiB: the DER lengths around the content need three octets
			content = randBytes(rng, 65536+rng.Intn(3)*rng.Intn(300))
		}
		if i%6 == 2 {
			// an earlier signing in this process failed in the signer (and the caller tries again):
			// nothing of it may show in the next result
			bad := &recSigner{key: key, fail: true}
			catch(func() { pkcs7.SignPKCS7(bad, cert, oid, randBytes(rng, 1+rng.Intn(100))) })
		}
		class := fmt.Sprintf("%s/rsa%d/serial%dB", oidClass, bits, len(cert.SerialNumber.Bytes()))
		rec := &recSigner{key: key}
		t0 := time.Now().UTC().Truncate(time.Second)
		var out []byte
		var err error
		cls, msg := catch(func() { out, err = pkcs7.SignPKCS7(rec, cert, oid, content) })
		t1 := time.Now().UTC()
		fail := func(what string) {
			c.Rep.Record("sign", class, true, what, []string{hx(cert.Raw), oidArg(oid), hx(content)}, "violation", []string{what}, map[string]string{"what": strings.SplitN(what, ":", 2)[0]})
		}
		if cls == "panic" || err != nil {
			fail(fmt.Sprintf("SignPKCS7 failed: %s %v", msg, err))
			continue
		}
		// read the signing time back from the output
		p, perr := pkcs7.ParsePKCS7(out)
		if perr != nil || len(p.SignerInfo) != 1 || p.SignerInfo[0].AuthenticatedAttributes == nil {
			fail(fmt.Sprintf("own parser rejects the output: %v", perr))
			continue
		}
		st := p.SignerInfo[0].AuthenticatedAttributes.SigningTime
		if st.Before(t0) || st.After(t1.Add(time.Second)) {
			fail(fmt.Sprintf("signing time %s outside [%s, %s]", st, t0, t1))
			continue
		}
		ts := st.UTC().Format("060102150405Z")
		args := []string{hx(cert.Raw), hx(cert.RawIssuer), cert.SerialNumber.String(), oidArg(oid), hx(content), hx([]byte(ts)), hx(rec.sig), hx(rec.digest), hx(out)}
		v, info := c.Drv.Eval("p7_sign", args...)
		if rec.calls != 1 && v == "ok" {
			v, info = "violation", []string{fmt.Sprintf("signer called %d times", rec.calls)}
		}
		c.Rep.Record("sign-bytes", class, true, fmt.Sprintf("%d-byte content", len(content)), args, v, info, nil)
		// the library's own parser and verifier
		embedded := len(content) > 0 && !oid.Equal(pkcs7.OIDData)
		own := "ok"
		if !p.OID.Equal(oid) || (embedded && !bytes.Equal(p.ContentInfo, append(derTLV(0x30, content)[:0:0], derTLV(0x30, content)...))) || (!embedded && len(p.ContentInfo) != 0) ||
			len(p.Certs) != 1 || !bytes.Equal(p.Certs[0].Raw, cert.Raw) {
			own = "own parser recovers different oid/content/certificate"
		}
		a := p.SignerInfo[0].AuthenticatedAttributes
		h := crypto.SHA256.New()
		h.Write(content)
		if !a.ContentType.Equal(oid) || !bytes.Equal(a.MessageDigest, h.Sum(nil)) {
			own = "own parser recovers different attributes"
		}
		if ok, verr := p.Verify(cert); !ok || verr != nil {
			own = fmt.Sprintf("own verification rejects: %v", verr)
		}
		if own != "ok" {
			fail(own)
		} else {
			c.Rep.Record("own-parse-verify", class, true, "", []string{hx(out)}, "ok", nil, nil)
		}
		// independent verifiers: accept with the content, reject with another
		other := append(append([]byte{}, content...), 0x55)
		var det, detOther []byte
		if !embedded {
			det, detOther = content, other
		}
		if ok, why := refVerify(out, det, cert); !ok {
			fail("rfc2315 reference rejects: " + why)
		} else if !embedded {
			if ok2, _ := refVerify(out, detOther, cert); ok2 {
				fail("rfc2315 reference accepts other content")
			}
		}
		c.Rep.Histogram["verifier/rfc2315-reference"]++
		if oid.Equal(pkcs7.OIDData) {
			if mp, err := mozpkcs7.Parse(out); err != nil {
				fail("go.mozilla.org/pkcs7 cannot parse: " + err.Error())
			} else {
				mp.Content = content
				if err := mp.Verify(); err != nil {
					fail("go.mozilla.org/pkcs7 rejects: " + err.Error())
				}
				mp.Content = other
				if err := mp.Verify(); err == nil {
					fail("go.mozilla.org/pkcs7 accepts other content")
				}
				c.Rep.Histogram["verifier/mozilla-pkcs7"]++
			}
			if i%4 == 0 || !c.Quick() {
				if ok, why := opensslVerifyData(c.Work, out, content); !ok && why != "skip" {
					fail("openssl smime -verify rejects: " + why)
				} else if why != "skip" {
					if ok2, _ := opensslVerifyData(c.Work, out, other); ok2 {
						fail("openssl smime -verify accepts other content")
					}
					c.Rep.Histogram["verifier/openssl-smime"]++
				}
			}
		}
		// a different certificate must not verify
		if ok, _ := p.Verify(simpleCert(rsaKey(2048, 2), "other", 31337)); ok {
			fail("own verification accepts an unrelated certificate")
		}
	}
	// SignAuthenticode: the same through the Authenticode wrapper
	for i := 0; i < c.N(15, 800); i++ {
		key := rsaKey(2048, i%2)
		cert := mintCert(key, genIssuer(rng), genSerial(rng))
		img := randBytes(rng, rng.Intn(500))
		rec := &recSigner{key: key}
		// the image comes through readers with every legal behaviour
		var ir io.Reader = bytes.NewReader(img)
		switch i % 4 {
		case 1:
			ir = iotest.DataErrReader(bytes.NewReader(img))
		case 2:
			ir = iotest.HalfReader(bytes.NewReader(img))
		case 3:
			ir = iotest.OneByteReader(bytes.NewReader(img))
		}
		out, err := authenticode.SignAuthenticode(rec, cert, ir, crypto.SHA256)
		if err != nil {
			c.Rep.Record("sign-authenticode", "error", true, "", []string{hx(img)}, "violation", []string{err.Error()}, nil)
			continue
		}
		ac, err := authenticode.ParseAuthenticode(out)
		v := "ok"
		var info []string
		if err != nil {
			v, info = "violation", []string{"ParseAuthenticode: " + err.Error()}
		} else if ok, verr := ac.Verify(cert, bytes.NewReader(img)); !ok || verr != nil {
			v, info = "violation", []string{fmt.Sprintf("Authenticode.Verify: %v", verr)}
		} else if ok, _ := ac.Verify(cert, bytes.NewReader(append(img, 1))); ok {
			v, info = "violation", []string{"Authenticode.Verify accepts another image"}
		} else if ok, why := refVerify(out, nil, cert); !ok {
			v, info = "violation", []string{"rfc2315 reference rejects: " + why}
		}
		c.Rep.Record("sign-authenticode", "spc", true, "", []string{hx(out)}, v, info, nil)
	}
	_ = rsa.PublicKey{}
	_ = x509.Certificate{}
}
