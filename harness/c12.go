package main

import (
	"crypto/rsa"
	encasn1 "encoding/asn1"
	crand "crypto/rand"
	"time"
	"math/big"
	"crypto/x509/pkix"
	"crypto/x509"
	"errors"
	"fmt"
	"strings"
	"testing/fstest"

	"github.com/foxboron/go-uefi/efi/attributes"
	"github.com/foxboron/go-uefi/efi/signature"
	"github.com/foxboron/go-uefi/efi/util"
	"github.com/foxboron/go-uefi/efivar"
	"github.com/foxboron/go-uefi/efivarfs"
	"github.com/foxboron/go-uefi/efivarfs/testfs"
)

func varByName(name string, g util.EFIGUID, attrs uint32) efivar.Efivar {
	return efivar.Efivar{Name: name, GUID: &g, Attributes: attributes.Attributes(attrs)}
}

func init() {
	// a history on testfs.NewTestFS(): ops are
	//   W^name^guid^attrs^valuehex        WriteVar with a raw value
	//   D^name^guid^attrs^dbarg           WriteVar with a *SignatureDatabase
	//   S^name^guid^attrs^dbarg           WriteSignedUpdate with that database
	//   R^name^guid^required^how          read: how = getvar | typed
	// answers one observation per op ("-" for writes that succeeded, "!"+class for failed ones)
	implOps["store_history"] = func(a []string) []string {
		attributes.Efivars = string(unhx(a[0]))
		// the process runs in a zone west of UTC (timestamps are UTC whatever the zone)
		time.Local = time.FixedZone("verif-0800", -8*3600)
		tfs := testfs.NewTestFS()
		if a[1] != "" {
			m := fstest.MapFS{}
			for _, kv := range strings.Split(a[1], ",") {
				p := strings.Split(kv, "=")
				m[string(unhx(p[0]))] = &fstest.MapFile{Data: unhx(p[1])}
			}
			tfs.With(m)
		}
		e := tfs.Open()
		key := rsaKey(2048, 0)
		cert := simpleCert(key, "store signer", 7)
		var obs []string
		kept := map[string]efivar.Marshallable{}
		for _, op := range strings.Split(a[2], "&") {
			f := strings.Split(op, "^")
			g := parseGuidArg(f[2])
			var at uint32
			fmt.Sscan(f[3], &at)
			v := varByName(string(unhx(f[1])), g, at)
			switch f[0] {
			case "W":
				if err := e.WriteVar(v, rawValue(unhx(f[4]))); err != nil {
					obs = append(obs, "!write")
				} else {
					obs = append(obs, "-")
				}
			case "D":
				db := parseDbArg(f[4])
				if err := e.WriteVar(v, &db); err != nil {
					obs = append(obs, "!write")
				} else {
					obs = append(obs, "-")
				}
			case "S":
				db := parseDbArg(f[4])
				sc := cert
				if len(f) > 5 && f[5] == "fat" {
					sc = storeFatCert(key, cert)
				}
				if err := e.WriteSignedUpdate(v, &db, key, sc); err != nil {
					obs = append(obs, "!signed")
				} else {
					obs = append(obs, "-")
				}
			case "U": // a signed update made by the caller, written through WriteVar, and kept
				db := parseDbArg(f[4])
				_, m, err := signature.SignEFIVariable(v, &db, key, cert)
				if err != nil {
					obs = append(obs, "!sign")
					break
				}
				kept[v.Name] = m
				if err := e.WriteVar(v, m); err != nil {
					obs = append(obs, "!write")
				} else {
					obs = append(obs, "-")
				}
			case "T": // the update kept from an earlier U is written once more (re-applied after a roll-back)
				m := kept[v.Name]
				if m == nil {
					obs = append(obs, "!nothing-kept")
					break
				}
				if err := e.WriteVar(v, m); err != nil {
					obs = append(obs, "!write")
				} else {
					obs = append(obs, "-")
				}
			case "R":
				dec := &recDecoder{}
				stored, err := e.GetVarWithAttributes(v, dec)
				o := ""
				switch {
				case err == nil:
					o = fmt.Sprintf("D^%d^%s", uint32(stored), hx(dec.got))
				case errors.Is(err, efivarfs.ErrIncorrectAttributes):
					o = "A^" + b01(dec.called)
				default:
					o = "E^" + b01(dec.called)
				}
				if f[4] == "typed" && err == nil {
					// the typed accessor must hand back the same database
					var db *signature.SignatureDatabase
					var terr error
					switch v.Name {
					case "PK":
						db, terr = e.GetPK()
					case "KEK":
						db, terr = e.GetKEK()
					case "db":
						db, terr = e.Getdb()
					case "dbx":
						db, terr = e.Getdbx()
					}
					if db != nil || terr != nil {
						if terr != nil {
							o = "E^1"
						} else {
							o = fmt.Sprintf("D^%d^%s", uint32(stored), hx(db.Bytes()))
						}
					}
				}
				obs = append(obs, o)
			}
		}
		return []string{strings.Join(obs, "&")}
	}
	checkers["C12"] = checker{
		rule: "random histories on testfs.NewTestFS().Open(): WriteVar with raw values and databases, WriteSignedUpdate (RSA-2048), signed updates made by the caller and written through WriteVar, the same update object written again later, and reads (GetVarWithAttributes with a recording decoder; GetPK/GetKEK/Getdb/Getdbx) over PK, KEK, db, dbx and ordinary variables, values that grow, shrink (to empty) and repeat, interleaved across variables, from empty and pre-populated stores; run_store (extracted) replays the history on the model store and checks every read; non-trivial = some variable is written at least twice with a shorter value after a longer one and then read; distinct by history hash",
		run:  runC12,
	}
}

// storeFatCert: a signing certificate so large that the signed update's WIN_CERTIFICATE exceeds 64 KiB.
func storeFatCert(key *rsa.PrivateKey, fallback *x509.Certificate) *x509.Certificate {
	tmpl := x509.Certificate{SerialNumber: big.NewInt(77), Subject: pkix.Name{CommonName: "store signer (large certificate)"},
		NotBefore: time.Now().Add(-time.Hour), NotAfter: time.Now().Add(24 * time.Hour),
		ExtraExtensions: []pkix.Extension{{Id: encasn1.ObjectIdentifier{1, 3, 6, 1, 4, 1, 99999, 1}, Value: append([]byte{0x04, 0x83, 0x01, 0x11, 0x70}, make([]byte, 70000)...)}}}
	der, err := x509.CreateCertificate(crand.Reader, &tmpl, &tmpl, &key.PublicKey, key)
	if err != nil {
		return fallback
	}
	c, err := x509.ParseCertificate(der)
	if err != nil {
		return fallback
	}
	return c
}

func runC12(c *Ctx) {
	rng := c.Rng
	n := c.N(250, 15000)
	maxOps := c.Bound(40, 150)
	dir := "/sys/firmware/efi/efivars"
	dirs := []string{dir, dir, "/mnt/target/sys/firmware/efi/efivars"}
	type vdef struct {
		name   string
		g      util.EFIGUID
		attrs  uint32
		secure bool
	}
	global := attributes.EFI_GLOBAL_VARIABLE
	vars := []vdef{
		{"PK", *efivar.PK.GUID, uint32(efivar.PK.Attributes), true},
		{"KEK", *efivar.KEK.GUID, uint32(efivar.KEK.Attributes), true},
		{"db", *efivar.Db.GUID, uint32(efivar.Db.Attributes), true},
		{"dbx", *efivar.Dbx.GUID, uint32(efivar.Dbx.Attributes), true},
		{"SetupMode", global, 6, false},
		{"LoaderEntrySelected", *efivar.LoaderEntrySelected.GUID, 6, false},
		{"Custom", util.EFIGUID{Data1: 0xdeadbeef, Data2: 1, Data3: 2, Data4: [8]byte{1, 2, 3, 4, 5, 6, 7, 8}}, 7, false},
		{"NoAttrs", util.EFIGUID{Data1: 0xdeadbeef, Data2: 1, Data3: 2, Data4: [8]byte{1, 2, 3, 4, 5, 6, 7, 8}}, 0, false},
	}
	key := rsaKey(2048, 0)
	cert := simpleCert(key, "store signer", 7)
	fatCert := storeFatCert(key, cert)
	for i := 0; i < n; i++ {
		dir = dirs[i%len(dirs)] // the efivars directory is a variable: stores are also made after it was changed
		u := newSigUniverse(rng)
		genDb := func() signature.SignatureDatabase {
			db := signature.SignatureDatabase{}
			if rng.Intn(25) == 0 {
				// a long revocation list: more than 4 KiB of data
				for k := 0; k < 100+rng.Intn(120); k++ {
					db.Append(gSHA256, util.EFIGUID{Data1: uint32(k)}, randBytes(rng, 32))
				}
				return db
			}
			for k := rng.Intn(5); k > 0; k-- {
				t, o, d, _ := u.entry(rng, true)
				db.Append(t, o, d)
			}
			return db
		}
		// pre-populated store
		init := []string{}
		if rng.Intn(3) == 0 {
			for _, v := range vars {
				if rng.Intn(3) == 0 {
					var content []byte
					if v.secure {
						db := genDb()
						content = append([]byte{byte(v.attrs), 0, 0, 0}, db.Bytes()...)
					} else {
						content = append([]byte{byte(v.attrs), 0, 0, 0}, randBytes(rng, rng.Intn(30))...)
					}
					p := dir + "/" + v.name + "-" + v.g.Format()
					init = append(init, hx([]byte(p))+"="+hx(content))
				}
			}
		}
		nops := 2 + rng.Intn(maxOps)
		implOpsL, modelOps := []string{}, []string{}
		lastLen := map[string]int{}
		keptVal := map[string][]byte{}
		shrunk, readAfterShrink := map[string]bool{}, false
		for j := 0; j < nops; j++ {
			v := pick(rng, vars)
			ga := guidArg(v.g)
			nm := hx([]byte(v.name))
			if rng.Intn(5) < 2 { // read
				req := v.attrs
				if rng.Intn(6) == 0 {
					req = uint32(rng.Intn(256))
				}
				how := "getvar"
				if v.secure && rng.Intn(2) == 0 && req == v.attrs {
					how = "typed"
				}
				implOpsL = append(implOpsL, fmt.Sprintf("R^%s^%s^%d^%s", nm, ga, req, how))
				modelOps = append(modelOps, fmt.Sprintf("R^%s^%s^%d", nm, ga, req))
				if shrunk[v.name] {
					readAfterShrink = true
				}
				continue
			}
			at := v.attrs
			var value []byte
			if kv, ok := keptVal[v.name]; ok && v.secure && rng.Intn(4) == 0 {
				// the signed update written earlier is written again, the very same object
				implOpsL = append(implOpsL, fmt.Sprintf("T^%s^%s^%d^", nm, ga, at))
				modelOps = append(modelOps, fmt.Sprintf("W^%s^%s^%d^%s", nm, ga, at, hx(kv)))
				continue
			}
			if v.secure {
				db := genDb()
				if rng.Intn(5) == 0 {
					db = signature.SignatureDatabase{}
				}
				if rng.Intn(2) == 0 {
					// signed update: the model is given a descriptor of its own making
					sc := cert
					if i%40 == 7 {
						sc = fatCert
					}
					_, m, err := signature.SignEFIVariable(varByName(v.name, v.g, at), &db, key, sc)
					if err != nil {
						continue
					}
					value = m.Bytes()
					fat := ""
					if sc == fatCert {
						fat = "^fat"
					}
					if fat == "" && rng.Intn(3) == 0 {
						implOpsL = append(implOpsL, fmt.Sprintf("U^%s^%s^%d^%s", nm, ga, at, dbArg(db)))
						keptVal[v.name] = value
					} else {
						implOpsL = append(implOpsL, fmt.Sprintf("S^%s^%s^%d^%s%s", nm, ga, at, dbArg(db), fat))
					}
				} else {
					value = db.Bytes()
					implOpsL = append(implOpsL, fmt.Sprintf("D^%s^%s^%d^%s", nm, ga, at, dbArg(db)))
				}
				if len(db.Bytes()) < lastLen[v.name] {
					shrunk[v.name] = true
				}
				lastLen[v.name] = len(db.Bytes())
			} else {
				switch rng.Intn(5) {
				case 0:
					value = []byte{}
				case 1:
					value = randBytes(rng, rng.Intn(6))
				case 4:
					// an ordinary variable whose value happens to begin with an authentication
					// descriptor (a stored .auth file): it is kept as it is
					value = randBytes(rng, rng.Intn(40))
					if _, m, err := signature.SignEFIVariable(varByName(v.name, v.g, at), rawValue(value), key, cert); err == nil {
						value = m.(interface{ Bytes() []byte }).Bytes()
					}
				default:
					value = randBytes(rng, rng.Intn(80))
				}
				implOpsL = append(implOpsL, fmt.Sprintf("W^%s^%s^%d^%s", nm, ga, at, hx(value)))
				if len(value) < lastLen[v.name] {
					shrunk[v.name] = true
				}
				lastLen[v.name] = len(value)
			}
			modelOps = append(modelOps, fmt.Sprintf("W^%s^%s^%d^%s", nm, ga, at, hx(value)))
		}
		if len(implOpsL) == 0 {
			continue
		}
		o := c.Impl("store_history", hx([]byte(dir)), strings.Join(init, ","), strings.Join(implOpsL, "&"))
		class := "from-empty"
		if len(init) > 0 {
			class = "pre-populated"
		}
		if o.Class != "ret" || len(o.Fields) == 0 {
			c.Rep.Record("store_history", class+"/worker-"+o.Class, true, "", implOpsL, "violation", []string{o.Class}, map[string]string{"worker": o.Class})
			continue
		}
		obs := o.Fields[0]
		args := []string{hx([]byte(dir)), strings.Join(init, ","), strings.Join(modelOps, "&"), obs}
		if strings.Contains(obs, "!") {
			c.Rep.Record("store_history", class, true, "", args, "violation", []string{"a write failed"}, map[string]string{"op": "write-failed"})
			continue
		}
		v, info := c.Drv.Eval("store_history", args...)
		if v != "ok" && len(info) > 0 {
			var idx int
			fmt.Sscan(info[0], &idx)
			if idx < len(implOpsL) {
				info = append(info, "failing step: "+implOpsL[idx])
				ob := strings.Split(obs, "&")
				args = []string{args[0], args[1], strings.Join(modelOps[:idx+1], "&"), strings.Join(ob[:idx+1], "&")}
			}
		}
		c.Rep.Record("store_history", class, readAfterShrink, fmt.Sprintf("%d ops", len(implOpsL)), args, v, info, nil)
	}
}
