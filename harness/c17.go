package main

import (
	"github.com/foxboron/go-uefi/efi/signature"
	"bytes"
	"encoding/binary"
	"fmt"
	"math/rand"
	"strconv"
	"strings"

	"github.com/foxboron/go-uefi/efi/util"
	"github.com/foxboron/go-uefi/efivar"
)

func guidArg(g util.EFIGUID) string {
	return fmt.Sprintf("%d:%d:%d:%s", g.Data1, g.Data2, g.Data3, hx(g.Data4[:]))
}

func genGUID(rng *rand.Rand) (util.EFIGUID, string) {
	var g util.EFIGUID
	class := "random"
	g.Data1 = rng.Uint32()
	g.Data2 = uint16(rng.Uint32())
	g.Data3 = uint16(rng.Uint32())
	rng.Read(g.Data4[:])
	switch rng.Intn(8) {
	case 0: // leading-zero nibbles in every field
		class = "leading-zeros"
		g.Data1 >>= uint(4 * (1 + rng.Intn(7)))
		g.Data2 >>= uint(4 * (1 + rng.Intn(3)))
		g.Data3 >>= uint(4 * (1 + rng.Intn(3)))
		g.Data4[0] &= 0x0f
		g.Data4[2] = 0
		g.Data4[3] &= 0x0f
	case 1:
		class = "all-ff"
		g = util.EFIGUID{Data1: 0xffffffff, Data2: 0xffff, Data3: 0xffff, Data4: [8]byte{255, 255, 255, 255, 255, 255, 255, 255}}
	case 2:
		class = "zero"
		g = util.EFIGUID{}
	case 3: // asymmetric bytes: byte order mistakes become visible
		class = "asymmetric"
		g = util.EFIGUID{Data1: 0x01020304, Data2: 0x0506, Data3: 0x0708, Data4: [8]byte{9, 10, 11, 12, 13, 14, 15, 16}}
		if rng.Intn(2) == 0 {
			g.Data1 = 0xa0b0c0d0 | uint32(rng.Intn(16))
		}
	case 4: // one field zero
		class = "one-field-zero"
		switch rng.Intn(4) {
		case 0:
			g.Data1 = 0
		case 1:
			g.Data2 = 0
		case 2:
			g.Data3 = 0
		case 3:
			g.Data4 = [8]byte{}
		}
	}
	return g, class
}

func runesArg(rs []rune) string {
	parts := make([]string, len(rs))
	for i, r := range rs {
		parts[i] = strconv.Itoa(int(r))
	}
	return strings.Join(parts, ",")
}

func genString(rng *rand.Rand, maxLen int) ([]rune, string) {
	class := "mixed"
	n := rng.Intn(maxLen + 1)
	mode := rng.Intn(7)
	switch mode {
	case 6:
		// Western European text: every code unit below 0x100, some above 0x7f
		class = "latin1"
	case 0:
		class = "empty"
		n = 0
	case 1:
		class = "ascii"
	case 2:
		class = "bmp"
	case 3:
		class = "non-bmp"
	case 4:
		class = "boundary"
	}
	rs := make([]rune, 0, n)
	boundary := []rune{1, 0x7f, 0x80, 0x7ff, 0x800, 0xd7ff, 0xe000, 0xfffd, 0xffff, 0x10000, 0x10ffff, 0xfeff, 0xfffe, 0x100, 0xff}
	for len(rs) < n {
		var r rune
		switch mode {
		case 1:
			r = rune(1 + rng.Intn(127))
		case 2:
			r = rune(1 + rng.Intn(0xffff))
		case 3:
			r = rune(0x10000 + rng.Intn(0x100000))
		case 4:
			r = pick(rng, boundary)
		case 6:
			r = rune(1 + rng.Intn(255))
			if len(rs) == 0 {
				r = rune(0x80 + rng.Intn(128))
			}
		default:
			switch rng.Intn(3) {
			case 0:
				r = rune(1 + rng.Intn(127))
			case 1:
				r = rune(1 + rng.Intn(0xffff))
			default:
				r = rune(0x10000 + rng.Intn(0x100000))
			}
		}
		if r >= 0xd800 && r <= 0xdfff {
			continue
		}
		rs = append(rs, r)
	}
	return rs, class
}

func obsStr(f func() (string, error)) string {
	var s string
	var err error
	class, _ := catch(func() { s, err = f() })
	if class == "panic" {
		return "P"
	}
	if err != nil {
		return "E"
	}
	return "S:" + runesArg([]rune(s))
}

func init() {
	checkers["C17"] = checker{
		rule: "GUIDs drawn from boundary classes (leading-zero nibbles per field, all-ff, zero, asymmetric bytes, one zero field) and uniformly; strings from empty/ASCII/BMP/non-BMP/boundary-scalar/mixed classes up to the tier's length bound, and of 32766..65536 code units; each case runs one conversion on the implementation and the extracted relation R_C17 decides it; the in-structure form is also read at the library's own encoding sites (signature list type and owner fields; the buffer a signed variable update covers, rebuilt with the model-validated wire bytes and verified by the RFC 2315 reference verifier); a case is non-trivial when its input is not the all-zero GUID / empty string, distinct by hash of (operation, arguments)",
		run:  runC17,
	}
}

func runC17(c *Ctx) {
	rng := c.Rng
	nG := c.N(1500, 150000)
	for i := 0; i < nG; i++ {
		g, class := genGUID(rng)
		nt := g != util.EFIGUID{}
		ga := guidArg(g)
		desc := g.Format()
		// Format
		text := g.Format()
		v, info := c.Drv.Eval("guid_format", ga, hx([]byte(text)))
		c.Rep.Record("guid_format", class, nt, desc, []string{ga, hx([]byte(text))}, v, info, nil)
		// parse canonical text (taken from the model, so a broken Format does not mask a broken parser)
		canon := text
		if len(info) > 0 {
			canon = string(unhx(info[0]))
		}
		for _, mode := range []string{"lower", "upper", "mixed"} {
			t := []byte(canon)
			for j := range t {
				up := mode == "upper" || (mode == "mixed" && rng.Intn(2) == 0)
				if up && t[j] >= 'a' && t[j] <= 'f' {
					t[j] -= 32
				}
			}
			pg := util.StringToGUID(string(t))
			if rng.Intn(4) == 0 {
				// the caller owns what it got: changing it must not change what the next caller gets
				first := *pg
				pg.Data1, pg.Data4[3] = ^pg.Data1, ^pg.Data4[3]
				pg = util.StringToGUID(string(t))
				if *pg != first {
					pg = &util.EFIGUID{Data1: 0xdeadbeef} // reported below as a wrong parse
				}
			}
			v, info := c.Drv.Eval("guid_parse", hx(t), guidArg(*pg))
			c.Rep.Record("guid_parse", class+"/"+mode, nt, string(t), []string{hx(t), guidArg(*pg)}, v, info, nil)
		}
		// big-endian bytes: three entry points
		for k, bs := range [][]byte{util.GUIDToBytes(&g), g.Bytes(), func() []byte { var b bytes.Buffer; util.WriteGUID(&b, &g); return b.Bytes() }()} {
			v, info := c.Drv.Eval("guid_to_bytes", ga, hx(bs))
			c.Rep.Record("guid_to_bytes", fmt.Sprintf("%s/entry%d", class, k), nt, desc, []string{ga, hx(bs)}, v, info, nil)
		}
		// 16 bytes -> GUID
		raw := util.GUIDToBytes(&g)
		if rng.Intn(2) == 0 {
			raw = randBytes(rng, 16)
		}
		bg := util.BytesToGUID(raw)
		v, info = c.Drv.Eval("guid_from_bytes", hx(raw), guidArg(*bg))
		c.Rep.Record("guid_from_bytes", class, true, hx(raw), []string{hx(raw), guidArg(*bg)}, v, info, nil)
		// in-structure form
		var wb bytes.Buffer
		binary.Write(&wb, binary.LittleEndian, g)
		v, info = c.Drv.Eval("guid_wire", ga, hx(wb.Bytes()))
		c.Rep.Record("guid_wire", class, nt, desc, []string{ga, hx(wb.Bytes())}, v, info, nil)
		// ... and at the library's own encoding sites: a signature list (type, owner),
		// and the buffer a signed variable update covers
		if i%16 == 0 {
			sl := &signature.SignatureList{SignatureType: g, ListSize: 28 + 20, Size: 20,
				Signatures: []signature.SignatureData{{Owner: g, Data: []byte{1, 2, 3, 4}}}}
			var lb bytes.Buffer
			signature.WriteSignatureList(&lb, *sl)
			if lb.Len() >= 44 {
				for k, part := range [][]byte{lb.Bytes()[0:16], lb.Bytes()[28:44]} {
					v, info = c.Drv.Eval("guid_wire", ga, hx(part))
					c.Rep.Record("guid_wire", fmt.Sprintf("%s/siglist-site%d", class, k), nt, desc, []string{ga, hx(part)}, v, info, nil)
				}
			}
			// the wire bytes written by hand (validated by the model), then the signed buffer rebuilt with them
			hand := make([]byte, 16)
			binary.LittleEndian.PutUint32(hand, g.Data1)
			binary.LittleEndian.PutUint16(hand[4:], g.Data2)
			binary.LittleEndian.PutUint16(hand[6:], g.Data3)
			copy(hand[8:], g.Data4[:])
			if hv, _ := c.Drv.Eval("guid_wire", ga, hx(hand)); hv == "ok" {
				key := rsaKey(2048, 0)
				cert := simpleCert(key, "image signer 0", 300)
				gg := g
				ev := efivar.Efivar{Name: "v", GUID: &gg, Attributes: 0x27}
				payload := []byte("payload")
				auth, _, err := signature.SignEFIVariable(ev, rawValue(payload), key, cert)
				verdict, why := "ok", []string{}
				if err != nil {
					verdict, why = "violation", []string{"SignEFIVariable failed: " + err.Error()}
				} else {
					var tb bytes.Buffer
					binary.Write(&tb, binary.LittleEndian, auth.Time)
					buf := append([]byte{'v', 0}, hand...)
					buf = append(buf, 0x27, 0, 0, 0)
					buf = append(append(buf, tb.Bytes()...), payload...)
					if ok, msg := refVerify(auth.AuthInfo.CertData, buf, cert); !ok {
						verdict, why = "violation", []string{"the signed update does not cover name || in-structure GUID || attributes || time || payload: " + msg}
					}
				}
				c.Rep.Record("guid_wire", class+"/signed-buffer-site", nt, desc, []string{ga}, verdict, why, nil)
			}
		}
		// comparison: equal copy, and a copy differing in exactly one place
		h := g
		cmpClass := "equal"
		switch rng.Intn(5) {
		case 0:
			h.Data1 ^= 1 << uint(rng.Intn(32))
			cmpClass = "diff-data1"
		case 1:
			h.Data2 ^= 1 << uint(rng.Intn(16))
			cmpClass = "diff-data2"
		case 2:
			h.Data3 ^= 1 << uint(rng.Intn(16))
			cmpClass = "diff-data3"
		case 3:
			h.Data4[rng.Intn(8)] ^= 1 << uint(rng.Intn(8))
			cmpClass = "diff-data4"
		}
		eq := util.CmpEFIGUID(g, h)
		v, info = c.Drv.Eval("guid_cmp", ga, guidArg(h), b01(eq))
		c.Rep.Record("guid_cmp", cmpClass, true, desc, []string{ga, guidArg(h), b01(eq)}, v, info, nil)
	}
	nS := c.N(800, 60000)
	maxLen := c.Bound(40, 300)
	for i := 0; i < nS; i++ {
		rs, class := genString(rng, maxLen)
		if i%97 == 0 {
			rs, _ = genString(rng, c.Bound(3000, 20000))
			class = "long"
		}
		if i < 5 {
			// directed: lengths around 2^15 and 2^16 UTF-16 code units (ASCII, so one unit each)
			n := []int{32766, 32767, 32768, 65535, 65536}[i]
			rs = make([]rune, n)
			for k := range rs {
				rs[k] = rune('a' + rng.Intn(26))
			}
			class = "boundary-length"
		}
		nt := len(rs) > 0
		sa := runesArg(rs)
		enc := util.MarshalUtf16Var(string(rs))
		v, info := c.Drv.Eval("utf16_marshal", sa, hx(enc))
		c.Rep.Record("utf16_marshal", class, nt, "", []string{sa, hx(enc)}, v, info, nil)
		// decode what the model says the encoding is
		o := obsStr(func() (string, error) { return util.ParseUtf16Var(bytes.NewBuffer(append([]byte{}, enc...))) })
		v, info = c.Drv.Eval("utf16_parse", hx(enc), o)
		c.Rep.Record("utf16_parse", class+"/terminated", nt, "", []string{hx(enc), o}, v, info, nil)
		// Efistring.Unmarshal, with junk after the terminator
		in := append(append([]byte{}, enc...), randBytes(rng, rng.Intn(5))...)
		o = obsStr(func() (string, error) {
			var es efivar.Efistring
			err := es.Unmarshal(bytes.NewBuffer(in))
			return string(es), err
		})
		v, info = c.Drv.Eval("efistring", hx(in), o)
		c.Rep.Record("efistring", class, nt, "", []string{hx(in), o}, v, info, map[string]string{"entry": "efistring"})
		// inputs without the terminator: must be errors
		var cut []byte
		cutClass := ""
		switch rng.Intn(3) {
		case 0:
			cut = enc[:len(enc)-2]
			cutClass = "no-terminator"
		case 1:
			cut = enc[:len(enc)-1]
			cutClass = "odd-length"
		case 2:
			cut = []byte{}
			cutClass = "empty-input"
		}
		if len(cut) == 0 {
			cutClass = "empty-input"
		}
		o = obsStr(func() (string, error) { return util.ParseUtf16Var(bytes.NewBuffer(append([]byte{}, cut...))) })
		v, info = c.Drv.Eval("utf16_parse", hx(cut), o)
		c.Rep.Record("utf16_parse", cutClass, true, "", []string{hx(cut), o}, v, info, map[string]string{"entry": "util.ParseUtf16Var", "input": cutClass})
	}
}
