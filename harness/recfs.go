package main

import (
	"errors"
	"fmt"
	"os"
	"time"

	"github.com/spf13/afero"
)

// recFs wraps an afero.Fs, records every call that can change the file system,
// counts the dependency calls (open, stat, read, write, close) and can make the
// k-th of them fail or, for a write, come up short.

type faultPlan struct {
	k     int    // index of the dependency call that fails; -1 = none
	short bool   // for a Write: report one byte less, with an error
	silent bool  // with short: report one byte less and NO error
	writeErr error // every Write fails with this error (e.g. EINTR: an interrupted call that a caller may retry, here for ever)
	halfReads bool // every Read delivers at most half of what was asked for (at least one byte), without error
	shortFirstWrite bool // the first Write stores one byte less and reports that count with NO error
	shortRead bool // for a Read: deliver half of what was asked, no error (a legal short read)
	thenFail  bool // with shortRead: every later Read fails
	applied   bool // the short read really delivered less than was asked
	after []string // dependency calls issued after the failing one
	hit   bool
	kind  string // kind of the call that was failed
}

var errInjected = errors.New("injected fault")

// the error injected faults carry: a generic one, or one of a particular kind (e.g. ENOENT)
var injectedKind error

func curInjected() error {
	if injectedKind != nil {
		return injectedKind
	}
	return errInjected
}

type recFs struct {
	base  afero.Fs
	trace []string // state-changing calls, in the encoding of Spec/VarCheck.v
	calls []string // every dependency call, for fault enumeration
	plan  *faultPlan
}

func newRecFs(base afero.Fs) *recFs { return &recFs{base: base, plan: &faultPlan{k: -1}} }

// dep registers a dependency call; returns true if it must fail.
func (r *recFs) dep(kind string) bool {
	i := len(r.calls)
	r.calls = append(r.calls, kind)
	if r.plan.hit {
		r.plan.after = append(r.plan.after, kind)
	}
	if i == r.plan.k {
		r.plan.hit = true
		r.plan.kind = kind
		return true
	}
	return false
}

func (r *recFs) Name() string { return "MemMapFS" }

func (r *recFs) Create(name string) (afero.File, error) {
	r.trace = append(r.trace, "X~create")
	if r.dep("open") {
		return nil, curInjected()
	}
	f, err := r.base.Create(name)
	if err != nil {
		return nil, err
	}
	return &recFile{File: f, fs: r}, nil
}
func (r *recFs) Mkdir(name string, perm os.FileMode) error {
	r.trace = append(r.trace, "X~mkdir")
	return r.base.Mkdir(name, perm)
}
func (r *recFs) MkdirAll(path string, perm os.FileMode) error {
	r.trace = append(r.trace, "X~mkdirall")
	return r.base.MkdirAll(path, perm)
}
func (r *recFs) Open(name string) (afero.File, error) {
	if r.dep("open") {
		return nil, curInjected()
	}
	f, err := r.base.Open(name)
	if err != nil {
		return nil, err
	}
	return &recFile{File: f, fs: r}, nil
}
func (r *recFs) OpenFile(name string, flag int, perm os.FileMode) (afero.File, error) {
	if flag&(os.O_WRONLY|os.O_RDWR|os.O_CREATE|os.O_TRUNC|os.O_APPEND) != 0 {
		r.trace = append(r.trace, fmt.Sprintf("O~%s~%d", hx([]byte(name)), flag))
	}
	if r.dep("open") {
		return nil, curInjected()
	}
	f, err := r.base.OpenFile(name, flag, perm)
	if err != nil {
		return nil, err
	}
	return &recFile{File: f, fs: r}, nil
}
func (r *recFs) Remove(name string) error {
	r.trace = append(r.trace, "X~remove")
	return r.base.Remove(name)
}
func (r *recFs) RemoveAll(path string) error {
	r.trace = append(r.trace, "X~removeall")
	return r.base.RemoveAll(path)
}
func (r *recFs) Rename(o, n string) error {
	r.trace = append(r.trace, "X~rename")
	return r.base.Rename(o, n)
}
func (r *recFs) Stat(name string) (os.FileInfo, error) { return r.base.Stat(name) }
func (r *recFs) Chmod(name string, mode os.FileMode) error {
	r.trace = append(r.trace, "X~chmod")
	return r.base.Chmod(name, mode)
}
func (r *recFs) Chown(name string, uid, gid int) error {
	r.trace = append(r.trace, "X~chown")
	return r.base.Chown(name, uid, gid)
}
func (r *recFs) Chtimes(name string, a, m time.Time) error {
	r.trace = append(r.trace, "X~chtimes")
	return r.base.Chtimes(name, a, m)
}

type recFile struct {
	afero.File
	fs *recFs
}

func (f *recFile) Write(p []byte) (int, error) {
	f.fs.trace = append(f.fs.trace, "W~"+hx(p))
	if f.fs.plan.writeErr != nil {
		f.fs.plan.hit = true
		f.fs.calls = append(f.fs.calls, "write")
		return 0, f.fs.plan.writeErr
	}
	if f.fs.plan.shortFirstWrite && !f.fs.plan.hit && len(p) > 0 {
		f.fs.plan.hit = true
		f.fs.calls = append(f.fs.calls, "write")
		n, _ := f.File.Write(p[:len(p)-1])
		return n, nil
	}
	if f.fs.dep("write") {
		if f.fs.plan.short && len(p) > 0 {
			n, _ := f.File.Write(p[:len(p)-1])
			if f.fs.plan.silent {
				return n, nil
			}
			return n, curInjected()
		}
		return 0, curInjected()
	}
	return f.File.Write(p)
}
func (f *recFile) WriteAt(p []byte, off int64) (int, error) {
	f.fs.trace = append(f.fs.trace, "X~writeat")
	return f.File.WriteAt(p, off)
}
func (f *recFile) WriteString(s string) (int, error) {
	f.fs.trace = append(f.fs.trace, "X~writestring")
	return f.File.WriteString(s)
}
func (f *recFile) Truncate(n int64) error {
	f.fs.trace = append(f.fs.trace, "X~truncate")
	return f.File.Truncate(n)
}
func (f *recFile) Read(p []byte) (int, error) {
	if f.fs.plan.halfReads && len(p) >= 2 {
		f.fs.calls = append(f.fs.calls, "read")
		return f.File.Read(p[:len(p)/2])
	}
	if f.fs.plan.shortRead && f.fs.plan.applied && f.fs.plan.thenFail {
		f.fs.calls = append(f.fs.calls, "read")
		return 0, curInjected()
	}
	if f.fs.dep("read") {
		if f.fs.plan.shortRead {
			if len(p) < 2 {
				return f.File.Read(p)
			}
			f.fs.plan.applied = true
			return f.File.Read(p[:len(p)/2])
		}
		return 0, curInjected()
	}
	return f.File.Read(p)
}
func (f *recFile) Stat() (os.FileInfo, error) {
	if f.fs.dep("stat") {
		return nil, curInjected()
	}
	return f.File.Stat()
}
func (f *recFile) Close() error {
	if f.fs.dep("close") {
		f.File.Close()
		return curInjected()
	}
	return f.File.Close()
}
