package main

import (
	crand "crypto/rand"
	"crypto/ed25519"
	"time"
	"bytes"
	"crypto"
	"crypto/rsa"
	"crypto/sha256"
	"crypto/x509"
	"crypto/x509/pkix"
	encasn1 "encoding/asn1"
	"encoding/pem"
	"fmt"
	"io"
	"math/big"
	"math/rand"
	"os"
	"os/exec"
	"path/filepath"
	"strings"
	"sync"

	"github.com/foxboron/go-uefi/authenticode"
	"github.com/foxboron/go-uefi/pkcs7"
	"golang.org/x/crypto/cryptobyte"
	cbasn1 "golang.org/x/crypto/cryptobyte/asn1"
)

// ---- keys known to the RSA oracle ----
var (
	oracleMu   sync.Mutex
	oracleKeys = map[string]*rsa.PublicKey{} // key id (decimal) -> public key
)

func keyID(pub *rsa.PublicKey) string {
	h := sha256.Sum256(pub.N.Bytes())
	id := new(big.Int).SetBytes(h[:6]).String()
	oracleMu.Lock()
	oracleKeys[id] = pub
	oracleMu.Unlock()
	return id
}

func certArg(c *x509.Certificate) string {
	pub, ok := c.PublicKey.(*rsa.PublicKey)
	if !ok {
		// not an RSA key: no RSA signature is valid under it (key id 0 is unknown to the oracle)
		return fmt.Sprintf("%s:%s:0", hx(c.RawIssuer), c.SerialNumber.String())
	}
	return fmt.Sprintf("%s:%s:%s", hx(c.RawIssuer), c.SerialNumber.String(), keyID(pub))
}

func answerCryptoOracle(c *Ctx, kind string, args []string) string {
	switch kind {
	case "utctime":
		var b cryptobyte.Builder
		b.AddASN1(cbasn1.UTCTime, func(b *cryptobyte.Builder) { b.AddBytes(unhx(args[0])) })
		s := cryptobyte.String(b.BytesOrPanic())
		var t = new(timeHolder)
		return b01(s.ReadASN1UTCTime(&t.t))
	case "x509":
		_, err := x509.ParseCertificates(unhx(args[0]))
		return b01(err == nil)
	case "rsa":
		oracleMu.Lock()
		pub := oracleKeys[args[0]]
		oracleMu.Unlock()
		if pub == nil {
			return "0"
		}
		h := sha256.Sum256(unhx(args[1]))
		return b01(rsa.VerifyPKCS1v15(pub, crypto.SHA256, h[:], unhx(args[2])) == nil)
	}
	return "0"
}

// ---- worker side ----
func oidArg(o encasn1.ObjectIdentifier) string {
	p := make([]string, len(o))
	for i, c := range o {
		p[i] = fmt.Sprint(c)
	}
	return strings.Join(p, ".")
}

func p7Summary(p *pkcs7.PKCS7) []string {
	sis := []string{}
	for _, si := range p.SignerInfo {
		md, has, ct, mar := "", "0", "", ""
		if a := si.AuthenticatedAttributes; a != nil {
			has = "1"
			md = hx(a.MessageDigest)
			ct = oidArg(a.ContentType)
			cls, _ := catch(func() { mar = hx(a.Marshal()) })
			if cls == "panic" {
				mar = ""
			}
		}
		sis = append(sis, fmt.Sprintf("%s/%s/%s/%s/%s/%s/%s", hx(si.IssuerAndSerialnumber.RawIssuer), si.IssuerAndSerialnumber.SerialNumber.String(), md, has, ct, hx(si.EncryptedDigest), mar))
	}
	return []string{"ok", oidArg(p.OID), hx(p.ContentInfo), strings.Join(sis, ",")}
}

func init() {
	implOps["p7_verify"] = func(a []string) []string {
		blob := unhx(a[0])
		orig := append([]byte{}, blob...)
		// whatever happens below, the caller's bytes stay what they were
		defer func() {
			if !bytes.Equal(blob, orig) {
				panic("the caller's blob was modified")
			}
		}()
		p, err := pkcs7.ParsePKCS7(blob)
		if err != nil {
			return []string{"err-parse"}
		}
		cert, err := x509.ParseCertificate(unhx(a[1]))
		if err != nil {
			return []string{"err-cert"}
		}
		// earlier verifications on the same parsed object (their results are not the subject here)
		if len(a) > 2 && a[2] != "" {
			for _, h := range strings.Split(a[2], ",") {
				if pc, err := x509.ParseCertificate(unhx(h)); err == nil {
					p.Verify(pc)
				}
			}
		}
		ok, err := p.Verify(cert)
		if err != nil {
			return []string{"err"}
		}
		if ok != p.HasCertificate(cert) && ok {
			return []string{"true-without-certificate"}
		}
		if ok {
			return []string{"true"}
		}
		return []string{"false"}
	}
	implOps["p7_parse"] = func(a []string) []string {
		// the process is not in UTC: what is parsed and re-encoded must not depend on the zone
		time.Local = time.FixedZone("verif+0530", 5*3600+1800)
		p, err := pkcs7.ParsePKCS7(unhx(a[0]))
		if err != nil {
			return []string{"err"}
		}
		return p7Summary(p)
	}
}

// recSigner records the digest it is asked to sign and what it returned.
type recSigner struct {
	key    *rsa.PrivateKey
	digest []byte
	sig    []byte
	fail   bool
	calls  int
	slow   bool // a signer with latency (a hardware token): returns just after the next full second has begun
}

func (r *recSigner) Public() crypto.PublicKey { return r.key.Public() }
func (r *recSigner) Sign(rnd io.Reader, digest []byte, opts crypto.SignerOpts) ([]byte, error) {
	r.calls++
	if r.fail {
		return nil, errInjected
	}
	if r.slow {
		now := time.Now()
		time.Sleep(now.Truncate(time.Second).Add(time.Second + 20*time.Millisecond).Sub(now))
	}
	r.digest = append([]byte{}, digest...)
	s, err := r.key.Sign(rnd, digest, opts)
	r.sig = s
	return s, err
}

// ---- seeds ----
type p7Seed struct {
	name    string
	blob    []byte
	cert    *x509.Certificate
	key     *rsa.PrivateKey
	content []byte // detached content, if any
}

func opensslPath() string {
	for _, p := range []string{"/usr/bin/openssl", "/root/miniconda/bin/openssl"} {
		if _, err := os.Stat(p); err == nil {
			return p
		}
	}
	if p, err := exec.LookPath("openssl"); err == nil {
		return p
	}
	return ""
}

func writePEM(dir string, key *rsa.PrivateKey, cert *x509.Certificate) (string, string) {
	kb, _ := x509.MarshalPKCS8PrivateKey(key)
	kp := filepath.Join(dir, fmt.Sprintf("k%x.pem", cert.SerialNumber))
	cp := filepath.Join(dir, fmt.Sprintf("c%x.pem", cert.SerialNumber))
	os.WriteFile(kp, pem.EncodeToMemory(&pem.Block{Type: "PRIVATE KEY", Bytes: kb}), 0600)
	os.WriteFile(cp, pem.EncodeToMemory(&pem.Block{Type: "CERTIFICATE", Bytes: cert.Raw}), 0644)
	return kp, cp
}

// opensslSign produces a DER signature with the openssl CLI.
func opensslSign(dir, tool string, key *rsa.PrivateKey, cert *x509.Certificate, content []byte, extra ...string) ([]byte, error) {
	bin := opensslPath()
	if bin == "" {
		return nil, fmt.Errorf("no openssl")
	}
	kp, cp := writePEM(dir, key, cert)
	in := filepath.Join(dir, "content.bin")
	out := filepath.Join(dir, "sig.der")
	os.WriteFile(in, content, 0644)
	args := []string{tool, "-sign", "-binary", "-in", in, "-signer", cp, "-inkey", kp, "-outform", "DER", "-md", "sha256", "-out", out}
	args = append(args, extra...)
	cmd := exec.Command(bin, args...)
	if o, err := cmd.CombinedOutput(); err != nil {
		return nil, fmt.Errorf("%v: %s", err, o)
	}
	return os.ReadFile(out)
}

func librarySeeds(rng *rand.Rand, n int) []p7Seed {
	var out []p7Seed
	for i := 0; i < n; i++ {
		key := rsaKey(2048, i%2)
		cert := simpleCert(key, fmt.Sprintf("lib signer %d", i), int64(100+i))
		if i%2 == 1 {
			// a serial whose top bit is set: its DER form has a leading zero octet
			ser := new(big.Int).SetBytes(append([]byte{0xc0 | byte(i)}, randBytes(rng, 7)...))
			cert = mintCert(key, pkix.Name{CommonName: fmt.Sprintf("lib signer %d", i), Organization: []string{"verif"}}, ser)
		}
		if i%4 == 2 {
			// issued by a CA: the signer entry names the issuer, which is not the subject
			cert = leafCert(key, fmt.Sprintf("lib leaf %d", i), int64(7000+i))
		}
		if i%6 == 4 {
			// the certificate itself carries a sha384WithRSA signature (the SignedData is still SHA-256)
			cert = mintCertAlg(key, pkix.Name{CommonName: fmt.Sprintf("lib signer %d (sha384 certificate)", i)}, big.NewInt(int64(9000+i)), x509.SHA384WithRSA)
		}
		content := randBytes(rng, 1+rng.Intn(200))
		switch i % 3 {
		case 0: // detached, data
			b, err := pkcs7.SignPKCS7(key, cert, pkcs7.OIDData, content)
			if err == nil {
				out = append(out, p7Seed{"library/data-detached", b, cert, key, content})
			}
		case 1: // embedded, arbitrary OID
			b, err := pkcs7.SignPKCS7(key, cert, encasn1.ObjectIdentifier{1, 3, 6, 1, 4, 1, 311, 2, 1, 4}, content)
			if err == nil {
				out = append(out, p7Seed{"library/embedded", b, cert, key, nil})
			}
		default: // Authenticode over a digest
			b, err := authenticode.SignAuthenticode(key, cert, bytes.NewReader(content), crypto.SHA256)
			if err == nil {
				out = append(out, p7Seed{"library/authenticode", b, cert, key, nil})
			}
		}
	}
	return out
}

func opensslSeeds(c *Ctx, rng *rand.Rand, n int) ([]p7Seed, string) {
	var out []p7Seed
	if opensslPath() == "" {
		return nil, "openssl CLI not found: OpenSSL-produced seeds skipped"
	}
	confs := [][]string{
		{"smime"}, {"smime", "-nodetach"}, {"smime", "-nosmimecap"}, {"smime", "-nodetach", "-nosmimecap"},
		{"cms"}, {"cms", "-nodetach"}, {"cms", "-nosmimecap"}, {"cms", "-nodetach", "-nosmimecap"},
		{"smime", "-nocerts"}, {"cms", "-nocerts", "-nodetach"},
	}
	note := ""
	for i := 0; i < n; i++ {
		conf := confs[i%len(confs)]
		key := rsaKey(2048, i%2)
		cert := simpleCert(key, fmt.Sprintf("ossl signer %d", i), int64(500+i))
		if i%2 == 1 {
			cert = leafCert(key, fmt.Sprintf("ossl leaf %d", i), int64(500+i))
		}
		content := randBytes(rng, 1+rng.Intn(300))
		b, err := opensslSign(c.Work, conf[0], key, cert, content, conf[1:]...)
		if err != nil {
			note = "openssl failed: " + err.Error()
			continue
		}
		s := p7Seed{"openssl/" + strings.Join(conf, ""), b, cert, key, content}
		out = append(out, s)
	}
	return out, note
}

func fixtureSeeds() []p7Seed {
	var out []p7Seed
	for _, f := range []string{"/repo/tests/data/binary/HelloWorld.efi.signed"} {
		b, err := os.ReadFile(f)
		if err != nil {
			continue
		}
		pe, err := authenticode.Parse(bytes.NewReader(b))
		if err != nil {
			continue
		}
		sigs, err := pe.Signatures()
		if err != nil {
			continue
		}
		for _, s := range sigs {
			p, err := pkcs7.ParsePKCS7(s.Certificate)
			if err != nil || len(p.Certs) == 0 {
				continue
			}
			out = append(out, p7Seed{"fixture/sbsign", s.Certificate, p.Certs[0], nil, nil})
		}
	}
	fs, _ := filepath.Glob("/repo/tests/data/signatures/varsign/*.auth")
	for _, f := range fs {
		b, err := os.ReadFile(f)
		if err != nil || len(b) < 40 {
			continue
		}
		l := int(uint32(b[16]) | uint32(b[17])<<8 | uint32(b[18])<<16 | uint32(b[19])<<24)
		if 16+l > len(b) || l < 24 {
			continue
		}
		blob := b[40 : 16+l]
		p, err := pkcs7.ParsePKCS7(blob)
		if err != nil || len(p.Certs) == 0 {
			continue
		}
		out = append(out, p7Seed{"fixture/sbvarsign", blob, p.Certs[0], nil, nil})
	}
	return out
}

// otherCerts: certificates that must NOT verify a signature by (key, cert).
func otherCerts(s p7Seed, rng *rand.Rand) map[string]*x509.Certificate {
	out := map[string]*x509.Certificate{}
	k2 := rsaKey(2048, 2)
	var subj pkix.Name
	subj.FillFromRDNSequence(&pkix.RDNSequence{})
	subj = s.cert.Subject
	if bytes.Equal(s.cert.RawIssuer, s.cert.RawSubject) {
		out["same-issuer-serial-other-key"] = mintCert(k2, subj, s.cert.SerialNumber)
	} else {
		out["same-issuer-serial-other-key"] = mintLeaf(k2, s.cert.Issuer, subj, s.cert.SerialNumber)
	}
	if s.key != nil {
		out["same-key-other-serial"] = mintCert(s.key, subj, new(big.Int).Add(s.cert.SerialNumber, big.NewInt(1)))
		out["same-key-other-issuer"] = mintCert(s.key, pkix.Name{CommonName: "someone else"}, s.cert.SerialNumber)
	}
	if s.key != nil {
		// same key and serial, and a SUBJECT equal to the signer certificate's issuer (the issuer is someone else)
		var in pkix.Name
		in.FillFromRDNSequence(&pkix.RDNSequence{})
		in = s.cert.Issuer
		out["same-key-subject-is-signers-issuer"] = mintLeaf(s.key, pkix.Name{CommonName: "another CA"}, in, s.cert.SerialNumber)
	}
	// same issuer and serial, a key that is not RSA at all
	if _, edk, err := ed25519.GenerateKey(crand.Reader); err == nil {
		tmpl := x509.Certificate{SerialNumber: s.cert.SerialNumber, RawSubject: s.cert.RawIssuer,
			NotBefore: time.Now().Add(-time.Hour), NotAfter: time.Now().Add(24 * time.Hour)}
		if der, err := x509.CreateCertificate(crand.Reader, &tmpl, &tmpl, edk.Public(), edk); err == nil {
			if ec, err := x509.ParseCertificate(der); err == nil {
				out["same-issuer-serial-ed25519-key"] = ec
			}
		}
	}
	// another key under the names of the signer's certificate and of its issuer (other serial numbers):
	// a verifier that matches certificates by name alone takes them for the signer or its authority
	out["other-key-named-as-signers-issuer"] = mintCertRawName(k2, s.cert.RawIssuer, big.NewInt(424242))
	out["other-key-named-as-signer"] = mintCertRawName(k2, s.cert.RawSubject, big.NewInt(434343))
	out["unrelated"] = simpleCert(k2, "unrelated", 999)
	return out
}

// sdOf returns the SignedData node of a parsed blob (ContentInfo-wrapped or bare).
func sdOf(root *dnode) *dnode {
	if c := root.at(0); c != nil && c.tag == 0x06 {
		return root.at(1, 0)
	}
	return root
}

// graftSigner returns the attacker's blob with the first signer entry (and the
// certificates) of the genuine blob appended behind the attacker's own: the
// content and the first signer are the attacker's, the second signer carries a
// valid signature of the genuine key over attributes that speak of other content.
func graftSigner(attacker, genuine []byte) []byte {
	ra, rg := parseDER(attacker, 0), parseDER(genuine, 0)
	if len(ra) != 1 || len(rg) != 1 {
		return nil
	}
	root := ra[0].clone()
	sa, sg := sdOf(root), sdOf(rg[0])
	if sa == nil || sg == nil || len(sa.children) < 4 || len(sg.children) < 4 {
		return nil
	}
	find := func(sd *dnode, tag byte) *dnode {
		for i, ch := range sd.children {
			if ch.tag == tag && i >= 2 {
				return ch
			}
		}
		return nil
	}
	sia, sig := find(sa, 0x31), find(sg, 0x31)
	if sia == nil || sig == nil || len(sig.children) == 0 {
		return nil
	}
	sia.children = append(sia.children, sig.children[0].clone())
	if ca, cg := find(sa, 0xa0), find(sg, 0xa0); ca != nil && cg != nil {
		for _, ch := range cg.children {
			ca.children = append(ca.children, ch.clone())
		}
	}
	return root.encode()
}

// mutate: DER-aware derivations of a blob. Returns (class, blob) pairs.
func p7Mutants(s p7Seed, rng *rand.Rand, nflip int) [][2]interface{} {
	var out [][2]interface{}
	add := func(class string, b []byte) { out = append(out, [2]interface{}{class, b}) }
	for i := 0; i < nflip; i++ {
		m := append([]byte{}, s.blob...)
		p := rng.Intn(len(m))
		if rng.Intn(2) == 0 {
			m[p] ^= 1 << uint(rng.Intn(8))
			add("bit-flip", m)
		} else {
			m[p] = byte(rng.Intn(256))
			add("byte-change", m)
		}
	}
	// the two-signer forgery: somebody else signs other content of the same kind and the
	// genuine signer entry is appended behind theirs
	if s.key != nil && (s.name == "library/embedded" || s.name == "library/authenticode") {
		ak := rsaKey(2048, 3)
		ac := simpleCert(ak, "attacker", 666)
		var ab []byte
		var err error
		if s.name == "library/authenticode" {
			ab, err = authenticode.SignAuthenticode(ak, ac, bytes.NewReader(randBytes(rng, 40)), crypto.SHA256)
		} else {
			ab, err = pkcs7.SignPKCS7(ak, ac, encasn1.ObjectIdentifier{1, 3, 6, 1, 4, 1, 311, 2, 1, 4}, randBytes(rng, 40))
		}
		if err == nil {
			if g := graftSigner(ab, s.blob); g != nil {
				add("genuine-signer-behind-foreign-content", g)
			}
		}
	}
	roots := parseDER(s.blob, 0)
	if len(roots) != 1 {
		return out
	}
	root := roots[0]
	// locate SignedData: root = ContentInfo{oid, [0]{SignedData}} or SignedData itself
	sdPath := []int{}
	if c := root.at(0); c != nil && c.tag == 0x06 {
		sdPath = []int{1, 0}
	}
	edits := map[string]func(sd *dnode) bool{}
	edit := func(class string, f func(sd *dnode) bool) {
		edits[class] = f
		r := root.clone()
		sd := r.at(sdPath...)
		if sd == nil || sd.children == nil {
			return
		}
		if f(sd) {
			add(class, r.encode())
		}
	}
	// edits of fields no signature covers are free for an attacker: each is also
	// combined with every edit of the content (see the end of this function)
	compound := func(a, b string) {
		fa, fb := edits[a], edits[b]
		if fa == nil || fb == nil {
			return
		}
		r := root.clone()
		sd := r.at(sdPath...)
		if sd == nil || sd.children == nil {
			return
		}
		if fa(sd) && fb(sd) {
			add(a+"+"+b, r.encode())
		}
	}
	// SignedData children: version, digestAlgorithms, contentInfo, [0] certs?, signerInfos
	signerInfos := func(sd *dnode) *dnode {
		for _, ch := range sd.children {
			if ch.tag == 0x31 && ch != sd.children[1] {
				return ch
			}
		}
		return nil
	}
	attrsOf := func(sd *dnode) *dnode {
		sis := signerInfos(sd)
		if sis == nil || len(sis.children) == 0 {
			return nil
		}
		for _, ch := range sis.children[0].children {
			if ch.tag == 0xa0 {
				return ch
			}
		}
		return nil
	}
	edit("swap-attributes", func(sd *dnode) bool {
		a := attrsOf(sd)
		if a == nil || len(a.children) < 2 {
			return false
		}
		i := rng.Intn(len(a.children) - 1)
		a.children[i], a.children[i+1] = a.children[i+1], a.children[i]
		return true
	})
	edit("remove-attribute", func(sd *dnode) bool {
		a := attrsOf(sd)
		if a == nil || len(a.children) < 1 {
			return false
		}
		i := rng.Intn(len(a.children))
		a.children = append(a.children[:i], a.children[i+1:]...)
		return true
	})
	edit("duplicate-attribute", func(sd *dnode) bool {
		a := attrsOf(sd)
		if a == nil || len(a.children) < 1 {
			return false
		}
		a.children = append(a.children, a.children[rng.Intn(len(a.children))].clone())
		return true
	})
	edit("strip-attributes", func(sd *dnode) bool {
		sis := signerInfos(sd)
		if sis == nil || len(sis.children) == 0 {
			return false
		}
		si := sis.children[0]
		for i, ch := range si.children {
			if ch.tag == 0xa0 {
				si.children = append(si.children[:i], si.children[i+1:]...)
				return true
			}
		}
		return false
	})
	edit("attributes-without-contenttype", func(sd *dnode) bool {
		a := attrsOf(sd)
		if a == nil {
			return false
		}
		for i, ch := range a.children {
			if o := ch.at(0); o != nil && bytes.Equal(o.val, []byte{0x2a, 0x86, 0x48, 0x86, 0xf7, 0x0d, 0x01, 0x09, 0x03}) {
				a.children = append(a.children[:i], a.children[i+1:]...)
				return true
			}
		}
		return false
	})
	edit("replace-messagedigest", func(sd *dnode) bool {
		a := attrsOf(sd)
		if a == nil {
			return false
		}
		for _, ch := range a.children {
			if o := ch.at(0); o != nil && bytes.Equal(o.val, []byte{0x2a, 0x86, 0x48, 0x86, 0xf7, 0x0d, 0x01, 0x09, 0x04}) {
				if d := ch.at(1, 0); d != nil {
					d.val = randBytes(rng, 32)
					d.children = nil
					return true
				}
			}
		}
		return false
	})
	edit("replace-content", func(sd *dnode) bool {
		ci := sd.at(2)
		if ci == nil || len(ci.children) < 2 {
			return false
		}
		c := ci.children[1] // [0]
		if len(c.children) == 0 {
			return false
		}
		inner := c.children[0]
		if inner.children != nil && len(inner.children) > 0 {
			// flip something inside the content's value
			leaf := inner
			for leaf.children != nil && len(leaf.children) > 0 {
				leaf = leaf.children[len(leaf.children)-1]
			}
			if len(leaf.val) == 0 {
				return false
			}
			leaf.val = append([]byte{}, leaf.val...)
			leaf.val[rng.Intn(len(leaf.val))] ^= 0x01
			leaf.children = nil
		} else {
			if len(inner.val) == 0 {
				return false
			}
			inner.val = append([]byte{}, inner.val...)
			inner.val[rng.Intn(len(inner.val))] ^= 0x01
		}
		return true
	})
	edit("replace-content-with-empty", func(sd *dnode) bool { // the value octets become empty
		ci := sd.at(2)
		if ci == nil || len(ci.children) < 2 || len(ci.children[1].children) == 0 {
			return false
		}
		inner := ci.children[1].children[0]
		if inner.children == nil && len(inner.val) == 0 {
			return false
		}
		inner.children, inner.val = nil, []byte{}
		if rng.Intn(2) == 0 {
			inner.tag = 0x04
		}
		return true
	})
	edit("embed-other-content", func(sd *dnode) bool { // detached blob gets some content attached
		ci := sd.at(2)
		if ci == nil || len(ci.children) != 1 {
			return false
		}
		ci.children = append(ci.children, &dnode{tag: 0xa0, children: []*dnode{{tag: 0x04, val: randBytes(rng, 20)}}})
		return true
	})
	edit("replace-contenttype", func(sd *dnode) bool {
		o := sd.at(2, 0)
		if o == nil {
			return false
		}
		o.val = []byte{0x2a, 0x86, 0x48, 0x86, 0xf7, 0x0d, 0x01, 0x07, 0x01}
		return true
	})
	edit("replace-certificates", func(sd *dnode) bool {
		for _, ch := range sd.children {
			if ch.tag == 0xa0 {
				other := simpleCert(rsaKey(2048, 2), "swapped in", 4242)
				ch.children = nil
				ch.val = other.Raw
				return true
			}
		}
		return false
	})
	edit("drop-certificates", func(sd *dnode) bool {
		for i, ch := range sd.children {
			if ch.tag == 0xa0 {
				sd.children = append(sd.children[:i], sd.children[i+1:]...)
				return true
			}
		}
		return false
	})
	edit("replace-signature", func(sd *dnode) bool {
		sis := signerInfos(sd)
		if sis == nil || len(sis.children) == 0 {
			return false
		}
		si := sis.children[0]
		last := si.children[len(si.children)-1]
		if last.tag != 0x04 {
			return false
		}
		last.val = append([]byte{}, last.val...)
		last.val[rng.Intn(len(last.val))] ^= 0x80
		return true
	})
	edit("replace-signer-serial", func(sd *dnode) bool {
		sis := signerInfos(sd)
		if sis == nil || len(sis.children) == 0 {
			return false
		}
		ser := sis.children[0].at(1, 1)
		if ser == nil || ser.tag != 0x02 {
			return false
		}
		ser.val = []byte{0x01, 0x02, 0x03}
		return true
	})
	// the same magnitude with another sign or a non-minimal form names another (or no) serial
	serialEdit := func(name string, f func(v []byte) []byte) {
		edit(name, func(sd *dnode) bool {
			sis := signerInfos(sd)
			if sis == nil || len(sis.children) == 0 {
				return false
			}
			ser := sis.children[0].at(1, 1)
			if ser == nil || ser.tag != 0x02 || len(ser.val) == 0 {
				return false
			}
			nv := f(append([]byte{}, ser.val...))
			if nv == nil {
				return false
			}
			ser.val = nv
			return true
		})
	}
	serialEdit("signer-serial-drop-leading-zero", func(v []byte) []byte {
		if len(v) < 2 || v[0] != 0 {
			return nil
		}
		return v[1:]
	})
	serialEdit("signer-serial-add-leading-zero", func(v []byte) []byte { return append([]byte{0}, v...) })
	serialEdit("signer-serial-sign-extend", func(v []byte) []byte { return append([]byte{0xff}, v...) })
	serialEdit("signer-serial-flip-sign", func(v []byte) []byte { v[0] ^= 0x80; return v })
	edit("no-signers", func(sd *dnode) bool { // an empty signerInfos SET is legal
		sis := signerInfos(sd)
		if sis == nil {
			return false
		}
		sis.children, sis.val = []*dnode{}, []byte{}
		return true
	})
	edit("duplicate-signer", func(sd *dnode) bool {
		sis := signerInfos(sd)
		if sis == nil || len(sis.children) == 0 {
			return false
		}
		sis.children = append(sis.children, sis.children[0].clone())
		return true
	})
	edit("bad-signer-first", func(sd *dnode) bool { // a broken copy of the signer in front of the good one
		sis := signerInfos(sd)
		if sis == nil || len(sis.children) == 0 {
			return false
		}
		bad := sis.children[0].clone()
		last := bad.children[len(bad.children)-1]
		last.val = append([]byte{}, last.val...)
		last.val[0] ^= 1
		sis.children = append([]*dnode{bad}, sis.children...)
		return true
	})
	// fields that no signature covers
	otherAlg := func(alg *dnode) bool { // AlgorithmIdentifier: change the last arc of the OID
		if alg == nil {
			return false
		}
		o := alg.at(0)
		if o == nil || o.tag != 0x06 || len(o.val) == 0 {
			return false
		}
		o.val = append([]byte{}, o.val...)
		o.val[len(o.val)-1]++
		return true
	}
	edit("signer-digestalg-other", func(sd *dnode) bool {
		sis := signerInfos(sd)
		if sis == nil || len(sis.children) == 0 {
			return false
		}
		return otherAlg(sis.children[0].at(2))
	})
	edit("signeddata-digestalgs-other", func(sd *dnode) bool { return otherAlg(sd.at(1, 0)) })
	edit("signer-encalg-other", func(sd *dnode) bool {
		sis := signerInfos(sd)
		if sis == nil || len(sis.children) == 0 {
			return false
		}
		si := sis.children[0]
		for i, ch := range si.children {
			if ch.tag == 0xa0 && i+1 < len(si.children) {
				return otherAlg(si.children[i+1])
			}
		}
		return false
	})
	edit("trailing-garbage-in-signeddata", func(sd *dnode) bool {
		sd.children = append(sd.children, &dnode{tag: 0x04, val: randBytes(rng, 5)})
		return true
	})
	// Authenticode: replace the PE digest inside SpcIndirectDataContent and, to
	// make the forgery self-consistent, nothing else (messageDigest then mismatches)
	// Authenticode: the DigestInfo names another algorithm (legacy SHA-1 signatures do)
	edit("spc-digest-alg-sha1", func(sd *dnode) bool {
		o := sd.at(2, 1, 0, 1, 0, 0)
		if o == nil || o.tag != 0x06 {
			return false
		}
		o.val = []byte{0x2b, 0x0e, 0x03, 0x02, 0x1a}
		if d := sd.at(2, 1, 0, 1, 1); d != nil && d.tag == 0x04 && rng.Intn(2) == 0 {
			d.val = randBytes(rng, 20)
		}
		return true
	})
	// CMS version 3 signer identified by a subjectKeyIdentifier instead of issuer and serial
	edit("signer-sid-subjectkeyid", func(sd *dnode) bool {
		sis := signerInfos(sd)
		if sis == nil || len(sis.children) == 0 || len(sis.children[0].children) < 2 {
			return false
		}
		si := sis.children[0]
		if v := si.children[0]; v.tag == 0x02 {
			v.val = []byte{3}
		}
		si.children[1] = &dnode{tag: 0x80, val: randBytes(rng, 20)}
		return true
	})
	edit("spc-digest-swap", func(sd *dnode) bool {
		d := sd.at(2, 1, 0, 1, 1)
		if d == nil || d.tag != 0x04 || len(d.val) != 32 {
			return false
		}
		d.val = randBytes(rng, 32)
		return true
	})
	// the optional unauthenticatedAttributes [1] behind the signature: nothing signs them
	unauth := func(sd *dnode, attrs ...*dnode) bool {
		sis := signerInfos(sd)
		if sis == nil || len(sis.children) == 0 {
			return false
		}
		si := sis.children[0]
		if last := si.children[len(si.children)-1]; last.tag != 0x04 {
			return false
		}
		si.children = append(si.children, &dnode{tag: 0xa1, children: attrs})
		return true
	}
	attr := func(oid []byte, val *dnode) *dnode {
		return &dnode{tag: 0x30, children: []*dnode{{tag: 0x06, val: oid}, {tag: 0x31, children: []*dnode{val}}}}
	}
	edit("unauthenticated-attribute-unknown", func(sd *dnode) bool {
		// a countersignature-like attribute, as timestamping tools add
		return unauth(sd, attr([]byte{0x2a, 0x86, 0x48, 0x86, 0xf7, 0x0d, 0x01, 0x09, 0x06}, &dnode{tag: 0x04, val: randBytes(rng, 24)}))
	})
	edit("unauthenticated-messagedigest", func(sd *dnode) bool { return addUnauthMessageDigest(sd, rng.Intn(2) == 0) })
	edit("signature-add-leading-zero", func(sd *dnode) bool {
		sis := signerInfos(sd)
		if sis == nil || len(sis.children) == 0 {
			return false
		}
		si := sis.children[0]
		last := si.children[len(si.children)-1]
		if last.tag != 0x04 {
			return false
		}
		last.val = append(make([]byte, 1+rng.Intn(7)), last.val...)
		return true
	})
	edit("signature-strip-leading-octet", func(sd *dnode) bool {
		sis := signerInfos(sd)
		if sis == nil || len(sis.children) == 0 {
			return false
		}
		si := sis.children[0]
		last := si.children[len(si.children)-1]
		if last.tag != 0x04 || len(last.val) < 2 {
			return false
		}
		last.val = append([]byte{}, last.val[1:]...)
		return true
	})
	// an element that is cut short inside one of the containers (its length overruns the container,
	// or only its first octets are there): everything in front of it is complete
	incomplete := func(class string, find func(sd *dnode) *dnode) {
		edit("incomplete-element-in-"+class, func(sd *dnode) bool {
			n := find(sd)
			if n == nil || n.children == nil {
				return false
			}
			var body []byte
			for _, ch := range n.children {
				body = append(body, ch.encode()...)
			}
			tail := pick(rng, [][]byte{{0x30, 0x10, 0x02, 0x01, 0x01}, {0x30}, {0x30, 0x82, 0x01}, {0x02, 0x05, 0x01}, {0x31, 0x81}})
			n.val, n.children = append(body, tail...), nil
			return true
		})
	}
	incomplete("signerinfos", signerInfos)
	incomplete("signed-attributes", attrsOf)
	incomplete("digest-algorithms", func(sd *dnode) *dnode { return sd.at(1) })
	incomplete("certificates", func(sd *dnode) *dnode {
		for i, ch := range sd.children {
			if ch.tag == 0xa0 && i >= 3 {
				return ch
			}
		}
		return nil
	})
	add("truncated", s.blob[:rng.Intn(len(s.blob))])
	add("appended", append(append([]byte{}, s.blob...), randBytes(rng, 1+rng.Intn(8))...))
	for _, content := range []string{"replace-content", "replace-content-with-empty", "spc-digest-swap", "replace-messagedigest"} {
		for _, free := range []string{"signer-digestalg-other", "signeddata-digestalgs-other", "signer-encalg-other", "drop-certificates", "unauthenticated-messagedigest"} {
			compound(content, free)
		}
	}
	return out
}

type timeHolder struct{ t timeT }

// addUnauthMessageDigest appends unauthenticatedAttributes [1] to the first signer entry of a
// SignedData node: a messageDigest of the content as it is now (and optionally a contentType),
// where no signature covers them.
func addUnauthMessageDigest(sd *dnode, withContentType bool) bool {
	var sis *dnode
	for i, ch := range sd.children {
		if ch.tag == 0x31 && i >= 2 {
			sis = ch
		}
	}
	if sis == nil || len(sis.children) == 0 {
		return false
	}
	si := sis.children[0]
	if last := si.children[len(si.children)-1]; last.tag != 0x04 {
		return false
	}
	attr := func(oid []byte, val *dnode) *dnode {
		return &dnode{tag: 0x30, children: []*dnode{{tag: 0x06, val: oid}, {tag: 0x31, children: []*dnode{val}}}}
	}
	ci := sd.at(2)
	var content []byte
	if ci != nil && len(ci.children) >= 2 && len(ci.children[1].children) > 0 {
		inner := ci.children[1].children[0]
		enc := inner.encode()
		// the digest is over the value octets: drop tag and length
		hl := len(enc) - len(inner.val)
		if inner.children != nil {
			n := 0
			for _, ch := range inner.children {
				n += len(ch.encode())
			}
			hl = len(enc) - n
		}
		content = enc[hl:]
	}
	d := sha256.Sum256(content)
	as := []*dnode{attr([]byte{0x2a, 0x86, 0x48, 0x86, 0xf7, 0x0d, 0x01, 0x09, 0x04}, &dnode{tag: 0x04, val: d[:]})}
	if o := sd.at(2, 0); o != nil && withContentType {
		as = append(as, attr([]byte{0x2a, 0x86, 0x48, 0x86, 0xf7, 0x0d, 0x01, 0x09, 0x03}, &dnode{tag: 0x06, val: o.val}))
	}
	si.children = append(si.children, &dnode{tag: 0xa1, children: as})
	return true
}
