package main

import (
	"bytes"
	"errors"
	"fmt"
	"math/rand"
	"strings"

	"github.com/foxboron/go-uefi/efi/attributes"
	efs "github.com/foxboron/go-uefi/efi/fs"
	"github.com/foxboron/go-uefi/efi/util"
	"github.com/foxboron/go-uefi/efivar"
	"github.com/foxboron/go-uefi/efivarfs"
	"github.com/foxboron/go-uefi/efivarfs/fswrapper"
	"github.com/spf13/afero"
)

// rawValue is a Marshallable of arbitrary bytes.
type rawValue []byte

func (r rawValue) Marshal(b *bytes.Buffer) { b.Write(r) }
func (r rawValue) Bytes() []byte           { return []byte(r) }

// recDecoder records what reaches Unmarshal.
type recDecoder struct {
	called bool
	got    []byte
}

func (d *recDecoder) Unmarshal(b *bytes.Buffer) error {
	d.called = true
	d.got = append([]byte{}, b.Bytes()...)
	return nil
}

var predefinedVars = []efivar.Efivar{efivar.SecureBoot, efivar.SetupMode, efivar.PK, efivar.PKDefault, efivar.KEK, efivar.KEKDefault,
	efivar.Db, efivar.DbDefault, efivar.Dbx, efivar.DbxDefault, efivar.BootCurrent, efivar.BootNext, efivar.BootOrder, efivar.BootEntry,
	efivar.LoaderTimeInitUSec, efivar.LoaderTimeExecUSec, efivar.LoaderDevicePartUUID, efivar.LoaderConfigTimeout,
	efivar.LoaderConfigTimeoutOneShot, efivar.LoaderEntries, efivar.LoaderEntryDefault, efivar.LoaderEntryOneShot,
	efivar.LoaderEntrySelected, efivar.LoaderFeatures, efivar.LoaderSystemToken}

func genVar(rng *rand.Rand) (efivar.Efivar, string) {
	if rng.Intn(2) == 0 {
		return pick(rng, predefinedVars), "predefined"
	}
	g, _ := genGUID(rng)
	name := make([]byte, 1+rng.Intn(20))
	const al = "abcdefghijklmnopqrstuvwxyzABCDEFGHIJKLMNOPQRSTUVWXYZ0123456789_"
	for i := range name {
		name[i] = al[rng.Intn(len(al))]
	}
	return efivar.Efivar{Name: string(name), GUID: &g, Attributes: attributes.Attributes(rng.Intn(256))}, "arbitrary"
}

func genValue(rng *rand.Rand) ([]byte, string) {
	switch rng.Intn(5) {
	case 0:
		return []byte{}, "empty"
	case 1:
		return []byte{byte(rng.Intn(2))}, "bool"
	case 2:
		rs, _ := genString(rng, 20)
		return util.MarshalUtf16Var(string(rs)), "string"
	case 3:
		s, _ := genWfStream(rng, 3, 200)
		return s, "database"
	default:
		if rng.Intn(12) == 0 {
			// values around and beyond 4 KiB (buffer sizes of buffered writers and readers)
			return randBytes(rng, pick(rng, []int{4091, 4092, 4093, 4096, 8192, 20000})), "raw-large"
		}
		return randBytes(rng, rng.Intn(300)), "raw"
	}
}

var efivarsDirs = []string{"/sys/firmware/efi/efivars", "/e", "/tmp/x/efivars", "/a/b/c/d"}

func init() {
	// write through the object API or a legacy function; report success and state-changing calls
	implOps["var_write"] = func(a []string) []string {
		api, dir, name, g := a[0], string(unhx(a[1])), string(unhx(a[2])), parseGuidArg(a[3])
		var attrs uint32
		fmt.Sscan(a[4], &attrs)
		value := unhx(a[5])
		attributes.Efivars = "/elsewhere/efivars"
		preW := fswrapper.NewMemoryWrapper()
		attributes.Efivars = dir
		rec := newRecFs(afero.NewMemMapFs())
		rec.plan.shortFirstWrite = len(a) > 8 && a[8] == "short"
		if a[6] != "-" { // pre-existing content
			afero.WriteFile(rec.base, a[7], unhx(a[6]), 0644)
		}
		var err error
		switch api {
		case "object":
			e := &efivarfs.EFIFS{FSWrapper: preW}
			e.SetFS(rec)
			err = e.WriteVar(efivar.Efivar{Name: name, GUID: &g, Attributes: attributes.Attributes(attrs)}, rawValue(value))
		case "wrapper":
			w := fswrapper.NewMemoryWrapper()
			w.SetFS(rec)
			err = w.WriteEfivarsWithGuid(name, attributes.Attributes(attrs), value, g)
		case "legacy-guid":
			efs.SetFS(rec)
			err = attributes.WriteEfivarsWithGuid(name, attributes.Attributes(attrs), value, g)
		case "legacy":
			efs.SetFS(rec)
			err = attributes.WriteEfivars(name, attributes.Attributes(attrs), value)
		}
		return []string{b01(err == nil), strings.Join(rec.trace, "&")}
	}
	implOps["var_read"] = func(a []string) []string {
		api, dir, name, g := a[0], string(unhx(a[1])), string(unhx(a[2])), parseGuidArg(a[3])
		var req uint32
		fmt.Sscan(a[4], &req)
		// the objects are made while the directory variable still names another place
		attributes.Efivars = "/elsewhere/efivars"
		preW := fswrapper.NewMemoryWrapper()
		attributes.Efivars = dir
		rec := newRecFs(afero.NewMemMapFs())
		rec.plan.halfReads = len(a) > 7 && a[7] == "half"
		if a[5] != "-" {
			afero.WriteFile(rec.base, a[6], unhx(a[5]), 0644)
		}
		dec := &recDecoder{}
		var err error
		var at attributes.Attributes
		switch api {
		case "object":
			e := &efivarfs.EFIFS{FSWrapper: preW}
			e.SetFS(rec)
			if len(a[5])%4 == 2 || a[5] == "-" {
				// the same object has read this variable before, when the file held something else; the
				// firmware (here: a write that does not pass through the library) has changed or removed it since
				v := efivar.Efivar{Name: name, GUID: &g, Attributes: attributes.Attributes(req)}
				afero.WriteFile(rec.base, a[6], append([]byte{byte(req), byte(req >> 8), byte(req >> 16), byte(req >> 24)}, []byte("an earlier value")...), 0644)
				e.GetVarWithAttributes(v, &recDecoder{})
				e.GetVar(v, &recDecoder{})
				if a[5] != "-" {
					afero.WriteFile(rec.base, a[6], unhx(a[5]), 0644)
				} else {
					rec.base.Remove(a[6])
				}
			}
			at, err = e.GetVarWithAttributes(efivar.Efivar{Name: name, GUID: &g, Attributes: attributes.Attributes(req)}, dec)
		case "object-getvar":
			e := &efivarfs.EFIFS{FSWrapper: fswrapper.NewMemoryWrapper()}
			e.SetFS(rec)
			err = e.GetVar(efivar.Efivar{Name: name, GUID: &g, Attributes: attributes.Attributes(req)}, dec)
			if err == nil && len(a[5]) >= 8 { // GetVar does not return the attributes
				b := unhx(a[5])
				at = attributes.Attributes(uint32(b[0]) | uint32(b[1])<<8 | uint32(b[2])<<16 | uint32(b[3])<<24)
			}
		case "legacy-guid", "legacy", "legacy-file":
			efs.SetFS(rec)
			var buf *bytes.Buffer
			switch api {
			case "legacy-guid":
				at, buf, err = attributes.ReadEfivarsWithGuid(name, g)
			case "legacy":
				at, buf, err = attributes.ReadEfivars(name)
			default:
				at, buf, err = attributes.ReadEfivarsFile(a[6])
			}
			if err == nil {
				dec.called, dec.got = true, buf.Bytes()
			}
		}
		switch {
		case err == nil:
			return []string{fmt.Sprintf("D~%d~%s", uint32(at), hx(dec.got))}
		case errors.Is(err, efivarfs.ErrIncorrectAttributes):
			return []string{"A~" + b01(dec.called)}
		default:
			return []string{"E~" + b01(dec.called)}
		}
	}
	checkers["C11"] = checker{
		rule: "every predefined variable and random name/GUID/attribute combinations, values of every kind (empty, boolean, UTF-16 string, database, raw), all 256 attribute masks on writes, stored masks that are supersets / subsets / disjoint / equal / lacking exactly one required bit on reads, absent and 0..3-byte files, four efivars directories (set after the objects were constructed), files that deliver short reads, files changed or removed behind the library's back after the same object had read them, the object API (EFIFS.WriteVar/GetVar/GetVarWithAttributes, FSWrapper) and the legacy attributes.* functions; a recording afero.Fs reports every state-changing call; R_C11 (extracted) requires success with exactly OpenFile(path, flags)+Write(attrs||value) (and, when the file system stores one byte less without an error, the same single Write and no success) resp. the model's read result; every case is non-trivial (no degenerate class), distinct by argument hash",
		run:  runC11,
	}
}

func legacyGUID(name string) util.EFIGUID {
	if attributes.ImageSecurityDatabases[name] {
		return attributes.EFI_IMAGE_SECURITY_DATABASE_GUID
	}
	return attributes.EFI_GLOBAL_VARIABLE
}

func runC11(c *Ctx) {
	rng := c.Rng
	pathOf := func(dir, name string, g util.EFIGUID) string { return dir + "/" + name + "-" + g.Format() }
	doWrite := func(api string, v efivar.Efivar, dir string, attrs uint32, value []byte, class string) {
		g := *v.GUID
		if api == "legacy" {
			g = legacyGUID(v.Name)
		}
		pre, prePath := "-", pathOf(dir, v.Name, g)
		if rng.Intn(3) == 0 {
			pre = hx(randBytes(rng, rng.Intn(40)))
		}
		o := c.Impl("var_write", api, hx([]byte(dir)), hx([]byte(v.Name)), guidArg(g), fmt.Sprint(attrs), hx(value), pre, prePath)
		ok, trace := "0", "X~worker-"+o.Class
		if o.Class == "ret" && len(o.Fields) == 2 {
			ok, trace = o.Fields[0], o.Fields[1]
		}
		args := []string{hx([]byte(dir)), hx([]byte(v.Name)), guidArg(g), fmt.Sprint(attrs), hx(value), ok, trace}
		vd, info := c.Drv.Eval("var_write", args...)
		c.Rep.Record("var_write/"+api, class, true, prePath, args, vd, info, map[string]string{"api": api})
		if rng.Intn(8) == 0 {
			// the file system takes one byte less than it was given and reports no error: still
			// exactly one Write of attrs||value, and no success
			o := c.Impl("var_write", api, hx([]byte(dir)), hx([]byte(v.Name)), guidArg(g), fmt.Sprint(attrs), hx(value), pre, prePath, "short")
			ok, trace := "1", "X~worker-"+o.Class
			if o.Class == "ret" && len(o.Fields) == 2 {
				ok, trace = o.Fields[0], o.Fields[1]
			}
			args := []string{hx([]byte(dir)), hx([]byte(v.Name)), guidArg(g), fmt.Sprint(attrs), hx(value), ok, trace}
			vd, info := c.Drv.Eval("var_write_short", args...)
			c.Rep.Record("var_write_short/"+api, class, true, prePath, args, vd, info, map[string]string{"api": api})
		}
	}
	doRead := func(api string, name string, g util.EFIGUID, dir string, req uint32, content []byte, absent bool, class string) {
		if api == "legacy" {
			g = legacyGUID(name)
		}
		p := pathOf(dir, name, g)
		cont := "-"
		if !absent {
			cont = hx(content)
		}
		// one read in four goes through a file that delivers at most half of every request
		o := c.Impl("var_read", api, hx([]byte(dir)), hx([]byte(name)), guidArg(g), fmt.Sprint(req), cont, p, pick(rng, []string{"", "", "", "half"}))
		obs := "E~1"
		if o.Class == "ret" && len(o.Fields) == 1 {
			obs = o.Fields[0]
		}
		mreq := req
		drvAPI := "object"
		if strings.HasPrefix(api, "legacy") {
			mreq, drvAPI = 0, "legacy"
		}
		args := []string{cont, fmt.Sprint(mreq), drvAPI, obs}
		vd, info := c.Drv.Eval("var_read", args...)
		c.Rep.Record("var_read/"+api, class, true, p, args, vd, info, map[string]string{"api": api})
	}
	// exhaustive: every predefined variable x all 64 masks over the six defined low bits (+ bit 6, 7)
	for _, v := range predefinedVars {
		for m := uint32(0); m < 256; m += 1 {
			if c.Quick() && m%4 != 0 && m != 0x27 && m != 0x67 && m != 0x47 {
				continue
			}
			value, _ := genValue(rng)
			doWrite(pick(rng, []string{"object", "wrapper", "legacy-guid"}), v, pick(rng, efivarsDirs), m, value, "predefined-x-mask")
			// read with the definition's own mask against a stored mask m
			content := append([]byte{byte(m), 0, 0, 0}, value...)
			doRead(pick(rng, []string{"object", "object-getvar"}), v.Name, *v.GUID, pick(rng, efivarsDirs), uint32(v.Attributes), content, false, "predefined-x-stored-mask")
		}
	}
	// exhaustive: every required mask over the eight low bits x each single required bit missing from the stored mask
	for req := uint32(1); req < 256; req++ {
		for b := uint32(1); b < 256; b <<= 1 {
			if req&b == 0 || (c.Quick() && (req*7+b)%3 != 0) {
				continue
			}
			g, _ := genGUID(rng)
			value, _ := genValue(rng)
			stored := req &^ b
			content := append([]byte{byte(stored), 0, 0, 0}, value...)
			doRead(pick(rng, []string{"object", "object-getvar"}), "Var", g, efivarsDirs[0], req, content, false, "exhaustive-one-required-bit-missing")
		}
	}
	n := c.N(600, 100000)
	for i := 0; i < n; i++ {
		v, vclass := genVar(rng)
		value, kind := genValue(rng)
		dir := pick(rng, efivarsDirs)
		api := pick(rng, []string{"object", "wrapper", "legacy-guid", "legacy"})
		attrs := uint32(v.Attributes)
		if rng.Intn(3) == 0 {
			attrs |= 0x40
		}
		if rng.Intn(5) == 0 {
			attrs = rng.Uint32()
		}
		doWrite(api, v, dir, attrs, value, vclass+"/"+kind)
		// reads
		req := uint32(v.Attributes)
		var stored uint32
		rclass := ""
		switch rng.Intn(6) {
		case 5:
			// exactly one required bit is missing from the stored mask (and some others may be extra)
			stored, rclass = req, "one-required-bit-missing"
			if req == 0 {
				req = 1 << uint(rng.Intn(8))
				v.Attributes = attributes.Attributes(req)
				stored = 0
			} else {
				bits := []uint32{}
				for b := uint32(1); b < 256; b <<= 1 {
					if req&b != 0 {
						bits = append(bits, b)
					}
				}
				stored = (req &^ pick(rng, bits)) | uint32(rng.Intn(256))&^req
			}
		case 0:
			stored, rclass = req, "equal"
		case 1:
			stored, rclass = req|uint32(rng.Intn(256)), "superset"
		case 2:
			stored, rclass = req&uint32(rng.Intn(256)), "subset"
		case 3:
			stored, rclass = ^req&0xff, "disjoint"
		default:
			stored, rclass = rng.Uint32(), "random32"
		}
		content := append([]byte{byte(stored), byte(stored >> 8), byte(stored >> 16), byte(stored >> 24)}, value...)
		rapi := pick(rng, []string{"object", "object-getvar", "legacy-guid", "legacy", "legacy-file"})
		doRead(rapi, v.Name, *v.GUID, dir, req, content, false, rclass+"/"+kind)
		switch rng.Intn(4) {
		case 0:
			doRead(rapi, v.Name, *v.GUID, dir, req, nil, true, "absent")
		case 1:
			doRead(rapi, v.Name, *v.GUID, dir, req, content[:rng.Intn(4)], false, "short-file")
			// ... also for a definition that requires no attribute at all
			doRead(rapi, v.Name, *v.GUID, dir, 0, content[:rng.Intn(4)], false, "short-file/no-required-attributes")
		}
	}
}
