package main

import (
	"bytes"
	"crypto"
	"crypto/sha256"
	"debug/pe"
	"fmt"
	"os"
	"path/filepath"

	"github.com/foxboron/go-uefi/authenticode"
)

func init() {
	// worker: parse an image; report acceptance, the hash pre-image (hook), Hash and Bytes
	implOps["pe_parse"] = func(a []string) []string {
		img := unhx(a[0])
		_, peErr := pe.NewFile(bytes.NewReader(img))
		peOK := b01(peErr == nil)
		// the reader may have been looked at before (a caller checking for "MZ"): ReadAt does not care
		rd := bytes.NewReader(img)
		if len(img) > 4 && img[3]%2 == 0 {
			rd.Read(make([]byte, 2+int(img[3]%7)))
		}
		p, err := authenticode.Parse(rd)
		if err != nil {
			return []string{peOK, "err"}
		}
		// digests of other algorithms were asked for before
		if len(img) > 5 && img[5]%2 == 0 {
			p.Hash(crypto.SHA1)
			p.Hash(crypto.SHA512)
		}
		// other objects come and go between parsing this image and using it: the image the
		// worker saw before is parsed, hashed and signed again now
		otherObjects()
		rememberImage(img)
		pre, perr := p.VerifHashContent()
		h := p.Hash(crypto.SHA256)
		preS := "nil"
		if perr == nil {
			preS = "x" + hx(pre)
			want := sha256.Sum256(pre)
			if !bytes.Equal(h, want[:]) {
				return []string{peOK, "hash-differs-from-preimage"}
			}
		} else if h != nil {
			return []string{peOK, "hash-despite-read-error"}
		}
		return []string{peOK, "ok", preS, hx(p.Bytes()), hx(h)}
	}
	checkers["C01"] = checker{
		rule: "synthetic PE32 / PE32+ images built by an independent encoder from a layout description (e_lfanew 64..512 aligned or not, 5..16 data directories, 0..12 sections in permuted file order incl. zero-size sections pointing anywhere, optional gaps, header slack, 0..300 trailing bytes, length mod 8 in 0..7, optional certificate table of 1..3 entries) plus the repository's PE fixtures; per image k single-byte changes drawn from every region class (DOS header, e_lfanew, COFF header, optional header before/after the checksum, checksum, certificate directory entry, other directories, section table, slack, sections, trailing data, certificate table); the implementation reports acceptance, the hash pre-image (verif hook; Hash()=SHA-256(pre-image) is checked on the Go side) and Bytes(); R_C01 (extracted) requires, for every image satisfying wf_image, acceptance and pre-image = spec_content, and for flip pairs of well-formed images that the digest changes iff the position is covered; non-trivial = wf_image holds and the image has at least two non-empty sections or trailing data; distinct by image hash",
		run:  runC01,
	}
}

// the image of an earlier worker call: parsing, hashing, serialising and signing it again must
// not disturb any other object
var earlierImage []byte

func rememberImage(img []byte) {
	if len(img) < 20000 {
		earlierImage = append([]byte{}, img...)
	}
}

func otherObjects() {
	if earlierImage == nil {
		return
	}
	if q, err := authenticode.Parse(bytes.NewReader(earlierImage)); err == nil {
		q.Hash(crypto.SHA256)
		q.Bytes()
		q.Signatures()
		k := rsaKey(2048, 3)
		q.Sign(k, simpleCert(k, "attacker", 666))
		q.Bytes()
	}
}

func (c *Ctx) evalPE(class string, img []byte) (ok bool, pre string, info []string) {
	o := c.Impl("pe_parse", hx(img))
	f := o.Fields
	if o.Class != "ret" || len(f) < 2 {
		f = []string{"0", o.Class}
	}
	args := []string{hx(img), f[0], f[1]}
	if f[1] == "ok" && len(f) >= 4 {
		args = append(args, f[2], f[3])
		pre = f[2]
	} else {
		args = append(args, "-", "-")
	}
	v, info := c.Drv.Eval("pe_parse", args...)
	nt := len(info) > 0 && info[0] == "1"
	c.Rep.Record("pe_parse", class, nt, fmt.Sprintf("%d-byte image", len(img)), args, v, info, map[string]string{"class": class})
	return f[1] == "ok", pre, info
}

func peFixtures() map[string][]byte {
	out := map[string][]byte{}
	fs, _ := filepath.Glob("/repo/tests/data/binary/*")
	for _, f := range fs {
		if b, err := os.ReadFile(f); err == nil && len(b) > 0 && len(b) < 3<<20 {
			out[filepath.Base(f)] = b
		}
	}
	return out
}

func runC01(c *Ctx) {
	rng := c.Rng
	for name, b := range peFixtures() {
		if len(b) > 200000 && c.Quick() {
			continue // the extracted model walks the image byte by byte
		}
		c.evalPE("fixture:"+name, b)
	}
	n := c.N(250, 5000)
	flips := c.Bound(14, 60)
	for i := 0; i < n; i++ {
		spec := genPESpec(rng, c.Bound(120, 600))
		if i < 8 {
			// directed: layouts in which a hashed range is empty -- the headers end right behind the
			// certificate-table entry (five directories, no sections or only empty ones, no slack)
			spec.nrva, spec.sohSlack, spec.gaps = 5, 0, nil
			spec.plus = i%2 == 0
			spec.sections, spec.fileOrder = nil, nil
			if i >= 4 {
				spec.sections, spec.fileOrder = []peSection{{size: 0}}, []int{0}
				spec.gaps = []int{0}
			}
			if spec.trailing == 0 {
				spec.trailing = 40 + rng.Intn(100)
			}
			if i%4 >= 2 {
				spec.certs = nil
			}
		}
		if i%16 == 9 {
			// a table whose last entry was left unpadded by its producer: the directory Size is not a
			// multiple of 8 (outside wf_image; Parse, the pre-image and Bytes() must still be the model's)
			if len(spec.certs) == 0 {
				spec.certs = [][]byte{randBytes(rng, 1+rng.Intn(120))}
			}
			spec.certUnpadded = true
			if spec.trailing == 0 {
				spec.trailing = 1 + rng.Intn(40)
			}
		}
		im := spec.build(rng)
		class := fmt.Sprintf("pe32plus=%v/sections=%d/table=%v", spec.plus, len(spec.sections), len(spec.certs) > 0)
		if spec.certUnpadded {
			class += "/unpadded"
		}
		ok, pre, info := c.evalPE("synthetic/"+class, im.bytes)
		if !ok || len(info) == 0 || info[0] != "1" {
			continue
		}
		// flips: one position from every region class, then random ones
		for k := 0; k < flips; k++ {
			var r peRegion
			if k < len(im.regions) {
				r = im.regions[k]
			} else {
				r = pick(rng, im.regions)
			}
			if r.end <= r.start {
				continue
			}
			pos := r.start + rng.Intn(r.end-r.start)
			m := append([]byte{}, im.bytes...)
			m[pos] ^= byte(1 + rng.Intn(255))
			o := c.Impl("pe_parse", hx(m))
			f := o.Fields
			mpre, st, peok2 := "-", o.Class, "0"
			if o.Class == "ret" && len(f) >= 2 {
				st = f[1]
				peok2 = f[0]
				if f[1] == "ok" && len(f) >= 4 {
					mpre = f[2]
				}
			}
			args := []string{hx(im.bytes), fmt.Sprint(pos), hx(m[pos : pos+1]), pre, peok2, st, mpre}
			v, info := c.Drv.Eval("pe_flip", args...)
			nt := len(info) > 0 && info[0] == "1"
			cls := r.name
			if len(info) > 1 {
				cls += "/" + info[1]
			}
			c.Rep.Record("pe_flip", cls, nt, fmt.Sprintf("position %d of %d", pos, len(m)), args, v, info, map[string]string{"region": r.name})
		}
	}
}

func peAccepts(img []byte) bool {
	_, err := pe.NewFile(bytes.NewReader(img))
	return err == nil
}
