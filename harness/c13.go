package main

import (
	"bytes"
	"crypto"
	"crypto/x509"
	"encoding/binary"
	"fmt"
	"io"
	"math/rand"
	"strconv"

	"github.com/foxboron/go-uefi/authenticode"
	"github.com/foxboron/go-uefi/efi/signature"
	"github.com/foxboron/go-uefi/pkcs7"
)

// Entry points that take an untrusted image or signature. a[1] is a certificate (DER).
var c13Entries = map[string]func(in []byte, cert *x509.Certificate){
	"authenticode.Parse+all": func(in []byte, cert *x509.Certificate) {
		cr := &countingReaderAt{r: bytes.NewReader(in)}
		p, err := authenticode.Parse(cr)
		c13ParseRead = cr.n
		if err != nil {
			return
		}
		p.Signatures()
		p.Hash(crypto.SHA256)
		p.Bytes()
		io.Copy(io.Discard, p.Open())
		p.Verify(cert)
	},
	"authenticode.ParseAuthenticode+Verify": func(in []byte, cert *x509.Certificate) {
		a, err := authenticode.ParseAuthenticode(in)
		if err != nil {
			return
		}
		a.Verify(cert, bytes.NewReader([]byte("image")))
	},
	"pkcs7.ParsePKCS7+Verify": func(in []byte, cert *x509.Certificate) {
		p, err := pkcs7.ParsePKCS7(in)
		if err != nil {
			return
		}
		p.Verify(cert)
		p.HasCertificate(cert)
	},
	"signature.ReadWinCertificate": func(in []byte, cert *x509.Certificate) {
		signature.ReadWinCertificate(bytes.NewReader(in))
	},
	"auth2.Verify": func(in []byte, cert *x509.Certificate) {
		a, err := signature.ReadEFIVariableAuthencation2(bytes.NewReader(in))
		if err != nil {
			return
		}
		a.Verify(cert)
	},
}

// countingReaderAt counts the bytes a consumer asks its source for.
type countingReaderAt struct {
	r io.ReaderAt
	n int64
}

func (c *countingReaderAt) ReadAt(p []byte, off int64) (int, error) {
	n, err := c.r.ReadAt(p, off)
	c.n += int64(n)
	return n, err
}

// the number of bytes the last Parse read from its source
var c13ParseRead int64

func init() {
	implOps["c13"] = func(a []string) []string {
		f, ok := c13Entries[a[0]]
		if !ok {
			return []string{"unknown-entry"}
		}
		cert, err := x509.ParseCertificate(unhx(a[2]))
		if err != nil {
			return []string{"bad-cert"}
		}
		c13ParseRead = -1
		f(unhx(a[1]), cert)
		return []string{"done", fmt.Sprint(c13ParseRead)}
	}
	checkers["C13"] = checker{
		rule: "for each entry point taking an untrusted image or signature (Parse + Signatures/Hash/Bytes/Open/Verify, ParseAuthenticode + Verify, ParsePKCS7 + Verify/HasCertificate, ReadWinCertificate, descriptor Verify): structure-aware mutations of valid images (e_lfanew, optional-header size, NumberOfRvaAndSizes, SizeOfHeaders, section offsets/sizes incl. overlapping and beyond EOF, hundreds of sections covering the same bytes, a certificate table ending unpadded after an entry whose dwLength is not a multiple of 8, certificate directory beyond the file, every truncation class, WIN_CERTIFICATE dwLength below 8 and huge) and of valid signatures (truncated and oversized DER lengths, signed attributes absent, attributes without contentType, unknown OIDs, every DER-structural edit of C04) plus random bytes; one sandboxed worker call per (entry point, input) reporting return/panic/exit/timeout and the TotalAlloc delta; thousands of one-byte sections; R_C13 (extracted check_safety) requires a return and TotalAlloc <= 64*|input| + 32 MiB, and the same bound for the number of bytes Parse reads from its source; non-trivial = non-empty input, distinct by (entry, input) hash",
		run:  runC13,
	}
}

func peFieldMutant(rng *rand.Rand, img []byte) ([]byte, string) {
	m := append([]byte{}, img...)
	if len(m) < 0x40 {
		return m, "tiny"
	}
	e := int(binary.LittleEndian.Uint32(m[0x3c:]))
	if e+24+96 > len(m) {
		return m[:rng.Intn(len(m))], "truncate"
	}
	opt := e + 24
	plus := binary.LittleEndian.Uint16(m[opt:]) == 0x20b
	ddoff := 96
	if plus {
		ddoff = 112
	}
	soo := int(binary.LittleEndian.Uint16(m[e+20:]))
	nsec := int(binary.LittleEndian.Uint16(m[e+6:]))
	secTab := opt + soo
	vals32 := []uint32{0, 1, 7, 8, 63, 64, 0x7fffffff, 0x80000000, 0xfffffff0, 0xffffffff, uint32(len(m)), uint32(len(m) + 1), uint32(len(m) - 1), uint32(rng.Intn(len(m) + 1))}
	put32 := func(off int, v uint32) {
		if off >= 0 && off+4 <= len(m) {
			binary.LittleEndian.PutUint32(m[off:], v)
		}
	}
	put16 := func(off int, v uint16) {
		if off >= 0 && off+2 <= len(m) {
			binary.LittleEndian.PutUint16(m[off:], v)
		}
	}
	switch rng.Intn(17) {
	case 16:
		// no sections, headers of (almost) no size, and a certificate table that claims the whole file
		put16(e+6, 0)
		put32(opt+60, pick(rng, []uint32{0, 0x40, 8, uint32(opt)}))
		va := pick(rng, []uint32{0, 8, 0x40})
		put32(opt+ddoff+32, va)
		put32(opt+ddoff+36, uint32(len(m))-va)
		return m, "no-sections+tiny-headers+table-is-the-file"
	case 14:
		// a certificate table that ends right after its only entry, whose dwLength is not a multiple of 8
		va := int(binary.LittleEndian.Uint32(m[opt+ddoff+32:]))
		if va == 0 || va > len(m) {
			for len(m)%8 != 0 {
				m = append(m, 0)
			}
			va = len(m)
		}
		l := 9 + rng.Intn(40)
		hdr := make([]byte, 8)
		binary.LittleEndian.PutUint32(hdr, uint32(l))
		binary.LittleEndian.PutUint16(hdr[4:], 0x0200)
		binary.LittleEndian.PutUint16(hdr[6:], 0x0002)
		m = append(append(m[:va:va], hdr...), randBytes(rng, l-8)...)
		extra := 0
		if pad := (8 - l%8) % 8; pad > 1 && rng.Intn(2) == 0 {
			extra = rng.Intn(pad) // 0 .. pad-1 bytes of the padding present
		}
		m = append(m, make([]byte, extra)...)
		put32(opt+ddoff+32, uint32(va))
		put32(opt+ddoff+36, uint32(l+extra))
		return m, "cert-table-unpadded"
	case 15:
		// hundreds of sections that all cover the same bytes
		n := 200 + rng.Intn(900)
		span := 16384 << uint(rng.Intn(3))
		tiny := rng.Intn(3) == 0
		if tiny {
			// thousands of one-byte sections laid back to back: legal, and every per-section cost shows
			n = 2000 + rng.Intn(3000)
			span = n
		}
		h := (secTab + 40*n + 511) &^ 511
		out := append([]byte{}, m[:secTab]...)
		for i := 0; i < n; i++ {
			sh := make([]byte, 40)
			copy(sh, fmt.Sprintf(".s%d", i))
			binary.LittleEndian.PutUint32(sh[8:], uint32(span))
			binary.LittleEndian.PutUint32(sh[12:], uint32(0x1000*(i+1)))
			binary.LittleEndian.PutUint32(sh[16:], uint32(span))
			binary.LittleEndian.PutUint32(sh[20:], uint32(h))
			if tiny {
				binary.LittleEndian.PutUint32(sh[8:], 1)
				binary.LittleEndian.PutUint32(sh[16:], 1)
				binary.LittleEndian.PutUint32(sh[20:], uint32(h+i))
			}
			out = append(out, sh...)
		}
		for len(out) < h {
			out = append(out, 0)
		}
		out = append(out, randBytes(rng, span)...)
		m = out
		put16(e+6, uint16(n))
		put32(opt+60, uint32(h))
		put32(e+8, 0)
		put32(e+12, 0)
		put32(opt+ddoff+32, 0)
		put32(opt+ddoff+36, 0)
		if tiny {
			return m, "many-tiny-sections"
		}
		return m, "overlap-many"
	case 0:
		put32(0x3c, pick(rng, vals32))
		return m, "e_lfanew"
	case 1:
		put16(e+20, pick(rng, []uint16{0, 1, 2, 95, 96, 111, 112, 223, 224, 239, 240, 0xffff, uint16(rng.Intn(65536))}))
		return m, "size-of-optional-header"
	case 2:
		put32(opt+ddoff-4, pick(rng, []uint32{0, 1, 4, 5, 15, 16, 17, 0xffffffff}))
		return m, "number-of-rva-and-sizes"
	case 3:
		put32(opt+60, pick(rng, vals32))
		return m, "size-of-headers"
	case 4:
		if nsec > 0 {
			s := secTab + 40*rng.Intn(nsec)
			put32(s+20, pick(rng, vals32))
			return m, "section-offset"
		}
	case 5:
		if nsec > 0 {
			s := secTab + 40*rng.Intn(nsec)
			put32(s+16, pick(rng, vals32))
			return m, "section-size"
		}
	case 6:
		put32(opt+ddoff+32, pick(rng, vals32))
		return m, "cert-dir-address"
	case 7:
		put32(opt+ddoff+36, pick(rng, vals32))
		return m, "cert-dir-size"
	case 8:
		put16(e+6, pick(rng, []uint16{0, 1, 95, 96, 97, 0xffff, uint16(nsec + 1)}))
		return m, "number-of-sections"
	case 9:
		return m[:rng.Intn(len(m))], "truncate"
	case 10: // dwLength of the first table entry
		va := int(binary.LittleEndian.Uint32(m[opt+ddoff+32:]))
		if va > 0 && va+8 <= len(m) {
			put32(va, pick(rng, []uint32{0, 1, 7, 8, 9, 0x7fffffff, 0xffffffff, uint32(len(m))}))
			return m, "dwLength"
		}
	case 11:
		put16(opt, pick(rng, []uint16{0, 0x10b, 0x20b, 0x107, 0xffff}))
		return m, "optional-magic"
	case 12:
		put32(e+8, pick(rng, vals32))  // PointerToSymbolTable
		put32(e+12, pick(rng, []uint32{0, 1, 1000, 0xffffff}))
		return m, "symbol-table"
	}
	m[rng.Intn(len(m))] ^= byte(1 + rng.Intn(255))
	return m, "byte"
}

func derLengthMutant(rng *rand.Rand, blob []byte) ([]byte, string) {
	m := append([]byte{}, blob...)
	// find a length octet and make it long-form / oversized / zero
	for tries := 0; tries < 20; tries++ {
		p := rng.Intn(len(m))
		if m[p]&0x80 != 0 && m[p]&0x7f >= 1 && m[p]&0x7f <= 4 {
			switch rng.Intn(4) {
			case 0:
				m[p] = 0x84
				if p+4 < len(m) {
					copy(m[p+1:], []byte{0xff, 0xff, 0xff, 0xff})
				}
				return m, "der-length-4G"
			case 1:
				m[p] = 0x80
				return m, "der-length-indefinite"
			case 2:
				m[p] = 0x85
				return m, "der-length-5-octets"
			default:
				if p+1 < len(m) {
					m[p+1] = 0
				}
				return m, "der-length-nonminimal"
			}
		}
	}
	return m[:rng.Intn(len(m))], "truncate"
}

func runC13(c *Ctx) {
	rng := c.Rng
	cert := simpleCert(rsaKey(2048, 0), "image signer 0", 300)
	// the verifying certificate: the default signer's, or the one of the seed the input derives from
	vcert := cert
	eval := func(entry string, in []byte, class string) {
		o := c.Impl("c13", entry, hx(in), hx(vcert.Raw))
		cls := o.Class
		if cls == "ret" && (len(o.Fields) == 0 || o.Fields[0] != "done") {
			cls = "exit"
		}
		args := []string{fmt.Sprint(len(in)), cls, fmt.Sprint(o.Alloc)}
		v, info := c.Drv.Eval("safety", args...)
		if v != "ok" {
			info = append(info, "class="+cls, fmt.Sprintf("alloc=%d", o.Alloc), "input="+hx(in))
			if len(o.Fields) > 0 && cls == "panic" {
				info = append(info, o.Fields[0])
			}
		}
		c.Rep.Record(entry, class, len(in) > 0, fmt.Sprintf("%d bytes", len(in)), append([]string{entry, hx(in)}, args...), v, info, map[string]string{"entry": entry, "class": cls})
		// the work of Parse, counted in bytes read from its source (independent of the machine), obeys the same bound
		if cls == "ret" && len(o.Fields) > 1 && o.Fields[1] != "-1" {
			rargs := []string{fmt.Sprint(len(in)), cls, o.Fields[1]}
			rv, rinfo := c.Drv.Eval("safety", rargs...)
			if rv != "ok" {
				rinfo = append(rinfo, "Parse read "+o.Fields[1]+" bytes from a source of "+fmt.Sprint(len(in)), "input="+hx(in))
			}
			c.Rep.Record(entry+"/read-volume", class, len(in) > 0, fmt.Sprintf("%d bytes", len(in)), append([]string{entry + "/read-volume", hx(in)}, rargs...), rv, rinfo, map[string]string{"entry": entry, "what": "read-volume"})
			if r, _ := strconv.ParseInt(o.Fields[1], 10, 64); len(in) > 0 && int(r)/len(in) > c.Rep.Histogram["max-parse-passes"] {
				c.Rep.Histogram["max-parse-passes"] = int(r) / len(in)
			}
		}
	}
	// valid images (signed and unsigned) and signatures
	var images [][]byte
	for i := 0; i < 6; i++ {
		spec := smallPESpec(rng)
		im := spec.build(rng)
		images = append(images, im.bytes)
		if p, err := authenticode.Parse(bytes.NewReader(im.bytes)); err == nil && len(spec.certs) == 0 {
			if _, err := p.Sign(rsaKey(2048, 0), cert); err == nil {
				images = append(images, p.Bytes())
			}
		}
	}
	for name, b := range peFixtures() {
		if len(b) < 70000 || !c.Quick() || name == "test.pecoff" {
			images = append(images, b)
		}
	}
	var blobs []p7Seed
	blobs = append(blobs, librarySeeds(rng, 3)...)
	blobs = append(blobs, fixtureSeeds()...)
	if os, _ := opensslSeeds(c, rng, 2); len(os) > 0 {
		blobs = append(blobs, os...)
	}
	nImg := c.N(900, 200000)
	for i := 0; i < nImg; i++ {
		img := pick(rng, images)
		if len(img) > 8000 && rng.Intn(4) != 0 {
			img = images[rng.Intn(6)]
		}
		m, class := peFieldMutant(rng, img)
		if i%5 == 4 {
			// several fields at once: each alone is refused, together they may slip past a check
			for k := 1 + rng.Intn(2); k > 0; k-- {
				var c2 string
				m, c2 = func(in []byte) (out []byte, cl string) {
					// an earlier edit may have moved the headers out of the file: leave such an image as it is
					defer func() {
						if recover() != nil {
							out, cl = in, "none"
						}
					}()
					return peFieldMutant(rng, in)
				}(m)
				class += "+" + c2
			}
		}
		eval("authenticode.Parse+all", m, class)
	}
	for _, img := range images {
		eval("authenticode.Parse+all", img, "valid")
	}
	// every structural rewrite of every seed once, through both entry points, with the seed's certificate
	for _, s := range blobs {
		for _, x := range p7Mutants(s, rng, 1) {
			m, class := x[1].([]byte), x[0].(string)
			vcert = cert
			if s.cert != nil {
				vcert = s.cert
			}
			eval("authenticode.ParseAuthenticode+Verify", m, class+"/each")
			eval("pkcs7.ParsePKCS7+Verify", m, class+"/each")
		}
	}
	vcert = cert
	nSig := c.N(700, 150000)
	for i := 0; i < nSig; i++ {
		s := pick(rng, blobs)
		var m []byte
		class := ""
		switch rng.Intn(4) {
		case 0:
			m, class = derLengthMutant(rng, s.blob)
		case 1:
			m, class = randBytes(rng, rng.Intn(300)), "random"
		default:
			ms := p7Mutants(s, rng, 2)
			x := pick(rng, ms)
			m, class = x[1].([]byte), x[0].(string)
		}
		entry := pick(rng, []string{"authenticode.ParseAuthenticode+Verify", "pkcs7.ParsePKCS7+Verify"})
		// three times out of four with the certificate that signed the seed, so that the signer entry is really checked
		vcert = cert
		if s.cert != nil && rng.Intn(4) != 0 {
			vcert = s.cert
			class += "/signer-cert"
		}
		eval(entry, m, class)
		if rng.Intn(3) == 0 {
			// inside a WIN_CERTIFICATE / an authentication descriptor
			hdr := make([]byte, 8)
			binary.LittleEndian.PutUint32(hdr, uint32(8+len(m)))
			binary.LittleEndian.PutUint16(hdr[4:], 0x0200)
			binary.LittleEndian.PutUint16(hdr[6:], 0x0002)
			w := append(hdr, m...)
			if rng.Intn(2) == 0 {
				binary.LittleEndian.PutUint32(w, pick(rng, []uint32{0, 7, 8, 9, 0xffffffff, uint32(len(w) + 5)}))
				class += "+dwLength"
			}
			eval("signature.ReadWinCertificate", w, class)
			desc := make([]byte, 16)
			desc = append(desc, 0, 0, 0, 0, 0x00, 0x02, 0xf1, 0x0e)
			binary.LittleEndian.PutUint32(desc[16:], uint32(24+len(m)))
			var g bytes.Buffer
			binary.Write(&g, binary.LittleEndian, signature.EFI_CERT_TYPE_PKCS7_GUID)
			desc = append(desc, g.Bytes()...)
			desc = append(desc, m...)
			eval("auth2.Verify", desc, class)
		}
	}
}
