package main

import "time"

type timeT = time.Time
