package main

// A tiny DER tree used to derive adversarial blobs: parse, edit a node,
// re-encode with correct (minimal, definite) lengths.

type dnode struct {
	tag      byte
	val      []byte   // primitive value (or raw content when children == nil)
	children []*dnode // constructed
}

func derLen(n int) []byte {
	switch {
	case n < 128:
		return []byte{byte(n)}
	case n < 1<<8:
		return []byte{0x81, byte(n)}
	case n < 1<<16:
		return []byte{0x82, byte(n >> 8), byte(n)}
	case n < 1<<24:
		return []byte{0x83, byte(n >> 16), byte(n >> 8), byte(n)}
	}
	return []byte{0x84, byte(n >> 24), byte(n >> 16), byte(n >> 8), byte(n)}
}

func derTLV(tag byte, val []byte) []byte {
	out := append([]byte{tag}, derLen(len(val))...)
	return append(out, val...)
}

// parseDER parses a sequence of elements; constructed ones recursively.
// Returns nil if the bytes are not well-formed DER (definite lengths).
func parseDER(b []byte, depth int) []*dnode {
	var out []*dnode
	for len(b) > 0 {
		if len(b) < 2 {
			return nil
		}
		tag, l := b[0], int(b[1])
		hdr := 2
		if l&0x80 != 0 {
			n := l & 0x7f
			if n == 0 || n > 4 || len(b) < 2+n {
				return nil
			}
			l = 0
			for i := 0; i < n; i++ {
				l = l<<8 | int(b[2+i])
			}
			hdr = 2 + n
		}
		if len(b) < hdr+l {
			return nil
		}
		n := &dnode{tag: tag, val: b[hdr : hdr+l]}
		if tag&0x20 != 0 && depth < 12 {
			if ch := parseDER(n.val, depth+1); ch != nil || l == 0 {
				n.children = ch
				if l == 0 {
					n.children = []*dnode{}
				}
			}
		}
		out = append(out, n)
		b = b[hdr+l:]
	}
	if out == nil {
		out = []*dnode{}
	}
	return out
}

func (n *dnode) encode() []byte {
	if n.children != nil {
		var body []byte
		for _, c := range n.children {
			body = append(body, c.encode()...)
		}
		return derTLV(n.tag, body)
	}
	return derTLV(n.tag, n.val)
}

func (n *dnode) clone() *dnode {
	c := &dnode{tag: n.tag, val: append([]byte{}, n.val...)}
	if n.children != nil {
		c.children = make([]*dnode, len(n.children))
		for i, ch := range n.children {
			c.children[i] = ch.clone()
		}
	}
	return c
}

// at follows a path of child indices; nil if it does not exist.
func (n *dnode) at(path ...int) *dnode {
	cur := n
	for _, i := range path {
		if cur == nil || cur.children == nil || i < 0 || i >= len(cur.children) {
			return nil
		}
		cur = cur.children[i]
	}
	return cur
}
