package main

import (
	"encoding/binary"
	"encoding/pem"
	"crypto/x509"
	crand "crypto/rand"
	"crypto/ed25519"
	"crypto/elliptic"
	"crypto/ecdsa"
	"bytes"
	"fmt"
	"math/rand"
	"os"
	"path/filepath"
	"testing/fstest"

	"github.com/foxboron/go-uefi/efi"
	"github.com/foxboron/go-uefi/efi/attributes"
	"github.com/foxboron/go-uefi/efi/device"
	efs "github.com/foxboron/go-uefi/efi/fs"
	"github.com/foxboron/go-uefi/efi/signature"
	"github.com/foxboron/go-uefi/efi/util"
	"github.com/foxboron/go-uefi/efivar"
	"github.com/foxboron/go-uefi/efivarfs"
	"github.com/foxboron/go-uefi/efivarfs/fswrapper"
	"github.com/foxboron/go-uefi/efivarfs/testfs"
	"github.com/spf13/afero"
)

// Entry points that take the content of a firmware variable or key file.
// Each is run on the raw input; results are discarded (only how the call ends
// and what it allocates matter).
var c14Entries = map[string]func(in []byte){
	"sigdb.ReadSignatureDatabase": func(in []byte) { signature.ReadSignatureDatabase(bytes.NewReader(in)) },
	"sigdb.Unmarshal": func(in []byte) {
		var db signature.SignatureDatabase
		db.Unmarshal(bytes.NewBuffer(in))
		db.Bytes()
	},
	"sigdb.ReadSignatureList": func(in []byte) { signature.ReadSignatureList(bytes.NewReader(in)) },
	"sigdb.ReadSignatureData": func(in []byte) {
		if len(in) >= 4 {
			size := uint32(in[0]) | uint32(in[1])<<8 | uint32(in[2])<<16 | uint32(in[3])<<24
			signature.ReadSignatureData(bytes.NewReader(in[4:]), size)
		}
	},
	"auth2.Read": func(in []byte) { signature.ReadEFIVariableAuthencation2(bytes.NewReader(in)) },
	"auth2.Unmarshal": func(in []byte) {
		var a signature.EFIVariableAuthentication2
		if a.Unmarshal(bytes.NewBuffer(in)) == nil {
			var b bytes.Buffer
			a.Marshal(&b)
		}
	},
	"wincert.Read":     func(in []byte) { signature.ReadWinCertificate(bytes.NewReader(in)) },
	"wincert.ReadGUID": func(in []byte) { signature.ReadWinCertificateUEFIGUID(bytes.NewReader(in)) },
	"sigsupport":       func(in []byte) { signature.GetSupportedSignatures(bytes.NewReader(in)) },
	"device.Unmarshal+Format": func(in []byte) {
		var o device.EFILoadOption
		if o.Unmarshal(bytes.NewBuffer(in)) == nil {
			for _, n := range o.FilePath {
				_ = n.Format()
			}
		}
	},
	"device.ParseDevicePath+Format": func(in []byte) {
		ns, err := device.ParseDevicePath(bytes.NewReader(in))
		if err == nil {
			for _, n := range ns {
				_ = n.Format()
			}
		}
	},
	"device.ParseEFILoadOption": func(in []byte) { device.ParseEFILoadOption(bytes.NewBuffer(in)) },
	"util.ParseUtf16Var":        func(in []byte) { util.ParseUtf16Var(bytes.NewBuffer(in)) },
	"util.ReadNullString":       func(in []byte) { util.ReadNullString(bytes.NewReader(in)) },
	"efivar.Efistring":          func(in []byte) { var s efivar.Efistring; s.Unmarshal(bytes.NewBuffer(in)) },
	"util.StringToGUID":         func(in []byte) { util.StringToGUID(string(in)) },
	"util.BytesToGUID":          func(in []byte) { util.BytesToGUID(in) },
	"util.ReadKey":              func(in []byte) { util.ReadKey(in) },
	"util.ReadCert":             func(in []byte) { util.ReadCert(in) },
	// the input is the whole file (attributes + value) of the variable the accessor reads
	"efivarfs.getters": func(in []byte) {
		g := "-8be4df61-93ca-11d2-aa0d-00e098032b8c"
		sec := "-d719b2cb-3d3a-4596-a3bc-dad00e67656f"
		ldr := "-4a67b082-0a4c-41cf-b6c7-440b29bb8c4f"
		d := "/sys/firmware/efi/efivars/"
		m := fstest.MapFS{}
		for _, n := range []string{"BootOrder" + g, "Boot0001" + g, "SetupMode" + g, "SecureBoot" + g, "PK" + g, "KEK" + g, "db" + sec, "dbx" + sec, "LoaderEntrySelected" + ldr} {
			m[d+n] = &fstest.MapFile{Data: in}
		}
		attributes.Efivars = "/sys/firmware/efi/efivars"
		e := testfs.NewTestFS().With(m).Open()
		for _, n := range e.GetBootOrder() {
			e.GetBootEntry(n)
		}
		if o, err := e.GetBootEntry("Boot0001"); err == nil {
			for _, n := range o.FilePath {
				_ = n.Format()
			}
		}
		e.GetSetupMode()
		e.GetSecureBoot()
		e.GetPK()
		e.GetKEK()
		e.Getdb()
		e.Getdbx()
		e.GetLoaderEntrySelected()
	},
	"fswrapper.ParseEfivars": func(in []byte) {
		w := fswrapper.NewMemoryWrapper()
		w.ParseEfivars(bytes.NewReader(in), len(in))
		mem := afero.NewMemMapFs()
		afero.WriteFile(mem, "/v", in, 0644)
		w.SetFS(mem)
		w.ReadEfivarsFile("/v")
		w.ReadFile("/v")
	},
	"attributes.legacy": func(in []byte) {
		attributes.ParseEfivars(bytes.NewReader(in), len(in))
		mem := afero.NewMemMapFs()
		afero.WriteFile(mem, "/v", in, 0644)
		efs.SetFS(mem)
		attributes.ReadEfivarsFile("/v")
	},
	"efi.legacy-getters": func(in []byte) {
		g := "-8be4df61-93ca-11d2-aa0d-00e098032b8c"
		sec := "-d719b2cb-3d3a-4596-a3bc-dad00e67656f"
		ldr := "-4a67b082-0a4c-41cf-b6c7-440b29bb8c4f"
		attributes.Efivars = "/sys/firmware/efi/efivars"
		mem := afero.NewMemMapFs()
		for _, n := range []string{"BootOrder" + g, "Boot0001" + g, "SetupMode" + g, "SecureBoot" + g, "PK" + g, "KEK" + g, "db" + sec, "dbx" + sec, "LoaderEntrySelected" + ldr} {
			afero.WriteFile(mem, "/sys/firmware/efi/efivars/"+n, in, 0644)
		}
		efs.SetFS(mem)
		efi.GetBootOrder()
		efi.GetBootEntry("Boot0001")
		efi.GetSetupMode()
		efi.GetSecureBoot()
		efi.GetPK()
		efi.GetKEK()
		efi.Getdb()
		efi.Getdbx()
		efi.GetCurrentlyBootedEntry()
	},
	"testfs.WriteVar": func(in []byte) {
		attributes.Efivars = "/sys/firmware/efi/efivars"
		e := testfs.NewTestFS().Open()
		e.WriteVar(efivar.Db, rawValue(in))
		e.WriteVar(efivar.PK, rawValue(in))
		e.Getdb()
	},
	"efivarfs.absent": func(in []byte) { // no file at all: every accessor must simply fail
		attributes.Efivars = "/sys/firmware/efi/efivars"
		e := efivarfs.Open(&efivarfs.EFIFS{FSWrapper: fswrapper.NewMemoryWrapper()})
		e.GetBootOrder()
		e.GetBootEntry(string(in))
		e.GetPK()
		e.GetSetupMode()
	},
}

func init() {
	implOps["c14"] = func(a []string) []string {
		f, ok := c14Entries[a[0]]
		if !ok {
			return []string{"unknown-entry"}
		}
		f(unhx(a[1]))
		return []string{"done"}
	}
	checkers["C14"] = checker{
		rule: "for each decoder entry point (signature database/list/data, authentication descriptor, WIN_CERTIFICATE(_UEFI_GUID), supported-signature list, load option + device path + Format of every node, UTF-16 string, ReadNullString, Efistring, GUID text/bytes, PEM key/certificate, the typed accessors of efivarfs and the legacy efi/attributes functions on an in-memory file, testfs.WriteVar): valid captures (key files of every kind: RSA, ECDSA and Ed25519 in PKCS#8, PKCS#1, SEC1), every truncation of small valid inputs, size fields set to 0/15/16/huge, list headers announcing millions of entries behind which nothing follows, device paths without end node, partition formats 0 and 3..255, expanded ACPI, empty and odd-length UTF-16, random bytes; one sandboxed worker call per (entry point, input) reporting return/panic/exit/timeout and the TotalAlloc delta; R_C14 (extracted check_safety) requires a return and TotalAlloc <= 64*|input| + 32 MiB; plus the Coq obligation over the termination sites regenerated by the go/types translator; non-trivial = non-empty input, distinct by (entry, input) hash",
		run:  runC14,
	}
}

func c14Seeds(rng *rand.Rand) map[string][][]byte {
	seeds := map[string][][]byte{}
	add := func(k string, b []byte) { seeds[k] = append(seeds[k], b) }
	for _, b := range sigFixtures() {
		add("sigdb", b)
	}
	for i := 0; i < 6; i++ {
		s, _ := genWfStream(rng, 3, 100)
		add("sigdb", s)
	}
	// list headers whose size fields agree with each other but announce millions of entries that are not there
	for _, hs := range [][3]uint32{{16, 4194304, 0}, {16, 268435454, 0}, {48, 1000000, 1}, {48, 89478484, 1}, {17, 100000000, 0}, {1000, 4000000, 0}} {
		t := gX509
		if hs[2] == 1 {
			t = gSHA256
		}
		hdr := encList(t, 28+hs[0]*hs[1], 0, hs[0], nil, nil)
		add("sigdb", hdr)
		add("sigdb", append(append([]byte{}, hdr...), randBytes(rng, int(hs[0]))...))
	}
	fs, _ := filepath.Glob("/repo/tests/data/signatures/varsign/*.auth")
	for _, f := range fs {
		if b, err := os.ReadFile(f); err == nil {
			add("auth", b)
		}
	}
	add("auth", encAuth2(util.EFITime{Year: 2024}, 24+5, 0x0200, 0x0EF1, signature.EFI_CERT_TYPE_PKCS7_GUID, []byte{1, 2, 3, 4, 5}))
	// descriptors that declare far more than they hold (64 MiB .. 4 GiB)
	for _, l := range []uint32{0x04000000, 0x10000000, 0x7fffffff, 0xffffffff} {
		add("auth", encAuth2(util.EFITime{Year: 2024}, l, 0x0200, 0x0EF1, signature.EFI_CERT_TYPE_PKCS7_GUID, []byte{1, 2, 3, 4, 5}))
	}
	fs, _ = filepath.Glob("/repo/tests/data/boot/Boot*")
	for _, f := range fs {
		if b, err := os.ReadFile(f); err == nil && len(b) > 4 {
			add("boot", b[4:])
			add("varfile", b)
		}
	}
	fs, _ = filepath.Glob("/repo/tests/data/signatures/sigsupport/*")
	for _, f := range fs {
		if b, err := os.ReadFile(f); err == nil && len(b) > 4 {
			add("sigsupport", b[4:])
		}
	}
	fs, _ = filepath.Glob("/repo/efi/signature/testdata/*")
	for _, f := range fs {
		if b, err := os.ReadFile(f); err == nil {
			add("varfile", b)
		}
	}
	for _, f := range []string{"/repo/tests/data/bootorder/BootOrder-8be4df61-93ca-11d2-aa0d-00e098032b8c", "/repo/tests/data/misc/SecureBoot-8be4df61-93ca-11d2-aa0d-00e098032b8c"} {
		if b, err := os.ReadFile(f); err == nil {
			add("varfile", b)
		}
	}
	// what the library itself writes for a list that never received an entry (SignatureSize 0)
	for _, t := range []util.EFIGUID{signature.CERT_X509_GUID, signature.CERT_SHA256_GUID} {
		add("sigdb", signature.NewSignatureList(t).Bytes())
		l := signature.NewSignatureList(t)
		l.AppendBytes(util.EFIGUID{Data1: 1}, bytes.Repeat([]byte{7}, 32))
		add("sigdb", append(l.Bytes(), signature.NewSignatureList(t).Bytes()...))
	}
	// load options whose nodes are legal but minimal: a file path node with an empty name, a
	// hard-drive node without signature, an option with an empty description
	add("boot", []byte{1, 0, 0, 0, 10, 0, 'x', 0, 0, 0, 4, 4, 6, 0, 0, 0, 0x7f, 0xff, 4, 0})
	add("boot", []byte{1, 0, 0, 0, 8, 0, 0, 0, 4, 4, 4, 0, 0x7f, 0xff, 4, 0})
	add("boot", append(append([]byte{1, 0, 0, 0, 46, 0, 0, 0, 4, 1, 42, 0}, make([]byte, 38)...), 0x7f, 0xff, 4, 0))
	add("utf16", util.MarshalUtf16Var("Linux Boot Manager"))
	add("utf16", util.MarshalUtf16Var("\U0001F600 x"))
	add("guid", []byte("8be4df61-93ca-11d2-aa0d-00e098032b8c"))
	fs, _ = filepath.Glob("/repo/tests/data/signatures/secureboot/keys/*/*")
	for _, f := range fs {
		if b, err := os.ReadFile(f); err == nil {
			add("pem", b)
		}
	}
	// well-formed key files of every kind a PEM file may hold
	if k, err := ecdsa.GenerateKey(elliptic.P256(), crand.Reader); err == nil {
		if der, err := x509.MarshalPKCS8PrivateKey(k); err == nil {
			add("pem", pem.EncodeToMemory(&pem.Block{Type: "PRIVATE KEY", Bytes: der}))
		}
		if der, err := x509.MarshalECPrivateKey(k); err == nil {
			add("pem", pem.EncodeToMemory(&pem.Block{Type: "EC PRIVATE KEY", Bytes: der}))
		}
	}
	if _, k, err := ed25519.GenerateKey(crand.Reader); err == nil {
		if der, err := x509.MarshalPKCS8PrivateKey(k); err == nil {
			add("pem", pem.EncodeToMemory(&pem.Block{Type: "PRIVATE KEY", Bytes: der}))
		}
	}
	rk := rsaKey(2048, 0)
	if der, err := x509.MarshalPKCS8PrivateKey(rk); err == nil {
		add("pem", pem.EncodeToMemory(&pem.Block{Type: "PRIVATE KEY", Bytes: der}))
	}
	add("pem", pem.EncodeToMemory(&pem.Block{Type: "RSA PRIVATE KEY", Bytes: x509.MarshalPKCS1PrivateKey(rk)}))
	add("pem", pem.EncodeToMemory(&pem.Block{Type: "CERTIFICATE", Bytes: simpleCert(rk, "pem cert", 1).Raw}))
	add("pem", pem.EncodeToMemory(&pem.Block{Type: "PRIVATE KEY", Bytes: []byte{0x30, 0x00}}))
	// files holding several blocks: parameters, a key, then the certificate (and the other way round)
	params := pem.EncodeToMemory(&pem.Block{Type: "EC PARAMETERS", Bytes: []byte{0x06, 0x08, 0x2a, 0x86, 0x48, 0xce, 0x3d, 0x03, 0x01, 0x07}})
	keyBlk := pem.EncodeToMemory(&pem.Block{Type: "RSA PRIVATE KEY", Bytes: x509.MarshalPKCS1PrivateKey(rk)})
	certBlk := pem.EncodeToMemory(&pem.Block{Type: "CERTIFICATE", Bytes: simpleCert(rk, "pem cert", 1).Raw})
	add("pem", append(append(append([]byte{}, params...), keyBlk...), certBlk...))
	add("pem", append(append(append([]byte{}, certBlk...), keyBlk...), params...))
	add("pem", append(append([]byte{}, params...), params...))
	return seeds
}

var c14EntrySeeds = map[string][]string{
	"sigdb.ReadSignatureDatabase": {"sigdb"}, "sigdb.Unmarshal": {"sigdb"}, "sigdb.ReadSignatureList": {"sigdb"}, "sigdb.ReadSignatureData": {"sigdb"},
	"auth2.Read": {"auth"}, "auth2.Unmarshal": {"auth"}, "wincert.Read": {"auth"}, "wincert.ReadGUID": {"auth"}, "sigsupport": {"sigsupport", "sigdb"},
	"device.Unmarshal+Format": {"boot"}, "device.ParseDevicePath+Format": {"boot"}, "device.ParseEFILoadOption": {"boot"},
	"util.ParseUtf16Var": {"utf16"}, "util.ReadNullString": {"utf16"}, "efivar.Efistring": {"utf16"},
	"util.StringToGUID": {"guid"}, "util.BytesToGUID": {"guid", "sigdb"}, "util.ReadKey": {"pem"}, "util.ReadCert": {"pem"},
	"efivarfs.getters": {"varfile"}, "fswrapper.ParseEfivars": {"varfile"}, "attributes.legacy": {"varfile"}, "efi.legacy-getters": {"varfile"},
	"testfs.WriteVar": {"auth", "sigdb"}, "efivarfs.absent": {"guid"},
}

func mutateBytes(rng *rand.Rand, seed []byte) ([]byte, string) {
	m := append([]byte{}, seed...)
	switch rng.Intn(9) {
	case 0:
		return m[:rng.Intn(len(m)+1)], "truncate"
	case 1: // a 32-bit field somewhere set to an interesting value
		if len(m) >= 4 {
			p := rng.Intn(len(m) - 3)
			v := pick(rng, []uint32{0, 1, 7, 8, 15, 16, 17, 27, 28, 0x7fffffff, 0x80000000, 0xfffffff0, 0xffffffff})
			m[p], m[p+1], m[p+2], m[p+3] = byte(v), byte(v>>8), byte(v>>16), byte(v>>24)
		}
		return m, "field32"
	case 2:
		if len(m) > 0 {
			m[rng.Intn(len(m))] ^= 1 << uint(rng.Intn(8))
		}
		return m, "bitflip"
	case 3:
		if len(m) > 0 {
			m[rng.Intn(len(m))] = byte(rng.Intn(256))
		}
		return m, "byte"
	case 4:
		return append(m, randBytes(rng, 1+rng.Intn(20))...), "append"
	case 5:
		return randBytes(rng, rng.Intn(200)), "random"
	case 6:
		return []byte{}, "empty"
	case 7:
		if len(m) > 8 {
			p := rng.Intn(len(m) - 4)
			return append(m[:p], m[p+1+rng.Intn(3):]...), "delete"
		}
		return m, "same"
	default: // a 16-bit field
		if len(m) >= 2 {
			p := rng.Intn(len(m) - 1)
			v := pick(rng, []uint16{0, 1, 3, 4, 0xff, 0x100, 0x7fff, 0xffff})
			m[p], m[p+1] = byte(v), byte(v>>8)
		}
		return m, "field16"
	}
}

// device paths that exercise specific node kinds
func c14DevicePaths(rng *rand.Rand) [][]byte {
	hd := func(pf, sty byte) []byte {
		b := []byte{4, 1, 42, 0}
		b = append(b, randBytes(rng, 36)...)
		return append(b, pf, sty)
	}
	pre := append([]byte{1, 0, 0, 0, 10, 0}, util.MarshalUtf16Var("x")...)
	var out [][]byte
	for _, tail := range [][]byte{
		{},                                   // no end node at all
		{1, 1, 6, 0, 1},                      // truncated PCI
		{2, 2, 12, 0, 1, 2, 3, 4, 5, 6, 7, 8}, // expanded ACPI
		{2, 1, 12, 0, 1, 2},                  // truncated ACPI
		{3, 5, 6, 0},                         // truncated USB
		{3, 10, 20, 0, 1, 2, 3},              // truncated vendor
		{4, 4, 8, 0, 65, 0},                  // file path without terminator
		{4, 6, 20, 0, 1, 2},                  // truncated firmware file
		{9, 9, 4, 0},                         // unknown type
		{1, 9, 4, 0, 0x7f, 0xff, 4, 0},       // unknown hardware subtype
	} {
		out = append(out, append(append([]byte{}, pre...), tail...))
	}
	for _, pf := range []int{0, 1, 2, 3, 4, 127, 255} {
		for _, sty := range []int{0, 1, 2, 3, 255} {
			b := append(append([]byte{}, pre...), hd(byte(pf), byte(sty))...)
			out = append(out, append(b, 0x7f, 0xff, 4, 0))
		}
	}
	return out
}

func runC14(c *Ctx) {
	rng := c.Rng
	seeds := c14Seeds(rng)
	eval := func(entry string, in []byte, class string) {
		o := c.Impl("c14", entry, hx(in))
		cls := o.Class
		if cls == "ret" && (len(o.Fields) == 0 || o.Fields[0] != "done") {
			cls = "exit"
		}
		args := []string{fmt.Sprint(len(in)), cls, fmt.Sprint(o.Alloc)}
		v, info := c.Drv.Eval("safety", args...)
		if v != "ok" {
			info = append(info, "class="+cls, fmt.Sprintf("alloc=%d", o.Alloc), "input="+hx(in))
			if len(o.Fields) > 0 && cls == "panic" {
				info = append(info, o.Fields[0])
			}
		}
		c.Rep.Record(entry, class, len(in) > 0, fmt.Sprintf("%d bytes", len(in)), append([]string{entry, hx(in)}, args...), v, info,
			map[string]string{"entry": entry, "class": cls})
	}
	names := sortedKeys(func() map[string]int {
		m := map[string]int{}
		for k := range c14Entries {
			m[k] = 1
		}
		return m
	}())
	// a list with more than a hundred thousand distinct entries: decoding must stay proportional to its size
	{
		cnt := 120000
		big := make([]byte, 28, 28+48*cnt)
		var tb bytes.Buffer
		binary.Write(&tb, binary.LittleEndian, signature.CERT_SHA256_GUID)
		copy(big, tb.Bytes())
		binary.LittleEndian.PutUint32(big[16:], uint32(28+48*cnt))
		binary.LittleEndian.PutUint32(big[24:], 48)
		for i := 0; i < cnt; i++ {
			e := make([]byte, 48)
			binary.LittleEndian.PutUint32(e[16:], uint32(i))
			rng.Read(e[20:])
			big = append(big, e...)
		}
		for _, entry := range []string{"sigdb.ReadSignatureDatabase", "sigdb.Unmarshal", "sigdb.ReadSignatureList"} {
			if _, ok := c14Entries[entry]; ok {
				eval(entry, big, "many-thousand-entries")
			}
		}
	}
	perEntry := c.N(220, 45000)
	for _, entry := range names {
		var pool [][]byte
		for _, k := range c14EntrySeeds[entry] {
			pool = append(pool, seeds[k]...)
		}
		if len(pool) == 0 {
			pool = [][]byte{{}}
		}
		// seeds as they are
		for _, s := range pool {
			eval(entry, s, "seed")
		}
		// exhaustive truncation of the smallest seed
		small := pool[0]
		for _, s := range pool {
			if len(s) < len(small) && len(s) > 0 || len(small) == 0 {
				small = s
			}
		}
		if len(small) <= 2500 {
			step := 1
			if c.Quick() && len(small) > 300 {
				step = len(small) / 300
			}
			for k := 0; k <= len(small); k += step {
				eval(entry, small[:k], "truncation-exhaustive")
			}
		}
		for i := 0; i < perEntry; i++ {
			m, class := mutateBytes(rng, pick(rng, pool))
			eval(entry, m, class)
		}
		if entry == "device.Unmarshal+Format" || entry == "device.ParseEFILoadOption" {
			for _, dp := range c14DevicePaths(rng) {
				eval(entry, dp, "crafted-device-path")
			}
		}
		if entry == "device.ParseDevicePath+Format" {
			pre := len([]byte{1, 0, 0, 0, 10, 0}) + len(util.MarshalUtf16Var("x"))
			for _, dp := range c14DevicePaths(rng) {
				eval(entry, dp[pre:], "crafted-device-path")
			}
		}
		if entry == "efivarfs.getters" || entry == "efi.legacy-getters" {
			for _, dp := range c14DevicePaths(rng) {
				eval(entry, append([]byte{7, 0, 0, 0}, dp...), "crafted-device-path")
			}
			for _, short := range [][]byte{{}, {7}, {7, 0}, {7, 0, 0}, {7, 0, 0, 0}, {7, 0, 0, 0, 1}} {
				eval(entry, short, "short-file")
			}
		}
	}
}
