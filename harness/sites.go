package main

import (
	"fmt"
	"go/ast"
	"go/types"
	"os"
	"sort"
	"strings"

	"golang.org/x/tools/go/packages"
)

// sites: the translator.  Walks the library packages of /repo (everything
// outside cmd/, tests/ and _test.go files) with go/packages (parser + type
// checker) and regenerates two facts that no run can observe:
//   - every call site that can terminate the process or panic on purpose:
//     log.Fatal*, log.Panic*, os.Exit, panic, (*cryptobyte.Builder).BytesOrPanic;
//   - for each site, whether it is reachable in the static call graph from the
//     decoding entry points (C14) -- interface method calls are resolved to
//     every library method of that name, so reachability is over-approximated.
// Output: a Coq file defining [generated_sites].

type site struct {
	pkg, fn, callee string
	ordinal         int
	reachable       bool
	guard           string // what decides that the site runs: "buffer" | "writer-param" | "other"
	bufOnly         bool   // runs only if a write to a bytes.Buffer fails (never, in practice)
}

// writerArg classifies the destination of a binary.Write call inside fd.
func writerArg(info *types.Info, fd *ast.FuncDecl, e ast.Expr) string {
	isBuf := func(t types.Type) bool {
		if p, ok := t.(*types.Pointer); ok {
			t = p.Elem()
		}
		n, ok := t.(*types.Named)
		return ok && n.Obj().Pkg() != nil && n.Obj().Pkg().Path() == "bytes" && n.Obj().Name() == "Buffer"
	}
	if u, ok := e.(*ast.UnaryExpr); ok {
		e = u.X
	}
	t := info.TypeOf(e)
	if t == nil {
		return "other"
	}
	if isBuf(t) {
		return "buffer"
	}
	if id, ok := e.(*ast.Ident); ok && fd.Type.Params != nil {
		for _, f := range fd.Type.Params.List {
			for _, n := range f.Names {
				if n.Name == id.Name && types.IsInterface(t) {
					return "writer-param"
				}
			}
		}
	}
	return "other"
}

var decoderEntryPoints = []string{
	"efi/signature.ReadSignatureDatabase", "efi/signature.ReadSignatureList", "efi/signature.ReadSignatureData",
	"efi/signature.SignatureDatabase.Unmarshal", "efi/signature.ReadEFIVariableAuthencation2",
	"efi/signature.EFIVariableAuthentication2.Unmarshal", "efi/signature.ReadWinCertificate",
	"efi/signature.ReadWinCertificateUEFIGUID", "efi/signature.GetSupportedSignatures",
	"efi/device.ParseEFILoadOption", "efi/device.ParseDevicePath", "efi/device.EFILoadOption.Unmarshal",
	"efi/device.HardDriveMediaDevicePath.Format", "efi/device.FileTypeMediaDevicePath.Format",
	"efi/device.PCIDevicePath.Format", "efi/device.ACPIDevicePath.Format", "efi/device.USBMessagingDevicePath.Format",
	"efi/device.FirmwareFielMediaDevicePath.Format", "efi/device.EFIDevicePath.Format", "efi/device.VendorMessagingDevicePath.Format",
	"efi/util.ParseUtf16Var", "efi/util.ReadNullString", "efivar.Efistring.Unmarshal",
	"efivarfs.bootorder.Unmarshal", "efivarfs.efibool.Unmarshal", "efivarfs.Efivarfs.GetBootOrder", "efivarfs.Efivarfs.GetBootEntry",
	"efivarfs.Efivarfs.GetPK", "efivarfs.Efivarfs.GetKEK", "efivarfs.Efivarfs.Getdb", "efivarfs.Efivarfs.Getdbx",
	"efivarfs.Efivarfs.GetSetupMode", "efivarfs.Efivarfs.GetSecureBoot", "efivarfs.Efivarfs.GetLoaderEntrySelected",
	"efivarfs.EFIFS.GetVar", "efivarfs.EFIFS.GetVarWithAttributes",
	"efivarfs/fswrapper.FSWrapper.ParseEfivars", "efivarfs/fswrapper.FSWrapper.ReadEfivarsFile", "efivarfs/fswrapper.FSWrapper.ReadEfivarsWithGuid",
	"efi/attributes.ParseEfivars", "efi/attributes.ReadEfivarsFile", "efi/attributes.ReadEfivarsWithGuid", "efi/attributes.ReadEfivars",
	"efi.GetBootOrder", "efi.GetBootEntry", "efi.GetSetupMode", "efi.GetSecureBoot", "efi.GetPK", "efi.GetKEK", "efi.Getdb", "efi.Getdbx",
	"efi.GetCurrentlyBootedEntry",
	"efi/util.StringToGUID", "efi/util.BytesToGUID", "efi/util.ReadKey", "efi/util.ReadCert",
	"efivarfs/testfs.TestFS.WriteVar",
	// untrusted images and signatures (C13)
	"authenticode.Parse", "authenticode.PECOFFBinary.Signatures", "authenticode.PECOFFBinary.Hash", "authenticode.PECOFFBinary.Bytes",
	"authenticode.PECOFFBinary.Open", "authenticode.PECOFFBinary.Verify", "authenticode.ParseAuthenticode", "authenticode.Authenticode.Verify",
	"pkcs7.ParsePKCS7", "pkcs7.PKCS7.Verify", "pkcs7.PKCS7.HasCertificate", "efi/signature.EFIVariableAuthentication2.Verify",
}

const modPath = "github.com/foxboron/go-uefi"

func funcKey(pkgPath string, fd *ast.FuncDecl) string {
	rel := strings.TrimPrefix(strings.TrimPrefix(pkgPath, modPath), "/")
	if rel == "" {
		rel = "."
	}
	name := fd.Name.Name
	if fd.Recv != nil && len(fd.Recv.List) > 0 {
		t := fd.Recv.List[0].Type
		if s, ok := t.(*ast.StarExpr); ok {
			t = s.X
		}
		if id, ok := t.(*ast.Ident); ok {
			name = id.Name + "." + name
		}
	}
	return rel + "." + name
}

func objKey(f *types.Func) string {
	if f.Pkg() == nil {
		return ""
	}
	rel := strings.TrimPrefix(strings.TrimPrefix(f.Pkg().Path(), modPath), "/")
	name := f.Name()
	if sig, ok := f.Type().(*types.Signature); ok && sig.Recv() != nil {
		t := sig.Recv().Type()
		if p, ok := t.(*types.Pointer); ok {
			t = p.Elem()
		}
		if n, ok := t.(*types.Named); ok {
			name = n.Obj().Name() + "." + name
		}
	}
	return rel + "." + name
}

func collectSites() ([]site, error) {
	cfg := &packages.Config{Mode: packages.NeedName | packages.NeedFiles | packages.NeedSyntax | packages.NeedTypes | packages.NeedTypesInfo | packages.NeedImports | packages.NeedDeps, Dir: "/repo", Tests: false,
		Env: append(os.Environ(), "GOFLAGS=-mod=mod", "GOPROXY=off", "GOSUMDB=off", "GOTOOLCHAIN=local")}
	pkgs, err := packages.Load(cfg, "./...")
	if err != nil {
		return nil, err
	}
	var sites []site
	calls := map[string]map[string]bool{}   // caller -> callees (library functions)
	methodsByName := map[string][]string{} // method name -> keys of library methods
	type pending struct {
		caller, method string
		iface          *types.Interface
	}
	var ifaceCalls []pending
	var libTypes []*types.Named
	type wcall struct{ callee, caller, arg string }
	var writerCalls []wcall
	for _, p := range pkgs {
		if !strings.HasPrefix(p.PkgPath, modPath) {
			continue
		}
		rel := strings.TrimPrefix(strings.TrimPrefix(p.PkgPath, modPath), "/")
		if strings.HasPrefix(rel, "cmd/") || strings.HasPrefix(rel, "tests") || rel == "cmd" {
			continue
		}
		if len(p.Errors) > 0 {
			return nil, fmt.Errorf("package %s: %v", p.PkgPath, p.Errors[0])
		}
		for _, name := range p.Types.Scope().Names() {
			if tn, ok := p.Types.Scope().Lookup(name).(*types.TypeName); ok {
				if n, ok := tn.Type().(*types.Named); ok {
					libTypes = append(libTypes, n)
				}
			}
		}
		for _, file := range p.Syntax {
			fname := p.Fset.Position(file.Pos()).Filename
			if strings.HasSuffix(fname, "_test.go") {
				continue
			}
			for _, d := range file.Decls {
				fd, ok := d.(*ast.FuncDecl)
				if !ok || fd.Body == nil {
					continue
				}
				key := funcKey(p.PkgPath, fd)
				if fd.Recv != nil {
					methodsByName[fd.Name.Name] = append(methodsByName[fd.Name.Name], key)
				}
				if calls[key] == nil {
					calls[key] = map[string]bool{}
				}
				ord := map[string]int{}
				var stack []ast.Node
				ast.Inspect(fd.Body, func(n ast.Node) bool {
					if n == nil {
						stack = stack[:len(stack)-1]
						return true
					}
					stack = append(stack, n)
					ce, ok := n.(*ast.CallExpr)
					if !ok {
						return true
					}
					// calls that hand a writer on: F(w, ...) with F a library function
					if len(ce.Args) > 0 {
						var callee *types.Func
						switch f := ce.Fun.(type) {
						case *ast.Ident:
							callee, _ = p.TypesInfo.Uses[f].(*types.Func)
						case *ast.SelectorExpr:
							callee, _ = p.TypesInfo.Uses[f.Sel].(*types.Func)
						}
						if callee != nil && callee.Pkg() != nil && strings.HasPrefix(callee.Pkg().Path(), modPath) {
							if sig, ok := callee.Type().(*types.Signature); ok && sig.Recv() == nil && sig.Params().Len() > 0 && types.IsInterface(sig.Params().At(0).Type()) {
								writerCalls = append(writerCalls, wcall{objKey(callee), key, writerArg(p.TypesInfo, fd, ce.Args[0])})
							}
						}
					}
					callee := ""
					switch f := ce.Fun.(type) {
					case *ast.Ident:
						if obj, ok := p.TypesInfo.Uses[f]; ok {
							switch o := obj.(type) {
							case *types.Builtin:
								if o.Name() == "panic" {
									callee = "panic"
								}
							case *types.Func:
								if k := objKey(o); strings.HasPrefix(o.Pkg().Path(), modPath) {
									calls[key][k] = true
								}
							}
						}
					case *ast.SelectorExpr:
						if sel, ok := p.TypesInfo.Selections[f]; ok {
							if fn, ok := sel.Obj().(*types.Func); ok {
								if fn.Name() == "BytesOrPanic" {
									callee = "cryptobyte.BytesOrPanic"
								}
								if fn.Pkg() != nil && strings.HasPrefix(fn.Pkg().Path(), modPath) {
									if types.IsInterface(sel.Recv()) {
										it, _ := sel.Recv().Underlying().(*types.Interface)
										ifaceCalls = append(ifaceCalls, pending{key, fn.Name(), it})
									} else {
										calls[key][objKey(fn)] = true
									}
								}
							}
						} else if obj, ok := p.TypesInfo.Uses[f.Sel]; ok {
							if fn, ok := obj.(*types.Func); ok && fn.Pkg() != nil {
								switch fn.Pkg().Path() {
								case "log":
									if strings.HasPrefix(fn.Name(), "Fatal") || strings.HasPrefix(fn.Name(), "Panic") {
										callee = "log." + fn.Name()
									}
								case "os":
									if fn.Name() == "Exit" {
										callee = "os.Exit"
									}
								}
								if strings.HasPrefix(fn.Pkg().Path(), modPath) {
									calls[key][objKey(fn)] = true
								}
							}
						}
					}
					if callee != "" {
						guard := "other"
						for i := len(stack) - 1; i >= 0; i-- {
							ifs, ok := stack[i].(*ast.IfStmt)
							if !ok {
								continue
							}
							if as, ok := ifs.Init.(*ast.AssignStmt); ok && len(as.Rhs) == 1 {
								if wc, ok := as.Rhs[0].(*ast.CallExpr); ok {
									if se, ok := wc.Fun.(*ast.SelectorExpr); ok {
										if fn, ok := p.TypesInfo.Uses[se.Sel].(*types.Func); ok && fn.Pkg() != nil && fn.Pkg().Path() == "encoding/binary" && fn.Name() == "Write" && len(wc.Args) > 0 {
											guard = writerArg(p.TypesInfo, fd, wc.Args[0])
										}
									}
								}
							}
							break
						}
						// `err := binary.Write(...)` assigned just before a plain `if err != nil`
						if guard == "other" {
							guard = guardFromPrecedingAssign(p.TypesInfo, fd, stack)
						}
						sites = append(sites, site{pkg: rel, fn: strings.TrimPrefix(key, rel+"."), callee: callee, ordinal: ord[callee], guard: guard})
						ord[callee]++
					}
					return true
				})
			}
		}
	}
	// an interface method call may run the method of any library type that
	// implements the interface
	for _, ic := range ifaceCalls {
		for _, n := range libTypes {
			if ic.iface == nil || types.Implements(n, ic.iface) || types.Implements(types.NewPointer(n), ic.iface) {
				rel := strings.TrimPrefix(strings.TrimPrefix(n.Obj().Pkg().Path(), modPath), "/")
				calls[ic.caller][rel+"."+n.Obj().Name()+"."+ic.method] = true
			}
		}
	}
	_ = methodsByName
	// reachability from the decoder entry points
	reach := map[string]bool{}
	var stack []string
	for _, e := range decoderEntryPoints {
		if _, ok := calls[e]; ok && !reach[e] {
			reach[e] = true
			stack = append(stack, e)
		}
	}
	for len(stack) > 0 {
		f := stack[len(stack)-1]
		stack = stack[:len(stack)-1]
		for g := range calls[f] {
			if !reach[g] {
				reach[g] = true
				stack = append(stack, g)
			}
		}
	}
	// a function with a writer parameter is "buffer only" if every library call
	// passes a bytes.Buffer or the writer parameter of a caller that is buffer only
	bufOnlyFn := map[string]int{} // 0 unknown, 1 in progress, 2 yes, 3 no
	var bufOnly func(f string) bool
	bufOnly = func(f string) bool {
		switch bufOnlyFn[f] {
		case 1, 2:
			return true
		case 3:
			return false
		}
		bufOnlyFn[f] = 1
		ok := true
		for _, wc := range writerCalls {
			if wc.callee != f {
				continue
			}
			switch wc.arg {
			case "buffer":
			case "writer-param":
				if !bufOnly(wc.caller) {
					ok = false
				}
			default:
				ok = false
			}
		}
		if ok {
			bufOnlyFn[f] = 2
		} else {
			bufOnlyFn[f] = 3
		}
		return ok
	}
	for i := range sites {
		k := sites[i].pkg + "." + sites[i].fn
		sites[i].reachable = reach[k]
		sites[i].bufOnly = sites[i].guard == "buffer" || (sites[i].guard == "writer-param" && bufOnly(k))
	}
	sort.Slice(sites, func(i, j int) bool {
		a, b := sites[i], sites[j]
		if a.pkg != b.pkg {
			return a.pkg < b.pkg
		}
		if a.fn != b.fn {
			return a.fn < b.fn
		}
		if a.callee != b.callee {
			return a.callee < b.callee
		}
		return a.ordinal < b.ordinal
	})
	missing := []string{}
	for _, e := range decoderEntryPoints {
		if _, ok := calls[e]; !ok {
			missing = append(missing, e)
		}
	}
	if len(missing) > 0 {
		fmt.Fprintln(os.Stderr, "sites: entry points not found (renamed or removed):", strings.Join(missing, ", "))
	}
	return sites, nil
}

func sitesMain(args []string) {
	sites, err := collectSites()
	if err != nil {
		fmt.Fprintln(os.Stderr, "sites:", err)
		os.Exit(1)
	}
	var b strings.Builder
	b.WriteString("(* Generated/Sites.v -- GENERATED by `harness sites` from /repo's current source.\n")
	b.WriteString("   Every call site of log.Fatal*, log.Panic*, os.Exit, panic and BytesOrPanic in the\n")
	b.WriteString("   library packages: (package, function, callee, ordinal within the function,\n")
	b.WriteString("   reachable from the decoding entry points in the static call graph). *)\n")
	b.WriteString("From Coq Require Import List String.\nImport ListNotations.\nLocal Open Scope string_scope.\n\n")
	b.WriteString("Record site := mkSite { s_pkg : string; s_fn : string; s_callee : string; s_ord : nat;\n  s_reach : bool;      (* reachable from the decoding entry points in the static call graph *)\n  s_bufonly : bool }.  (* runs only if binary.Write to a bytes.Buffer fails, on every library call chain *)\n\n")
	b.WriteString("Definition generated_sites : list site := [\n")
	for i, s := range sites {
		sep := ";"
		if i == len(sites)-1 {
			sep = ""
		}
		fmt.Fprintf(&b, "  mkSite \"%s\" \"%s\" \"%s\" %d %v %v%s\n", s.pkg, s.fn, s.callee, s.ordinal, s.reachable, s.bufOnly, sep)
	}
	b.WriteString("].\n")
	out := b.String()
	if len(args) > 0 {
		old, _ := os.ReadFile(args[0])
		if string(old) != out {
			os.MkdirAll(args[0][:strings.LastIndex(args[0], "/")], 0755)
			if err := os.WriteFile(args[0], []byte(out), 0644); err != nil {
				fmt.Fprintln(os.Stderr, err)
				os.Exit(1)
			}
		}
	} else {
		fmt.Print(out)
	}
}

// guardFromPrecedingAssign handles
//     err := binary.Write(W, ...)      (or a for-range over values written one by one)
//     if err != nil { log.Fatal... }
func guardFromPrecedingAssign(info *types.Info, fd *ast.FuncDecl, stack []ast.Node) string {
	// find the innermost block containing the enclosing if, and the statement before it
	for i := len(stack) - 1; i > 0; i-- {
		ifs, ok := stack[i].(*ast.IfStmt)
		if !ok {
			continue
		}
		blk, ok := stack[i-1].(*ast.BlockStmt)
		if !ok {
			return "other"
		}
		for j, st := range blk.List {
			if st != ast.Stmt(ifs) || j == 0 {
				continue
			}
			if as, ok := blk.List[j-1].(*ast.AssignStmt); ok && len(as.Rhs) == 1 {
				if wc, ok := as.Rhs[0].(*ast.CallExpr); ok {
					if se, ok := wc.Fun.(*ast.SelectorExpr); ok {
						if fn, ok := info.Uses[se.Sel].(*types.Func); ok && fn.Pkg() != nil && fn.Pkg().Path() == "encoding/binary" && fn.Name() == "Write" && len(wc.Args) > 0 {
							return writerArg(info, fd, wc.Args[0])
						}
					}
				}
			}
		}
		return "other"
	}
	return "other"
}
