package main

import (
	"bytes"
	"fmt"
	"os"
	"os/exec"
	"path/filepath"
	"strings"
	"time"

	"github.com/foxboron/go-uefi/efi/attributes"
	"github.com/foxboron/go-uefi/efi/signature"
	"github.com/foxboron/go-uefi/efi/util"
	"github.com/foxboron/go-uefi/efivar"
)

func init() {
	// worker: sign a variable update with a recording signer (self-signed and CA-issued certificates; one signer per zone with the latency of a hardware token, which returns after the next second has begun); report the bytes of the
	// returned Marshallable, the descriptor fields, what the signer saw, and the
	// UTC instants just before and after the call
	implOps["efi_sign"] = func(a []string) []string {
		name, g := string(unhx(a[0])), parseGuidArg(a[1])
		var at uint32
		fmt.Sscan(a[2], &at)
		payload := unhx(a[3])
		var ki int
		fmt.Sscan(a[4], &ki)
		key := rsaKey(2048, ki)
		cert := simpleCert(key, "variable signer", int64(1000+ki))
		if ki%2 == 1 {
			cert = leafCert(key, "variable signer (CA-issued)", int64(1000+ki))
		}
		if ki >= 10 {
			// a certificate so large that the SignedData exceeds 64 KiB
			key = rsaKey(2048, 0)
			cert = storeFatCert(key, cert)
		}
		rec := &recSigner{key: key, slow: len(a) > 5 && a[5] == "slow"}
		t0 := time.Now().UTC()
		av, m, err := signature.SignEFIVariable(efivar.Efivar{Name: name, GUID: &g, Attributes: attributes.Attributes(at)}, rawValue(payload), rec, cert)
		t1 := time.Now().UTC()
		if err != nil {
			return []string{"err"}
		}
		var mb bytes.Buffer
		m.Marshal(&mb)
		out := mb.Bytes()
		if !bytes.Equal(out, m.Bytes()) {
			return []string{"err-marshal-bytes-differ"}
		}
		// the update signed by the previous call of this worker is still what it was (a caller signs
		// db, KEK and PK first and writes them afterwards)
		if prevSigned != nil && !bytes.Equal(prevSigned.Bytes(), prevSignedBytes) {
			return []string{"err-earlier-result-changed"}
		}
		prevSigned, prevSignedBytes = m, append([]byte{}, out...)
		return []string{"ok", hx(out), timeArg(av.Time), hx(av.AuthInfo.CertData), hx(rec.digest), hx(rec.sig), hx(cert.Raw),
			t0.Format("2006-01-02T15:04:05"), t1.Format("2006-01-02T15:04:05"), fmt.Sprint(rec.calls)}
	}
	checkers["C06"] = checker{
		rule: "all predefined variable names and random ASCII names, random and fixed GUIDs, attribute masks incl. APPEND_WRITE, payloads (empty database, hash lists, certificate lists, raw bytes), two keys; every case is signed in sandboxed workers started under TZ=UTC, TZ=Pacific/Kiritimati (UTC+14), TZ=Etc/GMT+12 (UTC-12; the civil date of one of the two always differs from the UTC date) and TZ=America/St_Johns with a recording signer (self-signed and CA-issued certificates; one signer per zone with the latency of a hardware token, which returns after the next second has begun); the output (and, at the next call, the output of the previous call of the same worker once more) is compared byte for byte with the Coq model sign_efi_variable (R_C06 extracted; descriptor time read back and required to lie between the UTC instants bracketing the call), the SignedData is verified over the rebuilt buffer and rejected over a one-byte-different buffer by the RFC 2315 reference verifier and by `openssl smime -verify -content`; every case is non-trivial, distinct by argument hash",
		run:  runC06,
	}
}

func opensslVerifyDetachedSD(dir string, sd, content []byte) (bool, string) {
	// wrap the bare SignedData in a ContentInfo
	oid := []byte{0x06, 0x09, 0x2a, 0x86, 0x48, 0x86, 0xf7, 0x0d, 0x01, 0x07, 0x02}
	ci := derTLV(0x30, append(append([]byte{}, oid...), derTLV(0xa0, sd)...))
	return opensslVerifyData(dir, ci, content)
}

// the Marshallable the previous efi_sign call of this worker returned, and its bytes at that time
var (
	prevSigned      interface{ Bytes() []byte }
	prevSignedBytes []byte
)

func runC06(c *Ctx) {
	rng := c.Rng
	// UTC+14 and UTC-12: at every moment the civil date of at least one of them differs from the UTC date
	zones := []string{"UTC", "Pacific/Kiritimati", "Etc/GMT+12", "America/St_Johns"}
	workers := map[string]*Worker{}
	for _, z := range zones {
		workers[z] = &Worker{Env: []string{"TZ=" + z}}
	}
	defer func() {
		for _, w := range workers {
			w.stop()
		}
	}()
	n := c.N(90, 4500)
	names := []string{}
	for _, v := range predefinedVars {
		names = append(names, v.Name)
	}
	for i := 0; i < n; i++ {
		name := pick(rng, names)
		if rng.Intn(3) == 0 {
			v, _ := genVar(rng)
			name = v.Name
		}
		g, _ := genGUID(rng)
		if rng.Intn(2) == 0 {
			g = *efivar.Db.GUID
		}
		at := uint32(0x27)
		switch rng.Intn(4) {
		case 0:
			at = 0x67
		case 1:
			at = uint32(rng.Intn(256))
		case 2:
			at = rng.Uint32()
		}
		var payload []byte
		pclass := ""
		switch rng.Intn(4) {
		case 0:
			payload, pclass = []byte{}, "empty-db"
		case 1:
			db := signature.SignatureDatabase{}
			for k := 1 + rng.Intn(3); k > 0; k-- {
				db.Append(gSHA256, util.EFIGUID{Data1: uint32(k)}, randBytes(rng, 32))
			}
			payload, pclass = db.Bytes(), "hash-list"
		case 2:
			db := signature.SignatureDatabase{}
			db.Append(gX509, util.EFIGUID{Data1: 7}, simpleCert(rsaKey(2048, 0), "payload cert", 5).Raw)
			payload, pclass = db.Bytes(), "cert-list"
		default:
			payload, pclass = randBytes(rng, rng.Intn(300)), "raw"
		}
		zone := zones[i%len(zones)]
		ki := rng.Intn(2)
		if i == len(zones) {
			ki = 10
		}
		// the first case of every zone uses a signer that takes until the next second has begun:
		// the descriptor and the signed buffer must still carry one and the same time
		speed := ""
		if i < len(zones) {
			speed = "slow"
		}
		o := workers[zone].Call(20*time.Second, "efi_sign", hx([]byte(name)), guidArg(g), fmt.Sprint(at), hx(payload), fmt.Sprint(ki), speed)
		class := zone + "/" + pclass
		if speed != "" {
			class += "/slow-signer"
		}
		fail := func(what string) {
			c.Rep.Record("efi_sign", class, true, what, []string{hx([]byte(name)), guidArg(g), fmt.Sprint(at), hx(payload)}, "violation", []string{what}, map[string]string{"what": strings.SplitN(what, ":", 2)[0], "tz": zone})
		}
		if o.Class != "ret" || len(o.Fields) < 10 || o.Fields[0] != "ok" {
			fail(fmt.Sprintf("SignEFIVariable failed: %s %v", o.Class, o.Fields))
			continue
		}
		f := o.Fields
		out, tm, sd, tbs, sig, certRaw := unhx(f[1]), f[2], unhx(f[3]), f[4], f[5], unhx(f[6])
		// the descriptor's time must be the current UTC time
		var y, mo, d, h, mi, s int
		fmt.Sscanf(strings.ReplaceAll(tm, ",", " "), "%d %d %d %d %d %d", &y, &mo, &d, &h, &mi, &s)
		dt := time.Date(y, time.Month(mo), d, h, mi, s, 0, time.UTC)
		t0, _ := time.Parse("2006-01-02T15:04:05", f[7])
		t1, _ := time.Parse("2006-01-02T15:04:05", f[8])
		if dt.Before(t0.Add(-time.Second)) || dt.After(t1.Add(time.Second)) {
			fail(fmt.Sprintf("timestamp %s is not the current UTC time (call between %s and %s UTC)", dt.Format(time.RFC3339), f[7], f[8]))
			continue
		}
		if f[9] != "1" {
			fail("signer called " + f[9] + " times")
			continue
		}
		cert := simpleCertParse(certRaw)
		// PKCS#7 signing time, read back from the SignedData through the reference parser
		p7time := refSigningTime(sd)
		args := []string{hx(certRaw), hx(cert.RawIssuer), cert.SerialNumber.String(), hx([]byte(name)), guidArg(g), fmt.Sprint(at), tm, hx(payload), hx([]byte(p7time)), sig, tbs, hx(out)}
		v, info := c.Drv.Eval("efi_sign", args...)
		c.Rep.Record("efi_sign", class, true, name, args, v, info, map[string]string{"tz": zone})
		if v != "ok" || len(info) == 0 {
			continue
		}
		buf := unhx(info[0])
		other := append([]byte{}, buf...)
		if len(other) > 0 {
			other[rng.Intn(len(other))] ^= 1
		}
		if ok, why := refVerify(sd, buf, cert); !ok {
			fail("rfc2315 reference rejects the SignedData over the rebuilt buffer: " + why)
		} else if ok2, _ := refVerify(sd, other, cert); ok2 {
			fail("rfc2315 reference accepts a different buffer")
		} else {
			c.Rep.Histogram["verifier/rfc2315-reference"]++
		}
		if i%5 == 0 || !c.Quick() {
			if ok, why := opensslVerifyDetachedSD(c.Work, sd, buf); !ok && why != "skip" {
				fail("openssl smime -verify rejects: " + why)
			} else if why != "skip" {
				if ok2, _ := opensslVerifyDetachedSD(c.Work, sd, other); ok2 {
					fail("openssl accepts a different buffer")
				}
				c.Rep.Histogram["verifier/openssl-smime"]++
			}
		}
	}
	_ = os.Remove
	_ = exec.Command
	_ = filepath.Join
}
