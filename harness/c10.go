package main

import (
	"testing/iotest"
	"io"
	"bytes"
	"encoding/binary"
	"fmt"
	"math/rand"
	"os"
	"path/filepath"

	"github.com/foxboron/go-uefi/efi/signature"
	"github.com/foxboron/go-uefi/efi/util"
)

// countingReader offers Read only and counts what was taken from it.
type countingReader struct {
	r io.Reader
	n int
}

func (c *countingReader) Read(p []byte) (int, error) {
	n, err := c.r.Read(p)
	c.n += n
	return n, err
}

func timeArg(t util.EFITime) string {
	return fmt.Sprintf("%d,%d,%d,%d,%d,%d,%d,%d,%d,%d,%d", t.Year, t.Month, t.Day, t.Hour, t.Minute, t.Second,
		t.Pad1, t.Nanosecond, uint16(t.TimeZone), t.Daylight, t.Pad2)
}

func init() {
	// worker side: decode a descriptor, report fields, reader position and Marshal
	implOps["auth2_read"] = func(a []string) []string {
		in := unhx(a[0])
		r := bytes.NewReader(in)
		v, err := signature.ReadEFIVariableAuthencation2(r)
		if err != nil {
			return []string{"err"}
		}
		var mb bytes.Buffer
		v.Marshal(&mb)
		ai := v.AuthInfo
		return []string{"ok", timeArg(v.Time), fmt.Sprint(ai.Header.Length), fmt.Sprint(ai.Header.Revision),
			fmt.Sprint(uint16(ai.Header.CertType)), guidArg(ai.CertType), hx(ai.CertData), fmt.Sprint(r.Len()), hx(mb.Bytes())}
	}
	// through a reader that offers nothing but Read (a file, a pipe, a section reader): what
	// the decoder took from it is counted by the reader itself
	implOps["auth2_read_plain"] = func(a []string) []string {
		in := unhx(a[0])
		cr := &countingReader{r: bytes.NewReader(in)}
		var src io.Reader = cr
		switch len(in) % 3 {
		case 1:
			src = iotest.HalfReader(cr)
		case 2:
			src = iotest.OneByteReader(cr)
		}
		v, err := signature.ReadEFIVariableAuthencation2(src)
		if err != nil {
			return []string{"err"}
		}
		var mb bytes.Buffer
		v.Marshal(&mb)
		ai := v.AuthInfo
		return []string{"ok", timeArg(v.Time), fmt.Sprint(ai.Header.Length), fmt.Sprint(ai.Header.Revision),
			fmt.Sprint(uint16(ai.Header.CertType)), guidArg(ai.CertType), hx(ai.CertData), fmt.Sprint(len(in) - cr.n), hx(mb.Bytes())}
	}
	// same through (*EFIVariableAuthentication2).Unmarshal on a bytes.Buffer; the caller
	// then reuses its buffer, which must not change the value it decoded
	implOps["auth2_unmarshal"] = func(a []string) []string {
		in := unhx(a[0])
		buf := bytes.NewBuffer(in)
		// the receiver has decoded another descriptor before (every other call): nothing of that may remain
		var v signature.EFIVariableAuthentication2
		if len(in)%2 == 0 {
			v = prevAuth2
		}
		if err := v.Unmarshal(buf); err != nil {
			return []string{"err"}
		}
		prevAuth2 = v
		left := buf.Len()
		for i := range in {
			in[i] = 0xAA
		}
		buf.Reset()
		buf.Write(bytes.Repeat([]byte{0x55}, len(in)))
		var mb bytes.Buffer
		v.Marshal(&mb)
		ai := v.AuthInfo
		return []string{"ok", timeArg(v.Time), fmt.Sprint(ai.Header.Length), fmt.Sprint(ai.Header.Revision),
			fmt.Sprint(uint16(ai.Header.CertType)), guidArg(ai.CertType), hx(ai.CertData), fmt.Sprint(left), hx(mb.Bytes())}
	}
	implOps["wincert_read"] = func(a []string) []string {
		in := unhx(a[0])
		var r interface {
			io.Reader
			Len() int
		} = bytes.NewReader(in)
		if len(a) > 1 && a[1] == "buffer" {
			r = bytes.NewBuffer(in)
		}
		var src io.Reader = r
		cr := &countingReader{r: bytes.NewReader(in)}
		if len(a) > 1 {
			// readers that deliver less than was asked for (a pipe, a buffered file)
			switch a[1] {
			case "half":
				src = iotest.HalfReader(cr)
			case "onebyte":
				src = iotest.OneByteReader(cr)
			}
		}
		w, err := signature.ReadWinCertificate(src)
		if err != nil {
			return []string{"err"}
		}
		left := r.Len()
		if src != io.Reader(r) {
			left = len(in) - cr.n
		}
		if b, ok := r.(*bytes.Buffer); ok {
			// the caller reuses its buffer
			for i := range in {
				in[i] = 0xAA
			}
			b.Reset()
			b.Write(bytes.Repeat([]byte{0x55}, len(in)))
		}
		var wb bytes.Buffer
		signature.WriteWinCertificate(&wb, &w)
		return []string{"ok", fmt.Sprint(w.Length), fmt.Sprint(w.Revision), fmt.Sprint(uint16(w.CertType)), hx(w.Certificate),
			fmt.Sprint(left), hx(wb.Bytes())}
	}
	checkers["C10"] = checker{
		rule: "descriptors built field by field (any timestamp incl. non-zero pad/nanosecond/timezone fields, certificate data 0..tier bound, any type GUID, any payload), the sbvarsign fixtures, and near-valid mutants (every truncation class, dwLength below/above the data, wrong revision, wrong certificate type), bare WIN_CERTIFICATEs of every certificate type and length residue mod 8 followed by a payload; each is decoded by the implementation in a sandboxed worker through ReadEFIVariableAuthencation2 (over a byte reader and over readers offering only Read -- whole, half and one byte at a time --, which count what was taken), Unmarshal (into a fresh receiver and into one that decoded another descriptor before) and ReadWinCertificate (over a reader or a bytes.Buffer which the caller overwrites and reuses before re-encoding the value), and R_C10 (extracted) compares fields, bytes left in the reader and the re-encoding; non-trivial = the model decodes the input successfully; distinct by input hash",
		run:  runC10,
	}
}

func genTime(rng *rand.Rand) util.EFITime {
	t := util.EFITime{Year: uint16(1900 + rng.Intn(8100)), Month: uint8(1 + rng.Intn(12)), Day: uint8(1 + rng.Intn(31)),
		Hour: uint8(rng.Intn(24)), Minute: uint8(rng.Intn(60)), Second: uint8(rng.Intn(60))}
	if rng.Intn(3) == 0 { // arbitrary bit patterns in every field
		t = util.EFITime{Year: uint16(rng.Uint32()), Month: uint8(rng.Uint32()), Day: uint8(rng.Uint32()), Hour: uint8(rng.Uint32()),
			Minute: uint8(rng.Uint32()), Second: uint8(rng.Uint32()), Pad1: uint8(rng.Uint32()), Nanosecond: rng.Uint32(),
			TimeZone: int16(rng.Uint32()), Daylight: uint8(rng.Uint32()), Pad2: uint8(rng.Uint32())}
	}
	return t
}

// the value the last auth2_unmarshal call of this worker decoded
var prevAuth2 signature.EFIVariableAuthentication2

func encAuth2(t util.EFITime, length uint32, rev uint16, typ uint16, g util.EFIGUID, data []byte) []byte {
	var b bytes.Buffer
	binary.Write(&b, binary.LittleEndian, t)
	binary.Write(&b, binary.LittleEndian, length)
	binary.Write(&b, binary.LittleEndian, rev)
	binary.Write(&b, binary.LittleEndian, typ)
	binary.Write(&b, binary.LittleEndian, g)
	b.Write(data)
	return b.Bytes()
}

func runC10(c *Ctx) {
	rng := c.Rng
	maxData := c.Bound(2048, 65536)
	evalAuth := func(class string, in []byte, entry string) {
		o := c.Impl(entry, hx(in))
		fields := o.Fields
		if o.Class != "ret" || len(fields) == 0 {
			fields = []string{o.Class}
		}
		args := append([]string{hx(in)}, fields...)
		v, info := c.Drv.Eval("auth2_read", args...)
		nt := len(info) > 0 && info[0] == "1"
		c.Rep.Record(entry, class, nt, fmt.Sprintf("%d bytes", len(in)), args, v, info, map[string]string{"entry": entry, "input": class})
	}
	evalWin := func(class string, in []byte) {
		// (iotest.DataErrReader reads ahead by design, so what is left behind it cannot be measured: not used here)
		kind := pick(rng, []string{"reader", "buffer", "reader", "buffer", "half", "onebyte"})
		class += "/" + kind
		o := c.Impl("wincert_read", hx(in), kind)
		fields := o.Fields
		if o.Class != "ret" || len(fields) == 0 {
			fields = []string{o.Class}
		}
		args := append([]string{hx(in)}, fields...)
		v, info := c.Drv.Eval("wincert_read", args...)
		nt := len(info) > 0 && info[0] == "1"
		c.Rep.Record("wincert_read", class, nt, fmt.Sprintf("%d bytes", len(in)), args, v, info, map[string]string{"entry": "wincert_read", "input": class})
	}
	// fixtures
	files, _ := filepath.Glob("/repo/tests/data/signatures/varsign/*.auth")
	for _, f := range files {
		b, err := os.ReadFile(f)
		if err == nil {
			evalAuth("fixture", b, "auth2_read")
			evalAuth("fixture", b, "auth2_unmarshal")
			evalWin("fixture-tail", b[16:])
		}
	}
	n := c.N(700, 100000)
	for i := 0; i < n; i++ {
		t := genTime(rng)
		if i%50 == 7 {
			t = util.EFITime{} // the all-zero timestamp
		}
		var dl int
		switch rng.Intn(5) {
		case 0:
			dl = 0
		case 1:
			dl = rng.Intn(8)
		case 2:
			dl = rng.Intn(maxData)
		default:
			dl = rng.Intn(300)
		}
		if i%211 == 0 {
			dl = 65536
		}
		if i%13 == 5 {
			dl = 0 // no certificate data at all: dwLength 24
		}
		data := randBytes(rng, dl)
		g, _ := genGUID(rng)
		if rng.Intn(2) == 0 {
			g = signature.EFI_CERT_TYPE_PKCS7_GUID
		} else if rng.Intn(4) == 0 {
			// the other type GUIDs the specification defines for this certificate (and the signature-list
			// type GUIDs, which are not certificate types at all): the data is as long as dwLength says
			g = pick(rng, []util.EFIGUID{signature.EFI_CERT_TYPE_RSA2048_SHA256_GUID, signature.CERT_RSA2048_GUID, signature.CERT_X509_GUID, signature.CERT_SHA256_GUID})
			if rng.Intn(2) == 0 {
				data = randBytes(rng, pick(rng, []int{527, 528, 529, 600, 16 + 256 + 256 + 112}))
				dl = len(data)
			}
		}
		payload := randBytes(rng, rng.Intn(64))
		length := uint32(24 + dl)
		valid := encAuth2(t, length, 0x0200, 0x0EF1, g, data)
		in := append(append([]byte{}, valid...), payload...)
		entry := pick(rng, []string{"auth2_read", "auth2_read", "auth2_read_plain"})
		if rng.Intn(3) == 0 {
			entry = "auth2_unmarshal"
		}
		evalAuth("valid", in, entry)
		evalWin("valid", in[16:])
		// encode direction: build the struct through the library's own types
		av := signature.EFIVariableAuthentication2{Time: t, AuthInfo: signature.WinCertificateUEFIGUID{
			Header:   signature.WINCertificate{Length: length, Revision: 0x0200, CertType: signature.WIN_CERT_TYPE_EFI_GUID},
			CertType: g, CertData: data}}
		var mb bytes.Buffer
		av.Marshal(&mb)
		wargs := []string{timeArg(t), fmt.Sprint(length), "512", "3825", guidArg(g), hx(data), hx(mb.Bytes())}
		v, info := c.Drv.Eval("auth2_write", wargs...)
		c.Rep.Record("auth2_write", "valid", true, "", wargs, v, info, nil)
		// a bare WIN_CERTIFICATE of every certificate type and every length residue, followed by a payload
		{
			wl := rng.Intn(48)
			ty := pick(rng, []uint16{0x0002, 0x0002, 0x0EF0, 0x0EF1, 0x0001, uint16(rng.Uint32())})
			w := make([]byte, 8, 8+wl+32)
			binary.LittleEndian.PutUint32(w, uint32(8+wl))
			binary.LittleEndian.PutUint16(w[4:], 0x0200)
			binary.LittleEndian.PutUint16(w[6:], ty)
			w = append(append(w, randBytes(rng, wl)...), randBytes(rng, rng.Intn(32))...)
			tn := "other"
			if ty == 0x0002 || ty == 0x0EF0 || ty == 0x0EF1 || ty == 0x0001 {
				tn = fmt.Sprintf("%#04x", ty)
			}
			evalWin(fmt.Sprintf("wincert/type=%s/len%%8=%d", tn, (8+wl)%8), w)
		}
		// near-valid mutants
		switch rng.Intn(9) {
		case 0: // truncated anywhere
			cut := rng.Intn(len(valid))
			evalAuth("truncated", valid[:cut], entry)
			if cut > 16 {
				evalWin("truncated", valid[16:cut])
			}
		case 1: // truncation at field boundaries
			cut := pick(rng, []int{0, 1, 15, 16, 19, 20, 22, 23, 24, 39, 40})
			if cut < len(valid) {
				evalAuth("truncated-boundary", valid[:cut], entry)
			}
		case 2: // dwLength below the header / below the GUID
			l := uint32(pick(rng, []int{0, 1, 7, 8, 9, 23}))
			evalAuth("length-small", encAuth2(t, l, 0x0200, 0x0EF1, g, data), entry)
			evalWin("length-small", encAuth2(t, l, 0x0200, 0x0EF1, g, data)[16:])
		case 3: // dwLength larger than the data present
			l := length + uint32(1+rng.Intn(5000))
			if rng.Intn(3) == 0 {
				l = 0xffffffff - uint32(rng.Intn(16))
			}
			evalAuth("length-large", encAuth2(t, l, 0x0200, 0x0EF1, g, data), entry)
			evalWin("length-large", encAuth2(t, l, 0x0200, 0x0EF1, g, data)[16:])
		case 4: // dwLength smaller than the data: the tail becomes payload
			if dl > 0 {
				l := uint32(24 + rng.Intn(dl))
				evalAuth("length-short", encAuth2(t, l, 0x0200, 0x0EF1, g, data), entry)
			}
		case 5:
			evalAuth("bad-revision", encAuth2(t, length, uint16(rng.Uint32())|1, 0x0EF1, g, data), entry)
		case 6:
			ty := pick(rng, []uint16{0x0002, 0x0EF0, 0, 0xffff})
			evalAuth("other-cert-type", encAuth2(t, length, 0x0200, ty, g, data), entry)
			evalWin("other-cert-type", encAuth2(t, length, 0x0200, ty, g, data)[16:])
		}
	}
}
