package main

import (
	"bufio"
	"crypto/sha256"
	"encoding/hex"
	"encoding/json"
	"fmt"
	"io"
	"math/rand"
	"os"
	"os/exec"
	"sort"
	"strings"
)

// ---------------------------------------------------------------------------
// Driver: the extracted Coq model, spoken to over pipes.

type Oracle func(kind string, args []string) string

type Driver struct {
	cmd    *exec.Cmd
	in     io.WriteCloser
	out    *bufio.Reader
	oracle Oracle
	Queries map[string]int
}

func StartDriver(path string, oracle Oracle) (*Driver, error) {
	// the extracted list functions are not tail recursive: megabyte inputs need a deep stack
	cmd := exec.Command("sh", "-c", `ulimit -s unlimited 2>/dev/null || ulimit -s 1000000 2>/dev/null; exec "$0"`, path)
	in, err := cmd.StdinPipe()
	if err != nil {
		return nil, err
	}
	outp, err := cmd.StdoutPipe()
	if err != nil {
		return nil, err
	}
	cmd.Stderr = os.Stderr
	if err := cmd.Start(); err != nil {
		return nil, err
	}
	return &Driver{cmd: cmd, in: in, out: bufio.NewReaderSize(outp, 1<<20), oracle: oracle, Queries: map[string]int{}}, nil
}

func (d *Driver) Close() {
	d.in.Close()
	d.cmd.Wait()
}

// Eval sends one case and returns the verdict and extra info fields.
func (d *Driver) Eval(op string, args ...string) (string, []string) {
	line := "C\t" + op
	for _, a := range args {
		line += "\t" + a
	}
	if _, err := io.WriteString(d.in, line+"\n"); err != nil {
		return "skip", []string{"driver write: " + err.Error()}
	}
	for {
		l, err := d.out.ReadString('\n')
		if err != nil {
			return "skip", []string{"driver read: " + err.Error()}
		}
		f := strings.Split(strings.TrimRight(l, "\n"), "\t")
		switch f[0] {
		case "Q":
			ans := "0"
			if d.oracle != nil && len(f) > 1 {
				d.Queries[f[1]]++
				ans = d.oracle(f[1], f[2:])
			}
			io.WriteString(d.in, "A\t"+ans+"\n")
		case "R":
			if len(f) < 2 {
				return "skip", nil
			}
			return f[1], f[2:]
		}
	}
}

// ---------------------------------------------------------------------------
// Report written for bin/check.

type Violation struct {
	Kind    string            `json:"kind"` // violation | mismatch
	Op      string            `json:"op"`
	Class   string            `json:"class"`
	Args    []string          `json:"args"`
	Desc    string            `json:"desc"`
	Info    []string          `json:"info"`
	Match   map[string]string `json:"match,omitempty"` // keys a known-finding entry may match on
}

type Report struct {
	Property           string         `json:"property"`
	Tier               string         `json:"tier"`
	Seed               int64          `json:"seed"`
	Evaluations        int            `json:"evaluations"`
	DistinctNontrivial int            `json:"distinct_nontrivial"`
	Rule               string         `json:"rule"`
	Samples            []any          `json:"samples"`
	Histogram          map[string]int `json:"histogram"`
	Violations         []Violation    `json:"violations"`
	Skips              int            `json:"skips"`
	SkipSamples        []string       `json:"skip_samples,omitempty"`
	OracleQueries      map[string]int `json:"oracle_queries,omitempty"`
	Extra              map[string]any `json:"extra,omitempty"`
	Exhaustive         bool           `json:"exhaustive,omitempty"`
	seen               map[[32]byte]bool
}

func NewReport(prop, tier string, seed int64, rule string) *Report {
	return &Report{Property: prop, Tier: tier, Seed: seed, Rule: rule,
		Samples: []any{}, Violations: []Violation{}, Histogram: map[string]int{}, seen: map[[32]byte]bool{}, Extra: map[string]any{}}
}

// Record accounts for one evaluated case.
func (r *Report) Record(op, class string, nontrivial bool, desc string, args []string, verdict string, info []string, match map[string]string) {
	r.Evaluations++
	r.Histogram[op+"/"+class]++
	if nontrivial {
		h := sha256.Sum256([]byte(op + "\x00" + strings.Join(args, "\x00")))
		if !r.seen[h] {
			r.seen[h] = true
			r.DistinctNontrivial++
			if len(r.Samples) < 6 || (len(r.Samples) < 14 && r.Histogram[op+"/"+class] == 1) {
				r.Samples = append(r.Samples, map[string]any{"op": op, "class": class, "desc": desc, "args": truncArgs(args), "verdict": verdict})
			}
		}
	}
	switch verdict {
	case "ok":
	case "skip":
		r.Skips++
		if len(r.SkipSamples) < 5 {
			r.SkipSamples = append(r.SkipSamples, op+": "+strings.Join(info, " "))
		}
	default:
		if len(r.Violations) < 200 {
			r.Violations = append(r.Violations, Violation{Kind: verdict, Op: op, Class: class, Args: args, Desc: desc, Info: info, Match: match})
		}
	}
}

func truncArgs(a []string) []string {
	out := make([]string, len(a))
	for i, s := range a {
		if len(s) > 160 {
			s = s[:160] + fmt.Sprintf("...(%d chars)", len(s))
		}
		out[i] = s
	}
	return out
}

func (r *Report) Write(path string) error {
	b, err := json.MarshalIndent(r, "", " ")
	if err != nil {
		return err
	}
	return os.WriteFile(path, b, 0644)
}

// ---------------------------------------------------------------------------
// helpers

func hx(b []byte) string { return hex.EncodeToString(b) }

func unhx(s string) []byte {
	b, err := hex.DecodeString(s)
	if err != nil {
		panic(err)
	}
	return b
}

func b01(b bool) string {
	if b {
		return "1"
	}
	return "0"
}

func randBytes(rng *rand.Rand, n int) []byte {
	b := make([]byte, n)
	rng.Read(b)
	return b
}

func pick[T any](rng *rand.Rand, xs []T) T { return xs[rng.Intn(len(xs))] }

func sortedKeys(m map[string]int) []string {
	ks := make([]string, 0, len(m))
	for k := range m {
		ks = append(ks, k)
	}
	sort.Strings(ks)
	return ks
}

// catch runs f and classifies how it ended: "ret" or "panic" (process exits are
// only observable from the sandboxed worker, see worker.go).
func catch(f func()) (class string, msg string) {
	defer func() {
		if r := recover(); r != nil {
			class = "panic"
			msg = fmt.Sprint(r)
		}
	}()
	f()
	return "ret", ""
}
