package main

import (
	"bufio"
	"fmt"
	"io"
	"os"
	"os/exec"
	"runtime"
	"runtime/debug"
	"strconv"
	"strings"
	"syscall"
	"time"
)

// Sandboxed worker: a child process that runs implementation operations one
// at a time.  The parent learns how each call ended:
//   ret    - the operation returned (fields follow)
//   panic  - a run-time panic was recovered in the child
//   exit   - the child terminated (log.Fatal / os.Exit / fatal error)
//   timeout- no answer within the limit (the child is killed)
// plus the runtime.MemStats.TotalAlloc delta of the call.

type implFunc func(args []string) []string

var implOps = map[string]implFunc{}

func workerMain(args []string) {
	debug.SetGCPercent(50)
	// An address-space limit turns an absurd allocation into an immediate
	// fatal "out of memory" (observed by the parent as class exit) instead of
	// minutes of page zeroing.
	// (not under the race detector, whose shadow memory needs the address space)
	if os.Getenv("VERIF_NO_RLIMIT") == "" {
		lim := syscall.Rlimit{Cur: 3 << 30, Max: 3 << 30}
		syscall.Setrlimit(syscall.RLIMIT_AS, &lim)
	}
	in := bufio.NewReaderSize(os.Stdin, 1<<20)
	out := bufio.NewWriterSize(os.Stdout, 1<<20)
	for {
		l, err := in.ReadString('\n')
		if err != nil {
			return
		}
		f := strings.Split(strings.TrimRight(l, "\n"), "\t")
		fn, ok := implOps[f[0]]
		if !ok {
			fmt.Fprintf(out, "unknown\t0\n")
			out.Flush()
			continue
		}
		var ms0, ms1 runtime.MemStats
		runtime.ReadMemStats(&ms0)
		var res []string
		class, msg := catch(func() { res = fn(f[1:]) })
		runtime.ReadMemStats(&ms1)
		alloc := ms1.TotalAlloc - ms0.TotalAlloc
		if class == "panic" {
			res = []string{strings.ReplaceAll(strings.ReplaceAll(msg, "\t", " "), "\n", " ")}
		}
		fmt.Fprintf(out, "%s\t%d\t%s\n", class, alloc, strings.Join(res, "\t"))
		out.Flush()
	}
}

type Worker struct {
	Env      []string // extra environment (e.g. TZ=...)
	Bin      string   // another build of this program (the -race build), default: this executable
	cmd      *exec.Cmd
	in       io.WriteCloser
	out      *bufio.Reader
	Restarts int
	lines    chan string
}

type Obs struct {
	Class  string   // ret | panic | exit | timeout
	Alloc  uint64
	Fields []string
}

func (w *Worker) start() error {
	self, err := os.Executable()
	if err != nil {
		return err
	}
	if w.Bin != "" {
		self = w.Bin
	}
	cmd := exec.Command(self, "worker")
	cmd.Env = append(append(os.Environ(), "GOMEMLIMIT=6GiB"), w.Env...)
	in, err := cmd.StdinPipe()
	if err != nil {
		return err
	}
	outp, err := cmd.StdoutPipe()
	if err != nil {
		return err
	}
	cmd.Stderr = nil
	if err := cmd.Start(); err != nil {
		return err
	}
	w.cmd, w.in, w.out = cmd, in, bufio.NewReaderSize(outp, 1<<20)
	w.lines = make(chan string, 1)
	go func(r *bufio.Reader, ch chan string) {
		for {
			l, err := r.ReadString('\n')
			if err != nil {
				close(ch)
				return
			}
			ch <- l
		}
	}(w.out, w.lines)
	return nil
}

func (w *Worker) stop() {
	if w.cmd != nil {
		w.in.Close()
		w.cmd.Process.Kill()
		w.cmd.Wait()
		w.cmd = nil
	}
}

// Call runs one operation in the sandbox.
func (w *Worker) Call(timeout time.Duration, op string, args ...string) Obs {
	if w.cmd == nil {
		if err := w.start(); err != nil {
			return Obs{Class: "exit", Fields: []string{"cannot start worker: " + err.Error()}}
		}
	}
	line := op
	for _, a := range args {
		line += "\t" + a
	}
	if _, err := io.WriteString(w.in, line+"\n"); err != nil {
		w.stop()
		w.Restarts++
		return Obs{Class: "exit"}
	}
	select {
	case l, ok := <-w.lines:
		if !ok {
			w.stop()
			w.Restarts++
			return Obs{Class: "exit"}
		}
		f := strings.Split(strings.TrimRight(l, "\n"), "\t")
		o := Obs{Class: f[0]}
		if len(f) > 1 {
			o.Alloc, _ = strconv.ParseUint(f[1], 10, 64)
		}
		if len(f) > 2 {
			o.Fields = f[2:]
		}
		return o
	case <-time.After(timeout):
		w.stop()
		w.Restarts++
		return Obs{Class: "timeout"}
	}
}

// classLetter is the encoding of an outcome class sent to the driver.
func (o Obs) Letter() string {
	switch o.Class {
	case "ret":
		return "R"
	case "panic":
		return "P"
	case "exit":
		return "X"
	case "timeout":
		return "T"
	}
	return "?"
}
