(* Model/SigDb.v -- efi/signature/signature_database.go: append / remove /
   membership queries on a signature database (as repaired: PEM input is
   normalised before duplicate detection and size matching, duplicates are
   detected across all lists of the type, queries honour the type). *)
From Coq Require Import Bool List NArith Lia Arith.
From Coq.Strings Require Import Byte.
From GoUefi Require Import Base.Bytes Base.Outcome Base.Reader Model.Util Model.SigList.
Import ListNotations.
Local Open Scope N_scope.
Local Open Scope outcome_scope.

Section Db.
(* encoding/pem.Decode: Some der when the data starts a PEM block *)
Variable pem_decode : bytes -> option bytes.

Definition normalize (t : guid) (data : bytes) : bytes :=
  if guid_eqb t CERT_X509 then match pem_decode data with Some d => d | None => data end else data.

Definition sig_eqb (a b : sigdata) : bool :=
  guid_eqb (sd_owner a) (sd_owner b) && bytes_eqb (sd_data a) (sd_data b).
Definition list_has (l : siglist) (s : sigdata) : bool := existsb (sig_eqb s) (sl_sigs l).
Definition db_has (db : list siglist) (t : guid) (s : sigdata) : bool :=
  existsb (fun l => guid_eqb (sl_type l) t && list_has l s) db.

Definition empty_list (t : guid) : siglist := mkList t 28 0 0 [] [].

(* SignatureList.AppendBytes *)
Definition list_append (l : siglist) (o : guid) (data : bytes) : outcome siglist :=
  let d := normalize (sl_type l) data in
  if list_has l (mkSig o d) then Err 2
  else if guid_eqb (sl_type l) CERT_SHA256 && negb (blen d =? 32) then Err 3
  else if negb (is_nil (sl_sigs l)) && negb (sl_size l =? blen d + 16) then Err 5
  else Ret (mkList (sl_type l) (sl_listsize l + (blen d + 16)) (sl_headersize l) (blen d + 16)
                   (sl_header l) (sl_sigs l ++ [mkSig o d])).

Fixpoint append_first (db : list siglist) (t : guid) (size : N) (o : guid) (d : bytes)
  : option (outcome (list siglist)) :=
  match db with
  | [] => None
  | l :: r =>
      if guid_eqb (sl_type l) t && (sl_size l =? size)
      then Some (l' <- list_append l o d ;; Ret (l' :: r))
      else match append_first r t size o d with
           | Some x => Some (r' <- x ;; Ret (l :: r'))
           | None => None
           end
  end.

(* SignatureDatabase.Append *)
Definition db_append (db : list siglist) (t o : guid) (data : bytes) : outcome (list siglist) :=
  if negb (valid_scheme t) then Err 1 else
  let d := normalize t data in
  if db_has db t (mkSig o d) then Err 2 else
  match append_first db t (blen d + 16) o d with
  | Some x => x
  | None => l' <- list_append (empty_list t) o d ;; Ret (db ++ [l'])
  end.

Fixpoint remove_first (sigs : list sigdata) (s : sigdata) : list sigdata :=
  match sigs with
  | [] => []
  | x :: r => if sig_eqb s x then r else x :: remove_first r s
  end.

(* SignatureList.RemoveBytes: the first matching entry goes; a list that
   becomes empty is reset to a new list of its type *)
Definition list_remove (l : siglist) (o : guid) (data : bytes) : outcome siglist :=
  if list_has l (mkSig o data) then
    match sl_sigs l with
    | [_] => Ret (empty_list (sl_type l))
    | _ => Ret (mkList (sl_type l) (sl_listsize l - sl_size l) (sl_headersize l) (sl_size l)
                       (sl_header l) (remove_first (sl_sigs l) (mkSig o data)))
    end
  else Err 4.

(* SignatureList.Exists: the index of the first matching entry *)
Fixpoint index_of (sigs : list sigdata) (s : sigdata) : option N :=
  match sigs with
  | [] => None
  | x :: r => if sig_eqb s x then Some 0
              else match index_of r s with Some i => Some (i + 1) | None => None end
  end.

(* SignatureDatabase.Remove; None = nothing to remove (an error is returned) *)
Fixpoint db_remove_go (db : list siglist) (t : guid) (size : N) (s : sigdata) : option (list siglist) :=
  match db with
  | [] => None
  | l :: r =>
      if guid_eqb (sl_type l) t && (sl_size l =? size) && list_has l s then
        match sl_sigs l with
        | [_] => Some r                                      (* the emptied list is dropped *)
        | _ => Some (mkList (sl_type l) (sl_listsize l - sl_size l) (sl_headersize l) (sl_size l)
                            (sl_header l) (remove_first (sl_sigs l) s) :: r)
        end
      else match db_remove_go r t size s with
           | Some r' => Some (l :: r')
           | None => None
           end
  end.

Definition db_remove (db : list siglist) (t o : guid) (data : bytes) : outcome (list siglist) :=
  match db_remove_go db t (blen data + 16) (mkSig o data) with
  | Some db' => Ret db'
  | None => Err 4
  end.

(* AppendList *)
Definition db_append_list (db : list siglist) (l : siglist) : list siglist := db ++ [l].

(* SigDataExists / BytesExists; Exists (every entry of the argument list) *)
Definition db_sigdata_exists (db : list siglist) (t : guid) (s : sigdata) : bool := db_has db t s.
Definition db_list_exists (db : list siglist) (l : siglist) : bool :=
  forallb (fun s => db_has db (sl_type l) s) (sl_sigs l).

(* ---- the abstract view: an ordered collection of (type, owner, data) ---- *)
Definition entry := (guid * sigdata)%type.
Definition list_view (l : siglist) : list entry := map (fun s => (sl_type l, s)) (sl_sigs l).
Definition view (db : list siglist) : list entry := flat_map list_view db.

(* operations of a history *)
Inductive dbop :=
| OpAppend (t o : guid) (data : bytes)
| OpRemove (t o : guid) (data : bytes)
| OpAppendList (l : siglist)
| OpRecode.                               (* encode, then decode *)

Definition db_step (db : list siglist) (op : dbop) : list siglist * bool :=
  match op with
  | OpAppend t o d => match db_append db t o d with Ret db' => (db', true) | _ => (db, false) end
  | OpRemove t o d => match db_remove db t o d with Ret db' => (db', true) | _ => (db, false) end
  | OpAppendList l => (db_append_list db l, true)
  | OpRecode => match read_signature_database (enc_db db) with Ret db' => (db', true) | _ => (db, false) end
  end.

(* operations on one list, called directly (AppendBytes / AppendSignature,
   RemoveBytes / RemoveSignature) *)
Inductive lop :=
| LAppend (o : guid) (data : bytes)
| LRemove (o : guid) (data : bytes).

Definition list_step (l : siglist) (op : lop) : siglist * bool :=
  match op with
  | LAppend o d => match list_append l o d with Ret l' => (l', true) | _ => (l, false) end
  | LRemove o d => match list_remove l o d with Ret l' => (l', true) | _ => (l, false) end
  end.
End Db.
