(* Model/Faults.v -- C15: the operations that call a caller-supplied dependency,
   as programs over the dependency's answers (Base/Prog). Writing a variable is
   Model/VarIO.write_var. Definitions only. *)
From Coq Require Import Bool List NArith Lia Arith.
From Coq.Strings Require Import Byte.
From GoUefi Require Import Base.Bytes Base.Outcome Base.Reader Base.Prog Model.Util Model.VarIO.
Import ListNotations.
Local Open Scope N_scope.

(* ---- signing: SignPKCS7 / SignAuthenticode / SignEFIVariable ask the signer
   once, for a digest; what they return on success is a function of the signature *)
Definition sign_prog {A} (digest : bytes) (finish : bytes -> A) : prog (outcome A) :=
  Call (CSign digest) (fun r =>
    match r with
    | RFail => Done (Err 1)
    | ROk _ sig => Done (Ret (finish sig))
    end).

(* PECOFFBinary.Sign: the image state changes only after the signer succeeded *)
Definition pe_sign_prog {S} (st : S) (digest : bytes) (append : S -> bytes -> S) (finish : bytes -> bytes)
  : prog (outcome bytes * S) :=
  Call (CSign digest) (fun r =>
    match r with
    | RFail => Done (Err 1, st)
    | ROk _ sig => Done (Ret (finish sig), append st (finish sig))
    end).

(* Efivarfs.WriteSignedUpdate: sign, then write the variable *)
Definition signed_update_prog (digest : bytes) (finish : bytes -> bytes)
           (dir name : bytes) (g : guid) (attrs : N) : prog (outcome unit) :=
  Call (CSign digest) (fun r =>
    match r with
    | RFail => Done (Err 1)
    | ROk _ sig => write_var dir name g attrs (finish sig)
    end).

(* ---- reading a variable: Open, Stat, reads, Close (as repaired: a failing
   Close is reported) ---- *)
Definition read_var_prog (path : bytes) (required : N) : prog (outcome (N * bytes)) :=
  Call (COpen path) (fun ro =>
    match ro with
    | RFail => Done (Err 1)
    | ROk _ _ =>
        Call CStat (fun rs =>
          match rs with
          | RFail => Call CClose (fun _ => Done (Err 2))
          | ROk size _ =>
              Call (CRead 4) (fun ra =>
                match ra with
                | RFail => Call CClose (fun _ => Done (Err 3))
                | ROk _ a =>
                    Call (CRead (size - 4)) (fun rv =>
                      Call CClose (fun rc =>
                        match rv, rc with
                        | RFail, _ => Done (Err 4)
                        | _, RFail => Done (Err 5)
                        | ROk _ v, ROk _ _ =>
                            if attrs_subset required (unle a) then Done (Ret (unle a, v)) else Done (Err 6)
                        end))
                end)
          end)
    end).

(* ---- hashing / verifying an image over a failing io.ReaderAt: every read of
   the image goes through the dependency; any failure ends the operation ---- *)
Fixpoint reads_prog {A} (n : nat) (k : prog (outcome A)) : prog (outcome A) :=
  match n with
  | O => k
  | S n' => Call CReadAt (fun r => match r with RFail => Done (Err 1) | ROk _ _ => reads_prog n' k end)
  end.
