(* Model/PE.v -- authenticode/checksum.go: Parse (the ranges that are hashed),
   Hash's pre-image, Signatures, AppendSignature, Bytes (as repaired: images
   whose headers, sections or certificate table do not fit the file are
   rejected). debug/pe's own acceptance test is a parameter. Definitions only. *)
From Coq Require Import Bool List NArith Lia Arith.
From Coq.Strings Require Import Byte.
From GoUefi Require Import Base.Bytes Base.Outcome Base.Reader Model.WinCert.
Import ListNotations.
Local Open Scope N_scope.
Local Open Scope outcome_scope.

(* bytes [off, off+len) of the image; short if the image ends earlier *)
Definition sub (off len : N) (img : bytes) : bytes :=
  if blen img <=? off then []     (* also keeps a huge offset from ever becoming a huge nat *)
  else firstn (N.to_nat (N.min len (blen img - off))) (skipn (N.to_nat off) img).
Definition u16 (off : N) (img : bytes) : N := unle (sub off 2 img).
Definition u32 (off : N) (img : bytes) : N := unle (sub off 4 img).

Record layout := mkLayout {
  l_opt : N;            (* file offset of the optional header: e_lfanew + 24 *)
  l_soo : N;            (* SizeOfOptionalHeader *)
  l_plus : bool;        (* PE32+ *)
  l_soh : N;            (* SizeOfHeaders *)
  l_nrva : N;           (* NumberOfRvaAndSizes *)
  l_va : N; l_certsize : N;            (* DataDirectory[4], zero when absent *)
  l_secs : list (N * N);               (* (PointerToRawData, SizeOfRawData) in table order *)
  l_size : N }.                        (* file size *)

Definition l_cksum (L : layout) : N := l_opt L + 64.
Definition l_dd4 (L : layout) : N := l_opt L + (if l_plus L then 144 else 128).

Fixpoint read_sections (n : nat) (off : N) (img : bytes) : list (N * N) :=
  match n with
  | O => []
  | S n' => (u32 (off + 20) img, u32 (off + 16) img) :: read_sections n' (off + 40) img
  end.

(* the header fields debug/pe hands to Parse; None when they cannot be read *)
Definition read_layout (img : bytes) : option layout :=
  let size := blen img in
  if size <? 96 then None else
  if negb ((u16 0 img =? 23117) (* "MZ" *)) then None else
  let e := u32 60 img in
  if size <? e + 24 then None else
  if negb (u32 e img =? 17744) (* "PE\0\0" *) then None else
  let nsec := u16 (e + 6) img in
  let soo := u16 (e + 20) img in
  let opt := e + 24 in
  if size <? opt + soo + 40 * nsec then None else
  if soo =? 0 then Some (mkLayout opt 0 false 0 0 0 0 (read_sections (N.to_nat nsec) opt img) size) else
  let magic := u16 opt img in
  if negb ((magic =? 267) || (magic =? 523)) then None else
  let plus := magic =? 523 in
  let ddoff := if plus then 112 else 96 in
  if soo <? ddoff then None else
  let nrva := u32 (opt + ddoff - 4) img in
  let have4 := (5 <=? nrva) && (ddoff + 40 <=? soo) in
  let dd4 := opt + ddoff + 32 in
  Some (mkLayout opt soo plus (u32 (opt + 60) img) nrva
         (if have4 then u32 dd4 img else 0) (if have4 then u32 (dd4 + 4) img else 0)
         (read_sections (N.to_nat nsec) (opt + soo) img) size).

(* slices.SortFunc by Offset (the result is unique when the keys are distinct) *)
Fixpoint insert_sec (s : N * N) (l : list (N * N)) : list (N * N) :=
  match l with
  | [] => [s]
  | x :: r => if fst s <=? fst x then s :: l else x :: insert_sec s r
  end.
Definition sort_secs (l : list (N * N)) : list (N * N) := fold_right insert_sec [] l.
Definition hashed_secs (L : layout) : list (N * N) :=
  filter (fun s => negb (snd s =? 0)) (sort_secs (l_secs L)).
Definition secs_total (l : list (N * N)) : N := fold_right (fun s a => snd s + a) 0 l.
Definition l_sum (L : layout) : N := l_soh L + secs_total (hashed_secs L).
Definition pad8 (n : N) : N := (8 - n mod 8) mod 8.

(* a parsed image: what PECOFFBinary holds *)
Record pestate := mkPE {
  pe_L : layout;
  pe_img : bytes;
  pe_va : N; pe_ddsize : N;       (* Datadir *)
  pe_optdd : bytes;               (* the 8 directory-entry bytes Bytes() will emit *)
  pe_table : bytes }.             (* certTable *)

(* Parse *)
Definition pe_parse (pe_ok : bool) (img : bytes) : outcome pestate :=
  if negb pe_ok then Err 1 else
  match read_layout img with
  | None => Err 2
  | Some L =>
      if l_soo L =? 0 then Err 3
      else if l_soh L <? l_dd4 L + 8 then Err 4
      else if existsb (fun s => l_size L <? fst s + snd s) (hashed_secs L) then Err 5
      else if l_size L <? l_sum L then Err 6
      else if l_size L - l_sum L <? l_certsize L then Err 7
      else if negb (l_certsize L =? 0) && (l_size L <? l_va L + l_certsize L) then Err 8   (* the table is read in full *)
      else Ret (mkPE L img (l_va L) (l_certsize L) (sub (l_dd4 L) 8 img) (sub (l_va L) (l_certsize L) img))
  end.

(* a section whose PointerToRawData is 0 cannot be read: debug/pe hands out a failing reader *)
Definition secs_readable (L : layout) : bool := forallb (fun s => negb (fst s =? 0)) (hashed_secs L).

(* the concatenation of the hashed ranges, zero padded *)
Definition hash_ranges (L : layout) (img : bytes) : bytes :=
  sub 0 (l_cksum L) img ++
  sub (l_cksum L + 4) (l_dd4 L - (l_cksum L + 4)) img ++
  sub (l_dd4 L + 8) (l_soh L - (l_dd4 L + 8)) img ++
  flat_map (fun s => sub (fst s) (snd s) img) (hashed_secs L) ++
  sub (l_sum L) (l_size L - l_sum L - l_certsize L) img ++
  zeros (N.to_nat (pad8 (l_size L))).

(* the bytes Hash feeds to the digest (None: a reader failed, Hash returns nil) *)
Definition hash_content (st : pestate) : option bytes :=
  if negb (secs_readable (pe_L st)) then None else Some (hash_ranges (pe_L st) (pe_img st)).

(* Bytes(): firstSection || optDataDir || lastSection || padding || certTable *)
Definition pe_bytes (st : pestate) : bytes :=
  let L := pe_L st in let img := pe_img st in
  sub 0 (l_dd4 L) img ++ pe_optdd st ++
  sub (l_dd4 L + 8) (l_size L - l_certsize L - (l_dd4 L + 8)) img ++
  zeros (N.to_nat (pad8 (l_size L))) ++ pe_table st.

(* AppendSignature (lengths are uint32) *)
Definition u32wrap (n : N) : N := n mod 4294967296.
Definition append_signature (st : pestate) (sig : bytes) : pestate :=
  let len := u32wrap (8 + blen sig) in
  let padn := pad8 len in
  let entry := le 4 len ++ le 2 512 ++ le 2 2 ++ sig ++ zeros (N.to_nat padn) in
  let '(va, sz) :=
    if negb (pe_va st =? 0) && negb (pe_ddsize st =? 0)
    then (pe_va st, u32wrap (u32wrap (pe_ddsize st + len) + padn))
    else (u32wrap (l_size (pe_L st) + pad8 (l_size (pe_L st))), u32wrap (len + padn)) in
  mkPE (pe_L st) (pe_img st) va sz (le 4 va ++ le 4 sz) (pe_table st ++ entry).

(* Signatures(): WIN_CERTIFICATEs while more than 8 bytes remain, padding skipped *)
Fixpoint signatures_loop (fuel : nat) (t : bytes) : outcome (list wincert) :=
  if blen t <=? 8 then Ret [] else
  match fuel with
  | O => Err 98
  | S f =>
      '(w, rest) <- read_wincert t ;;
      l <- signatures_loop f (skipn (N.to_nat (pad8 (wc_length w))) rest) ;;
      Ret (w :: l)
  end.
Definition pe_signatures (st : pestate) : outcome (list wincert) :=
  signatures_loop (length (pe_table st)) (pe_table st).

(* ---- the specification: the hashing steps of the Microsoft document, as the
   list of file positions that are hashed, in order ---- *)
Definition nseq (off len : N) : list N := map N.of_nat (seq (N.to_nat off) (N.to_nat len)).
Definition spec_positions (L : layout) : list N :=
  nseq 0 (l_cksum L) ++                                         (* step 3 *)
  nseq (l_cksum L + 4) (l_dd4 L - (l_cksum L + 4)) ++           (* steps 4-5 *)
  nseq (l_dd4 L + 8) (l_soh L - (l_dd4 L + 8)) ++               (* steps 6-7 *)
  flat_map (fun s => nseq (fst s) (snd s)) (hashed_secs L) ++   (* steps 9-13 *)
  nseq (l_sum L) (l_size L - (l_certsize L + l_sum L)).         (* step 14 *)
Definition gather (ps : list N) (img : bytes) : bytes := map (fun p => nth (N.to_nat p) img x00) ps.
Definition spec_content (L : layout) (img : bytes) : bytes :=
  gather (spec_positions L) img ++ zeros (N.to_nat (pad8 (l_size L))).

(* well-formed images: what the property quantifies over *)
Definition wf_layout (L : layout) : Prop :=
  l_soo L <> 0 /\ l_dd4 L + 8 <= l_soh L /\
  l_opt L + l_soo L + 40 * N.of_nat (length (l_secs L)) <= l_soh L /\
  Forall (fun s => fst s <> 0 /\ l_soh L <= fst s /\ fst s + snd s + l_certsize L <= l_size L) (hashed_secs L) /\
  NoDup (map fst (hashed_secs L)) /\
  l_sum L <= l_size L /\ l_certsize L <= l_size L - l_sum L /\
  5 <= l_nrva L /\
  (l_certsize L = 0 \/ (l_va L + l_certsize L = l_size L /\ l_va L mod 8 = 0 /\ l_certsize L mod 8 = 0)).
Definition wf_image (img : bytes) (L : layout) : Prop :=
  read_layout img = Some L /\ wf_layout L.

(* executable form, evaluated on every generated image *)
Fixpoint nodupN (l : list N) : bool :=
  match l with [] => true | x :: r => negb (existsb (N.eqb x) r) && nodupN r end.
Definition wf_layout_b (L : layout) : bool :=
  negb (l_soo L =? 0) && (l_dd4 L + 8 <=? l_soh L) &&
  (l_opt L + l_soo L + 40 * N.of_nat (length (l_secs L)) <=? l_soh L) &&
  forallb (fun s => negb (fst s =? 0) && (l_soh L <=? fst s) && (fst s + snd s + l_certsize L <=? l_size L)) (hashed_secs L) &&
  nodupN (map fst (hashed_secs L)) &&
  (l_sum L <=? l_size L) && (l_certsize L <=? l_size L - l_sum L) && (5 <=? l_nrva L) &&
  ((l_certsize L =? 0) || ((l_va L + l_certsize L =? l_size L) && (l_va L mod 8 =? 0) && (l_certsize L mod 8 =? 0))).
Definition wf_image_b (img : bytes) : bool :=
  match read_layout img with Some L => wf_layout_b L | None => false end.

Definition covered_b (L : layout) (p : N) : bool := existsb (N.eqb p) (spec_positions L).
