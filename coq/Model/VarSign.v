(* Model/VarSign.v -- signature.SignEFIVariable: the signed update for
   (name, GUID, attributes, payload). Definitions only. *)
From Coq Require Import Bool List NArith ZArith Lia.
From Coq.Strings Require Import Byte.
From GoUefi Require Import Base.Bytes Base.Outcome Base.Reader Base.Der Base.Sha256 Model.Util Model.WinCert Model.Pkcs7.
Import ListNotations.
Local Open Scope N_scope.

(* EFI_CERT_TYPE_PKCS7_GUID 4aafd29d-68df-49ee-8aa9-347d375665a7 *)
Definition PKCS7_GUID : guid := mkGuid 1253036701 26847 18926 (map n2b [138; 169; 52; 125; 55; 86; 101; 167]).

(* util.NewEFITime: civil time in UTC, every other field zero *)
Definition efi_time_of (y mo d h mi s : N) : efitime := mkTime y mo d h mi s 0 0 0 0 0.

(* what is signed: name (each byte followed by 0: UTF-16LE for ASCII, no
   terminator) || GUID || attributes || timestamp || payload *)
Definition signed_buffer (name : bytes) (g : guid) (attrs : N) (t : efitime) (payload : bytes) : bytes :=
  flat_map (fun c => [c; x00]) name ++ guid_wire g ++ le 4 attrs ++ write_time t ++ payload.

(* the Marshallable SignEFIVariable returns: descriptor || payload, given the
   signature the signer returned *)
Definition sign_efi_variable (cert_raw issuer_raw : bytes) (serial : N)
           (name : bytes) (g : guid) (attrs : N) (t : efitime) (payload p7time sig : bytes) : bytes :=
  let buf := signed_buffer name g attrs t payload in
  let sd := signed_data cert_raw issuer_raw serial OID_data buf p7time sig in
  write_auth2 (mkAuth2 t (mkWinCertGuid (24 + blen sd) WIN_CERT_REVISION WIN_CERT_TYPE_EFI_GUID PKCS7_GUID sd)) ++ payload.

(* the digest handed to the signer *)
Definition sign_efi_variable_tbs (name : bytes) (g : guid) (attrs : N) (t : efitime) (payload p7time : bytes) : bytes :=
  sign_pkcs7_tbs OID_data (signed_buffer name g attrs t payload) p7time.
