(* Model/WinCert.v -- efi/signature/varsign.go: WIN_CERTIFICATE,
   WIN_CERTIFICATE_UEFI_GUID, EFI_VARIABLE_AUTHENTICATION_2 and EFI_TIME
   codecs (as repaired: declared lengths are validated, errors are returned,
   the body is written once). Definitions only. *)
From Coq Require Import Bool List NArith Lia Arith.
From Coq.Strings Require Import Byte.
From GoUefi Require Import Base.Bytes Base.Outcome Base.Reader Model.Util.
Import ListNotations.
Local Open Scope N_scope.
Local Open Scope outcome_scope.

(* util.EFITime; TimeZone (int16) is kept as its unsigned 16-bit pattern *)
Record efitime := mkTime {
  t_year : N; t_month : N; t_day : N; t_hour : N; t_minute : N; t_second : N;
  t_pad1 : N; t_nanosecond : N; t_timezone : N; t_daylight : N; t_pad2 : N }.

Definition wf_time (t : efitime) : Prop :=
  t_year t < 65536 /\ t_month t < 256 /\ t_day t < 256 /\ t_hour t < 256 /\ t_minute t < 256 /\
  t_second t < 256 /\ t_pad1 t < 256 /\ t_nanosecond t < 4294967296 /\ t_timezone t < 65536 /\
  t_daylight t < 256 /\ t_pad2 t < 256.

Definition write_time (t : efitime) : bytes :=
  le 2 (t_year t) ++ le 1 (t_month t) ++ le 1 (t_day t) ++ le 1 (t_hour t) ++ le 1 (t_minute t) ++
  le 1 (t_second t) ++ le 1 (t_pad1 t) ++ le 4 (t_nanosecond t) ++ le 2 (t_timezone t) ++
  le 1 (t_daylight t) ++ le 1 (t_pad2 t).

Definition read_time (s : bytes) : efitime :=
  mkTime (unle (slice 0 2 s)) (unle (slice 2 1 s)) (unle (slice 3 1 s)) (unle (slice 4 1 s))
         (unle (slice 5 1 s)) (unle (slice 6 1 s)) (unle (slice 7 1 s)) (unle (slice 8 4 s))
         (unle (slice 12 2 s)) (unle (slice 14 1 s)) (unle (slice 15 1 s)).

(* WINCertificate *)
Record wincert := mkWinCert { wc_length : N; wc_revision : N; wc_type : N; wc_cert : bytes }.

Definition WIN_CERT_REVISION : N := 512.       (* 0x0200 *)
Definition WIN_CERT_TYPE_PKCS : N := 2.
Definition WIN_CERT_TYPE_EFI_GUID : N := 3825. (* 0x0EF1 *)

Definition read_wincert (bs : bytes) : outcome (wincert * bytes) :=
  match takeN 4 bs with None => Err 1 | Some (l, r1) =>
  match takeN 2 r1 with None => Err 1 | Some (rv, r2) =>
  match takeN 2 r2 with None => Err 1 | Some (ty, r3) =>
    if negb (unle rv =? WIN_CERT_REVISION) then Err 2 else
    if unle l <? 8 then Err 3 else
    match takeN (unle l - 8) r3 with None => Err 4 | Some (c, rest) =>
      Ret (mkWinCert (unle l) (unle rv) (unle ty) c, rest)
    end end end end.

Definition write_wincert (w : wincert) : bytes :=
  le 4 (wc_length w) ++ le 2 (wc_revision w) ++ le 2 (wc_type w) ++ wc_cert w.

Definition wf_wincert (w : wincert) : Prop :=
  wc_length w = 8 + blen (wc_cert w) /\ wc_length w < 4294967296 /\
  wc_revision w = WIN_CERT_REVISION /\ wc_type w < 65536.

(* WinCertificateUEFIGUID: header fields, type GUID, certificate data *)
Record wincert_guid := mkWinCertGuid {
  wg_length : N; wg_revision : N; wg_type : N; wg_guid : guid; wg_data : bytes }.

Definition read_wincert_guid (bs : bytes) : outcome (wincert_guid * bytes) :=
  '(w, rest) <- read_wincert bs ;;
  match takeN 16 (wc_cert w) with
  | None => Err 5
  | Some (g, d) => Ret (mkWinCertGuid (wc_length w) (wc_revision w) (wc_type w) (guid_of_wire g) d, rest)
  end.

Definition write_wincert_guid (w : wincert_guid) : bytes :=
  le 4 (wg_length w) ++ le 2 (wg_revision w) ++ le 2 (wg_type w) ++ guid_wire (wg_guid w) ++ wg_data w.

Definition wf_wincert_guid (w : wincert_guid) : Prop :=
  wg_length w = 24 + blen (wg_data w) /\ wg_length w < 4294967296 /\
  wg_revision w = WIN_CERT_REVISION /\ wg_type w < 65536 /\ wf_guid (wg_guid w).

(* EFIVariableAuthentication2 *)
Record auth2 := mkAuth2 { a_time : efitime; a_info : wincert_guid }.

Definition read_auth2 (bs : bytes) : outcome (auth2 * bytes) :=
  match takeN 16 bs with
  | None => Err 6
  | Some (t, r) =>
      '(w, rest) <- read_wincert_guid r ;;
      if wg_type w =? WIN_CERT_TYPE_EFI_GUID then Ret (mkAuth2 (read_time t) w, rest) else Err 7
  end.

Definition write_auth2 (a : auth2) : bytes := write_time (a_time a) ++ write_wincert_guid (a_info a).

Definition wf_auth2 (a : auth2) : Prop :=
  wf_time (a_time a) /\ wf_wincert_guid (a_info a) /\ wg_type (a_info a) = WIN_CERT_TYPE_EFI_GUID.
