(* Model/Util.v -- efi/util: EFIGUID conversions, UTF-16 variable strings,
   ReadNullString.  Definitions only (proofs are in Proofs/UtilProofs.v). *)
From Coq Require Import Bool List NArith Lia Arith.
From Coq.Strings Require Import Byte.
From GoUefi Require Import Base.Bytes Base.Hex Base.Outcome.
Import ListNotations.
Local Open Scope N_scope.

(* ------------------------------------------------------------------ *)
(* EFIGUID { Data1 uint32; Data2, Data3 uint16; Data4 [8]uint8 }        *)
Record guid := mkGuid { d1 : N; d2 : N; d3 : N; d4 : bytes }.

Definition wf_guid (g : guid) : Prop :=
  d1 g < 4294967296 /\ d2 g < 65536 /\ d3 g < 65536 /\ length (d4 g) = 8%nat.
Definition wf_guidb (g : guid) : bool :=
  (d1 g <? 4294967296) && (d2 g <? 65536) && (d3 g <? 65536) && (length (d4 g) =? 8)%nat.

Definition guid_zero : guid := mkGuid 0 0 0 (zeros 8).

(* util.GUIDToBytes / WriteGUID: every field big-endian *)
Definition guid_to_bytes (g : guid) : bytes :=
  be 4 (d1 g) ++ be 2 (d2 g) ++ be 2 (d3 g) ++ d4 g.

(* util.BytesToGUID: binary.Read(BigEndian) of the first 16 bytes; on a short
   read the error is dropped and the zero GUID is returned. *)
Definition bytes_to_guid (s : bytes) : guid :=
  if (length s <? 16)%nat then guid_zero
  else mkGuid (unbe (slice 0 4 s)) (unbe (slice 4 2 s)) (unbe (slice 6 2 s)) (slice 8 8 s).

(* the in-structure (binary.LittleEndian) form used by every encoder *)
Definition guid_wire (g : guid) : bytes :=
  le 4 (d1 g) ++ le 2 (d2 g) ++ le 2 (d3 g) ++ d4 g.
Definition guid_of_wire (s : bytes) : guid :=
  mkGuid (unle (slice 0 4 s)) (unle (slice 4 2 s)) (unle (slice 6 2 s)) (slice 8 8 s).

Definition dash : byte := "-"%byte.

(* EFIGUID.Format: fmt verbs 08x-04x-04x-04x-12x *)
Definition guid_format (g : guid) : bytes :=
  hex_lower (be 4 (d1 g)) ++ [dash] ++ hex_lower (be 2 (d2 g)) ++ [dash] ++
  hex_lower (be 2 (d3 g)) ++ [dash] ++ hex_lower (firstn 2 (d4 g)) ++ [dash] ++
  hex_lower (skipn 2 (d4 g)).

Definition remove_dashes (s : bytes) : bytes :=
  filter (fun c => negb (byte_eqb c dash)) s.

(* util.StringToGUID: strings.ReplaceAll(s,"-",""), hex.DecodeString (error
   dropped, decoded prefix kept), BytesToGUID *)
Definition string_to_guid (s : bytes) : guid :=
  bytes_to_guid (fst (hex_decode (remove_dashes s))).

(* util.CmpEFIGUID *)
Definition guid_eqb (a b : guid) : bool :=
  (d1 a =? d1 b) && (d2 a =? d2 b) && (d3 a =? d3 b) && bytes_eqb (d4 a) (d4 b).

(* ------------------------------------------------------------------ *)
(* UTF-16.  Strings are lists of Unicode scalar values (what []rune(s) is). *)

Definition is_surrogate (c : N) : bool := (55296 <=? c) && (c <=? 57343).
Definition valid_scalar (c : N) : bool := (c <? 1114112) && negb (is_surrogate c).

Definition utf16_units (c : N) : list N :=
  if c <? 65536 then [c]
  else let v := c - 65536 in [55296 + v / 1024; 56320 + v mod 1024].

Definition utf16le_encode (s : list N) : bytes :=
  flat_map (fun c => flat_map (le 2) (utf16_units c)) s.

(* util.MarshalUtf16Var *)
Definition marshal_utf16 (s : list N) : bytes := utf16le_encode s ++ [x00; x00].

(* x/text utf16Decoder.Transform at EOF, little endian, IgnoreBOM.
   [None] stands for a lone trailing byte. *)
Fixpoint to_units (bs : bytes) : list (option N) :=
  match bs with
  | [] => []
  | [_] => [None]
  | a :: b :: r => Some (b2n a + 256 * b2n b) :: to_units r
  end.

Definition replacement : N := 65533.
Definition is_low (c : N) : bool := (56320 <=? c) && (c <=? 57343).
Definition is_high (c : N) : bool := (55296 <=? c) && (c <=? 56319).

Fixpoint utf16_decode_units (us : list (option N)) : list N :=
  match us with
  | [] => []
  | None :: r => replacement :: utf16_decode_units r
  | Some x :: r =>
      if is_surrogate x then
        match r with
        | Some y :: r' =>
            if is_low y then
              (* utf16.DecodeRune(x, y), 4 bytes consumed *)
              (if is_high x then 65536 + (x - 55296) * 1024 + (y - 56320) else replacement)
                :: utf16_decode_units r'
            else replacement :: utf16_decode_units r
        | _ => replacement :: utf16_decode_units r
        end
      else x :: utf16_decode_units r
  end.

Definition utf16le_decode (bs : bytes) : list N := utf16_decode_units (to_units bs).

Fixpoint trim_left (s : list N) : list N :=
  match s with 0 :: r => trim_left r | _ => s end.
Definition trim_zeros (s : list N) : list N := frev (trim_left (frev (trim_left s))).

(* util.ParseUtf16Var (after the fix: empty input is an error, not a panic) *)
Definition parse_utf16 (bs : bytes) : outcome (list N) :=
  let s := utf16le_decode bs in
  match frev s with
  | [] => Err 1
  | 0 :: _ => Ret (trim_zeros s)
  | _ :: _ => Err 2
  end.

(* util.ReadNullString on a bytes.Buffer: blocks of two bytes until a 00 00
   block or the end; a lone trailing byte is returned with a zero after it.
   Returns (bytes read out, rest of the buffer). *)
Fixpoint read_null_string (bs : bytes) : bytes * bytes :=
  match bs with
  | [] => ([], [])
  | [a] => ([a; x00], [])
  | a :: b :: r =>
      if byte_eqb a x00 && byte_eqb b x00 then ([a; b], r)
      else let '(o, rest) := read_null_string r in (a :: b :: o, rest)
  end.

(* efivar.Efistring.Unmarshal *)
Definition efistring_unmarshal (bs : bytes) : outcome (list N) :=
  parse_utf16 (fst (read_null_string bs)).
