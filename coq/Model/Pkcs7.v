(* Model/Pkcs7.v -- pkcs7/pkcs7.go and authenticode/authenticode.go: parsing,
   verifying and producing PKCS#7 SignedData and Authenticode signatures (as
   repaired: the signature is checked over the signed attributes as encoded in
   the blob, the messageDigest attribute is compared with the encapsulated
   content, absent attributes are an error, the signer's error is returned).
   Definitions only. RSA, X.509 parsing and UTCTime validation are parameters. *)
From Coq Require Import Bool List NArith ZArith Lia Arith.
From Coq.Strings Require Import Byte.
From GoUefi Require Import Base.Bytes Base.Outcome Base.Reader Base.Der Base.Sha256.
Import ListNotations.
Local Open Scope N_scope.
Local Open Scope outcome_scope.

Definition OID_data := [1; 2; 840; 113549; 1; 7; 1].
Definition OID_signedData := [1; 2; 840; 113549; 1; 7; 2].
Definition OID_sha256 := [2; 16; 840; 1; 101; 3; 4; 2; 1].
Definition OID_rsa := [1; 2; 840; 113549; 1; 1; 1].
Definition OID_attr_contentType := [1; 2; 840; 113549; 1; 9; 3].
Definition OID_attr_messageDigest := [1; 2; 840; 113549; 1; 9; 4].
Definition OID_attr_signingTime := [1; 2; 840; 113549; 1; 9; 5].
Definition OID_spcIndirectData := [1; 3; 6; 1; 4; 1; 311; 2; 1; 4].
Definition OID_spcPEImageData := [1; 3; 6; 1; 4; 1; 311; 2; 1; 15].
Definition OID_msIndividualCodeSigning := [1; 3; 6; 1; 4; 1; 311; 2; 1; 21].

Record attrs := mkAttrs {
  at_raw : bytes;                       (* contents of [0], exactly as in the blob *)
  at_ctype : option (list N);
  at_md : bytes;
  at_time : option bytes;               (* the UTCTime string *)
  at_others : list (list N * bytes) }.

Record signer := mkSigner {
  si_version : Z; si_issuer : bytes; si_serial : Z; si_digalg : list N;
  si_attrs : option attrs; si_encalg : list N; si_sig : bytes }.

Record pkcs7 := mkP7 {
  p_oid : list N; p_content : bytes; p_certs : bytes; p_digalg : list N; p_signers : list signer }.

(* the certificate a caller verifies against: what the code reads from it *)
Record cert := mkCert { c_issuer : bytes; c_serial : Z; c_key : N }.

Section P7.
Variable utctime_ok : bytes -> bool.            (* cryptobyte.ReadASN1UTCTime accepts this string *)
Variable x509_ok : bytes -> bool.               (* x509.ParseCertificates accepts these bytes *)
Variable rsa_ok : N -> bytes -> bytes -> bool.  (* key, signed bytes, signature: SHA256-RSA PKCS#1 v1.5 *)

Definition E {A} (n : N) (o : option A) : outcome A := of_option n o.

Definition read_oid (s : bytes) : option (list N * bytes) :=
  match read_asn1 T_OID s with
  | Some (b, rest) => match oid_decode b with Some o => Some (o, rest) | None => None end
  | None => None
  end.
Definition read_int64 (s : bytes) : option (Z * bytes) :=
  match read_asn1 T_INTEGER s with
  | Some (b, rest) => match int64_decode b with Some z => Some (z, rest) | None => None end
  | None => None
  end.
Definition read_bigint (s : bytes) : option (Z * bytes) :=
  match read_asn1 T_INTEGER s with
  | Some (b, rest) => match int_decode b with Some z => Some (z, rest) | None => None end
  | None => None
  end.

(* ParseAlgorithmIdentifier *)
Definition parse_alg_id (s : bytes) : outcome (list N * bytes) :=
  '(b, rest) <- E 10 (read_asn1 T_SEQUENCE s) ;;
  '(o, b') <- E 11 (read_oid b) ;;
  if is_nilb b' then Ret (o, rest)
  else match read_asn1 T_NULL b' with Some _ => Ret (o, rest) | None => Err 12 end.

(* hasContentInfo *)
Definition has_content_info (s : bytes) : outcome bool :=
  '(b, _) <- E 13 (read_asn1 T_SEQUENCE s) ;; Ret (peek_tag T_OID b).

(* ParseContentInfo: (oid, content, rest) *)
Definition parse_content_info (s : bytes) : outcome (list N * bytes * bytes) :=
  '(b, rest) <- E 14 (read_asn1 T_SEQUENCE s) ;;
  '(o, b') <- E 15 (read_oid b) ;;
  '(c, _) <- E 16 (read_optional T_CTX0 b') ;;
  Ret (o, match c with Some v => v | None => [] end, rest).

Definition attr_step (a : attrs) (s : bytes) : outcome (attrs * bytes) :=
  '(body, rest) <- E 20 (read_asn1 T_SEQUENCE s) ;;
  '(o, body') <- E 21 (read_oid body) ;;
  '(v, _) <- E 22 (read_asn1 T_SET body') ;;
  if oid_eqb o OID_attr_messageDigest then
    '(d, _) <- E 23 (read_asn1 T_OCTETSTRING v) ;;
    Ret (mkAttrs (at_raw a) (at_ctype a) d (at_time a) (at_others a), rest)
  else if oid_eqb o OID_attr_contentType then
    '(ct, _) <- E 24 (read_oid v) ;;
    Ret (mkAttrs (at_raw a) (Some ct) (at_md a) (at_time a) (at_others a), rest)
  else if oid_eqb o OID_attr_signingTime then
    '(t, _) <- E 25 (read_asn1 T_UTCTIME v) ;;
    if utctime_ok t then Ret (mkAttrs (at_raw a) (at_ctype a) (at_md a) (Some t) (at_others a), rest)
    else Err 26
  else Ret (mkAttrs (at_raw a) (at_ctype a) (at_md a) (at_time a) (at_others a ++ [(o, v)]), rest).

Fixpoint attrs_loop (fuel : nat) (a : attrs) (s : bytes) : outcome attrs :=
  if is_nilb s then Ret a else
  match fuel with
  | O => Err 97
  | S f => '(a', rest) <- attr_step a s ;; attrs_loop f a' rest
  end.

(* parseAttributes: None when the [0] element is absent *)
Definition parse_attributes (s : bytes) : outcome (option attrs * bytes) :=
  '(r, rest) <- E 27 (read_optional T_CTX0 s) ;;
  match r with
  | None => Ret (None, rest)
  | Some raw => a <- attrs_loop (length raw) (mkAttrs raw None [] None []) raw ;; Ret (Some a, rest)
  end.

(* parseSignerInfos (one SignerInfo) *)
Definition parse_signer (s : bytes) : outcome (signer * bytes) :=
  '(si, rest) <- E 30 (read_asn1 T_SEQUENCE s) ;;
  '(ver, s1) <- E 31 (read_int64 si) ;;
  '(ias, s2) <- E 32 (read_asn1 T_SEQUENCE s1) ;;
  '(issuer, ias') <- E 33 (read_asn1_element T_SEQUENCE ias) ;;
  '(serial, _) <- E 34 (read_bigint ias') ;;
  '(dalg, s3) <- parse_alg_id s2 ;;
  '(att, s4) <- parse_attributes s3 ;;
  '(ealg, s5) <- parse_alg_id s4 ;;
  '(sg, _) <- E 35 (read_asn1 T_OCTETSTRING s5) ;;
  Ret (mkSigner ver issuer serial dalg att ealg sg, rest).

Fixpoint signers_loop (fuel : nat) (s : bytes) : outcome (list signer) :=
  if is_nilb s then Ret [] else
  match fuel with
  | O => Err 96
  | S f => '(si, rest) <- parse_signer s ;; l <- signers_loop f rest ;; Ret (si :: l)
  end.

(* ParsePKCS7, from the SignedData SEQUENCE on *)
Definition parse_signed_data (ci : bytes) : outcome pkcs7 :=
  '(sd, _) <- E 40 (read_asn1 T_SEQUENCE ci) ;;
  '(_, sd1) <- E 41 (read_int64 sd) ;;
  '(dig, sd2) <- E 42 (read_asn1 T_SET sd1) ;;
  '(alg, _) <- parse_alg_id dig ;;
  '(o, content, sd3) <- parse_content_info sd2 ;;
  '(certs, sd4) <- E 43 (read_optional T_CTX0 sd3) ;;
  let raw := match certs with Some c => c | None => [] end in
  if negb (x509_ok raw) then Err 44 else
  '(sis, _) <- E 45 (read_asn1 T_SET sd4) ;;
  l <- signers_loop (length sis) sis ;;
  Ret (mkP7 o content raw alg l).

(* ParsePKCS7: an outer ContentInfo is unwrapped when there is one *)
Definition parse_pkcs7 (b : bytes) : outcome pkcs7 :=
  hci <- has_content_info b ;;
  ci <- (if (hci : bool) then bind (parse_content_info b) (fun x => Ret (snd (fst x))) else Ret b) ;;
  parse_signed_data ci.

(* signerinfo.isCertificate *)
Definition names (si : signer) (c : cert) : bool :=
  bytes_eqb (c_issuer c) (si_issuer si) && Z.eqb (c_serial c) (si_serial si).

(* signerinfo.verify: an error unless everything checks *)
Definition verify_signer (si : signer) (c : cert) (content : bytes) : outcome bool :=
  match si_attrs si with
  | None => Err 50
  | Some a =>
      let digest_ok :=
        if is_nilb content then true
        else match der_read content with
             | Some e => bytes_eqb (sha256 (e_val e)) (at_md a)
             | None => false
             end in
      if negb digest_ok then Err 51
      else if rsa_ok (c_key c) (add_asn1 T_SET (at_raw a)) (si_sig si) then Ret true else Err 52
  end.

(* PKCS7.Verify: the first signer naming the certificate decides *)
Fixpoint verify_loop (l : list signer) (c : cert) (content : bytes) : outcome bool :=
  match l with
  | [] => Ret false
  | si :: r => if names si c then verify_signer si c content else verify_loop r c content
  end.
Definition pkcs7_verify (p : pkcs7) (c : cert) : outcome bool := verify_loop (p_signers p) c (p_content p).
Definition has_certificate (p : pkcs7) (c : cert) : bool := existsb (fun si => names si c) (p_signers p).

(* ---------------- Authenticode ---------------- *)
Record authenticode := mkAuthcode { ac_p7 : pkcs7; ac_alg : list N; ac_digest : bytes }.

(* ParseAuthenticode *)
Definition parse_authenticode (b : bytes) : outcome authenticode :=
  p <- parse_pkcs7 b ;;
  if negb (oid_eqb (p_oid p) OID_spcIndirectData) then Err 60 else
  '(der, _) <- E 61 (read_asn1 T_SEQUENCE (p_content p)) ;;
  '(spc, der2) <- E 62 (read_asn1 T_SEQUENCE der) ;;
  '(dt, spc') <- E 63 (read_oid spc) ;;
  if negb (oid_eqb dt OID_spcPEImageData || oid_eqb dt OID_msIndividualCodeSigning) then Err 64 else
  '(_, _) <- E 65 (read_asn1 T_SEQUENCE spc') ;;
  '(di, _) <- E 66 (read_asn1 T_SEQUENCE der2) ;;
  '(alg, di') <- parse_alg_id di ;;
  '(dg, _) <- E 67 (read_asn1 T_OCTETSTRING di') ;;
  Ret (mkAuthcode p alg dg).

(* Authenticode.Verify against the digest of the image *)
Definition authenticode_verify (a : authenticode) (c : cert) (image_digest : bytes) : outcome bool :=
  if negb (oid_eqb (ac_alg a) OID_sha256) then Err 70
  else if negb (blen (ac_digest a) =? 32) then Err 71
  else if negb (bytes_eqb image_digest (ac_digest a)) then Err 72
  else pkcs7_verify (ac_p7 a) c.
End P7.

(* ---------------- producing ---------------- *)
Definition alg_id (o : list N) : bytes := der_seq (der_oid o ++ der_null).

Definition attr (o : list N) (value : bytes) : bytes := der_seq (der_oid o ++ der_set value).

(* DER orders the elements of a SET OF by their encodings: bytes.Compare *)
Fixpoint bytes_ltb (a b : bytes) : bool :=
  match a, b with
  | [], [] => false
  | [], _ :: _ => true
  | _ :: _, [] => false
  | x :: a', y :: b' => if b2n x <? b2n y then true else if b2n y <? b2n x then false else bytes_ltb a' b'
  end.
(* sort.SliceStable *)
Fixpoint insert_b (x : bytes) (l : list bytes) : list bytes :=
  match l with
  | [] => [x]
  | y :: r => if bytes_ltb y x then y :: insert_b x r else x :: l
  end.
Definition sort_b (l : list bytes) : list bytes := fold_right insert_b [] l.

(* Attributes.Marshal (as repaired): contentType, signingTime (if any), messageDigest
   and the others, in the order of their encodings *)
Definition attr_list (ctype : list N) (time : option bytes) (md : bytes) (others : list (list N * bytes)) : list bytes :=
  attr OID_attr_contentType (der_oid ctype) ::
  (match time with Some t => [attr OID_attr_signingTime (add_asn1 T_UTCTIME t)] | None => [] end) ++
  attr OID_attr_messageDigest (der_octets md) ::
  map (fun ov => attr (fst ov) (snd ov)) others.
Definition attrs_body (ctype : list N) (time : option bytes) (md : bytes) (others : list (list N * bytes)) : bytes :=
  concat (sort_b (attr_list ctype time md others)).
Definition attrs_marshal ctype time md others : bytes := der_set (attrs_body ctype time md others).

(* the SignedData SEQUENCE SignPKCS7 builds, given the signature the signer
   returned for SHA-256(attrs_marshal ...) *)
Definition signed_data (cert_raw issuer_raw : bytes) (serial : N) (oid : list N) (content : bytes)
           (time : bytes) (sig : bytes) : bytes :=
  let body := attrs_body oid (Some time) (sha256 content) [] in
  let embedded := negb (is_nilb content) && negb (oid_eqb oid OID_data) in
  der_seq (
    der_int 1 ++
    der_set (alg_id OID_sha256) ++
    der_seq (der_oid oid ++ (if embedded then add_asn1 T_CTX0 (der_seq content) else [])) ++
    add_asn1 T_CTX0 cert_raw ++
    der_set (
      der_seq (
        der_int 1 ++
        der_seq (issuer_raw ++ der_int serial) ++
        alg_id OID_sha256 ++
        add_asn1 T_CTX0 body ++
        alg_id OID_rsa ++
        der_octets sig))).

(* SignPKCS7's output: the SignedData wrapped in a ContentInfo *)
Definition sign_pkcs7 (cert_raw issuer_raw : bytes) (serial : N) (oid : list N) (content : bytes)
           (time : bytes) (sig : bytes) : bytes :=
  der_seq (der_oid OID_signedData ++
           add_asn1 T_CTX0 (signed_data cert_raw issuer_raw serial oid content time sig)).

(* what the signer is asked to sign *)
Definition sign_pkcs7_tbs (oid : list N) (content : bytes) (time : bytes) : bytes :=
  sha256 (attrs_marshal oid (Some time) (sha256 content) []).

(* CreateSpcIndirectDataContent *)
Definition obsolete_bmp : bytes :=
  map n2b [0; 60; 0; 60; 0; 60; 0; 79; 0; 98; 0; 115; 0; 111; 0; 108; 0; 101; 0; 116; 0; 101; 0; 62; 0; 62; 0; 62].
Definition spc_indirect_data (digest : bytes) : bytes :=
  der_seq (der_oid OID_spcPEImageData ++
           der_seq (add_asn1 T_BITSTRING [x00] ++
                    add_asn1 T_CTX0 (add_asn1 T_CTX2 (add_asn1 T_CTX0P obsolete_bmp)))) ++
  der_seq (alg_id OID_sha256 ++ der_octets digest).

(* SignAuthenticode's output for an image digest *)
Definition sign_authenticode cert_raw issuer_raw serial (image_digest time sig : bytes) : bytes :=
  sign_pkcs7 cert_raw issuer_raw serial OID_spcIndirectData (spc_indirect_data image_digest) time sig.
