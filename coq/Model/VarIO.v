(* Model/VarIO.v -- efivarfs/fswrapper, efivarfs/efifs.go, efi/attributes:
   writing and reading a variable through the file-system dependency; and
   efivarfs/testfs: the in-memory store.  Definitions only. *)
From Coq Require Import Bool List NArith Lia Arith.
From Coq.Strings Require Import Byte.
From GoUefi Require Import Base.Bytes Base.Outcome Base.Reader Base.Prog Model.Util Model.WinCert Model.SigList.
Import ListNotations.
Local Open Scope N_scope.
Local Open Scope outcome_scope.

Definition O_WRONLY : N := 1.
Definition O_CREATE : N := 64.
Definition O_APPEND : N := 1024.
Definition O_TRUNC : N := 512.
Definition EFI_VARIABLE_APPEND_WRITE : N := 64.

Definition slash : byte := "/"%byte.

(* path.Join(dir, Name + "-" + guid.Format()) for a clean directory name *)
Definition var_path (dir name : bytes) (g : guid) : bytes :=
  dir ++ [slash] ++ name ++ [dash] ++ guid_format g.

Definition open_flags (attrs : N) : N :=
  if N.testbit attrs 6 then O_WRONLY + O_CREATE + O_APPEND else O_WRONLY + O_CREATE.

(* FSWrapper.WriteEfivarsWithGuid / attributes.WriteEfivarsWithGuid (as repaired:
   a failing Close is reported) *)
Definition write_var (dir name : bytes) (g : guid) (attrs : N) (value : bytes) : prog (outcome unit) :=
  let buf := le 4 attrs ++ value in
  Call (COpenFile (var_path dir name g) (open_flags attrs) 420) (fun r =>
    match r with
    | RFail => Done (Err 1)
    | ROk _ _ =>
        Call (CWrite buf) (fun rw =>
          Call CClose (fun rc =>
            match rw with
            | RFail => Done (Err 2)
            | ROk n _ =>
                if negb (n =? blen buf) then Done (Err 3)
                else match rc with RFail => Done (Err 4) | ROk _ _ => Done (Ret tt) end
            end))
    end).

(* attributes.Attributes.Equal: every required bit is set in the stored mask *)
Definition attrs_subset (required stored : N) : bool := N.land required stored =? required.

(* the result of reading a variable: what reaches the decoder *)
Inductive read_result :=
| RdErr                                  (* open / stat / short file *)
| RdWrongAttrs (stored : N)              (* ErrIncorrectAttributes, decoder not called *)
| RdDecode (stored : N) (value : bytes). (* decoder called with exactly these bytes *)

(* EFIFS.GetVarWithAttributes on a file with this content (None = absent) *)
Definition read_var (content : option bytes) (required : N) : read_result :=
  match content with
  | None => RdErr
  | Some bs =>
      match takeN 4 bs with
      | None => RdErr
      | Some (a, v) =>
          let stored := unle a in
          if attrs_subset required stored then RdDecode stored v else RdWrongAttrs stored
      end
  end.

(* the legacy getters apply the mask of efi.ValidAttributes the same way; the
   object and the legacy API share the file format *)

(* ---------------- the in-memory store (testfs) ---------------- *)
Definition store := list (bytes * bytes).     (* path -> content, latest binding first *)

Fixpoint lookup (s : store) (p : bytes) : option bytes :=
  match s with
  | [] => None
  | (q, c) :: r => if bytes_eqb p q then Some c else lookup r p
  end.
Definition update (s : store) (p : bytes) (c : bytes) : store := (p, c) :: s.

(* afero.MemMapFs: a write at offset 0 through a handle opened without O_TRUNC
   overwrites the prefix and keeps the old tail *)
Definition mem_overwrite (old new : bytes) : bytes := new ++ skipn (length new) old.

(* opening with O_TRUNC empties an existing file *)
Definition mem_truncate (s : store) (p : bytes) : store :=
  match lookup s p with Some _ => update s p [] | None => s end.

Definition mem_write (s : store) (p : bytes) (buf : bytes) : store :=
  match lookup s p with
  | Some old => update s p (mem_overwrite old buf)
  | None => update s p buf
  end.

Definition is_secure_name (name : bytes) : bool :=
  bytes_eqb name [x50; x4b] (* PK *) || bytes_eqb name [x4b; x45; x4b] (* KEK *) ||
  bytes_eqb name [x64; x62] (* db *) || bytes_eqb name [x64; x62; x78] (* dbx *).

(* TestFS.WriteVar: for PK/KEK/db/dbx an authentication descriptor, if one
   decodes, is removed and the rest is re-encoded as a signature database
   (whatever decodes of it; an undecodable rest leaves an empty database) *)
Definition testfs_payload (name value : bytes) : bytes :=
  if is_secure_name name then
    match read_auth2 value with
    | Ret (_, rest) =>
        match read_signature_database rest with
        | Ret db => enc_db db
        | _ => []
        end
    | _ => value
    end
  else value.

(* as repaired: a non-append write first truncates the variable's file *)
Definition testfs_write (dir : bytes) (s : store) (name : bytes) (g : guid) (attrs : N) (value : bytes) : store :=
  let p := var_path dir name g in
  let s1 := if N.testbit attrs 6 then s else mem_truncate s p in
  mem_write s1 p (le 4 attrs ++ testfs_payload name value).

Definition testfs_read (dir : bytes) (s : store) (name : bytes) (g : guid) (required : N) : read_result :=
  read_var (lookup s (var_path dir name g)) required.
