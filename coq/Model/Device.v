(* Model/Device.v -- efi/device (load options, device path nodes and their text
   form) and the boot-order decoders of efivarfs and efi (as repaired: upper-case
   Boot#### names, every entry, errors instead of process termination, no nil
   nodes, UEFI text for hard-drive nodes). Definitions only. *)
From Coq Require Import Bool List NArith Lia Arith.
From Coq.Strings Require Import Byte.
From GoUefi Require Import Base.Bytes Base.Hex Base.Outcome Base.Reader Base.NumText Model.Util.
Import ListNotations.
Local Open Scope N_scope.
Local Open Scope outcome_scope.

(* ---------------- boot order ---------------- *)
Definition boot_prefix : bytes := [x42; x6f; x6f; x74].     (* "Boot" *)
(* fmt.Sprintf("Boot%04X", uint16) *)
Definition boot_name (n : N) : bytes := boot_prefix ++ hex_upper (be 2 n).

(* bootorder.Unmarshal / efi.GetBootOrder: two bytes at a time, little endian;
   a lone trailing byte is read as a low byte *)
Fixpoint boot_order_values (bs : bytes) : list N :=
  match bs with
  | [] => []
  | [a] => [b2n a]
  | a :: b :: r => (b2n a + 256 * b2n b) :: boot_order_values r
  end.
Definition decode_boot_order (bs : bytes) : list bytes := map boot_name (boot_order_values bs).

(* ---------------- device path nodes ---------------- *)
Record hdr := mkHdr { h_type : N; h_sub : N; h_len0 : N; h_len1 : N }.

Inductive node :=
| NPci (h : hdr) (func dev : N)
| NAcpi (h : hdr) (hid uid : bytes)
| NHardDrive (h : hdr) (partnum start size : N) (sig : bytes) (pfmt sigtype : N)
| NFilePath (h : hdr) (path : list N)
| NFirmwareFile (h : hdr) (name : bytes)
| NUsb (h : hdr) (port iface : N).

(* what a sub-parser does with the bytes after the 4-byte node header *)
Inductive sub_result :=
| SNode (n : node) (rest : bytes)
| SSkip (rest : bytes)          (* nothing appended; parsing continues at rest *)
| SErr
| SEnd.

Definition drained : bytes := [].   (* a failed ReadFull has consumed what was left *)

Definition parse_sub (h : hdr) (r : bytes) : sub_result :=
  let t := h_type h in let st := h_sub h in
  if t =? 1 then                                           (* Hardware *)
    if st =? 1 then
      match takeN 2 r with
      | Some (fd, r') => SNode (NPci h (unle (firstn 1 fd)) (unle (skipn 1 fd))) r'
      | None => SSkip drained
      end
    else SSkip r
  else if t =? 2 then                                      (* ACPI *)
    if st =? 1 then
      match takeN 8 r with
      | Some (x, r') => SNode (NAcpi h (firstn 4 x) (skipn 4 x)) r'
      | None => SSkip drained
      end
    else SSkip r
  else if t =? 3 then                                      (* Messaging *)
    if st =? 5 then
      match takeN 2 r with
      | Some (x, r') => SNode (NUsb h (unle (firstn 1 x)) (unle (skipn 1 x))) r'
      | None => SSkip drained
      end
    else if st =? 10 then                                  (* vendor: GUID read, node dropped *)
      match takeN 16 r with
      | Some (_, r') => SSkip r'
      | None => SSkip drained
      end
    else SSkip r
  else if t =? 4 then                                      (* Media *)
    if st =? 1 then
      match takeN 38 r with
      | Some (x, r') =>
          SNode (NHardDrive h (unle (slice 0 4 x)) (unle (slice 4 8 x)) (unle (slice 12 8 x))
                            (slice 20 16 x) (unle (slice 36 1 x)) (unle (slice 37 1 x))) r'
      | None => SErr
      end
    else if st =? 4 then
      let '(s, r') := read_null_string r in
      match parse_utf16 s with
      | Ret p => SNode (NFilePath h p) r'
      | _ => SErr
      end
    else if st =? 6 then
      match takeN 16 r with
      | Some (x, r') => SNode (NFirmwareFile h x) r'
      | None => SErr
      end
    else SSkip r
  else SEnd.                                               (* end node (127) and every other type *)

(* ParseDevicePath; every iteration consumes the 4 header bytes *)
Fixpoint parse_nodes (fuel : nat) (bs : bytes) : outcome (list node) :=
  match fuel with
  | O => Err 98
  | S f =>
      match takeN 4 bs with
      | None => Err 1
      | Some (hb, r) =>
          let h := mkHdr (unle (slice 0 1 hb)) (unle (slice 1 1 hb)) (unle (slice 2 1 hb)) (unle (slice 3 1 hb)) in
          match parse_sub h r with
          | SNode n r' => ns <- parse_nodes f r' ;; Ret (n :: ns)
          | SSkip r' => parse_nodes f r'
          | SErr => Err 2
          | SEnd => Ret []
          end
      end
  end.
Definition parse_device_path (bs : bytes) : outcome (list node) := parse_nodes (S (length bs)) bs.

Record load_option := mkLoadOption {
  lo_attrs : N; lo_fpl_len : N; lo_desc : list N; lo_nodes : list node }.

(* EFILoadOption.Unmarshal = ParseEFILoadOption ; ParseDevicePath *)
Definition parse_load_option (bs : bytes) : outcome load_option :=
  match takeN 4 bs with None => Err 3 | Some (a, r1) =>
  match takeN 2 r1 with None => Err 3 | Some (l, r2) =>
    let '(s, r3) := read_null_string r2 in
    d <- parse_utf16 s ;;
    ns <- parse_device_path r3 ;;
    Ret (mkLoadOption (unle a) (unle l) d ns)
  end end.

(* ---- an independent encoder (the UEFI layout of the supported nodes) ---- *)
Definition enc_hdr (h : hdr) : bytes := [n2b (h_type h); n2b (h_sub h); n2b (h_len0 h); n2b (h_len1 h)].
Definition enc_node (n : node) : bytes :=
  match n with
  | NPci h f d => enc_hdr h ++ [n2b f; n2b d]
  | NAcpi h hid uid => enc_hdr h ++ hid ++ uid
  | NHardDrive h pn st sz sig pf sty => enc_hdr h ++ le 4 pn ++ le 8 st ++ le 8 sz ++ sig ++ [n2b pf; n2b sty]
  | NFilePath h p => enc_hdr h ++ marshal_utf16 p
  | NFirmwareFile h nm => enc_hdr h ++ nm
  | NUsb h p i => enc_hdr h ++ [n2b p; n2b i]
  end.
Definition end_node : bytes := [x7f; xff; x04; x00].
Definition enc_load_option (o : load_option) : bytes :=
  le 4 (lo_attrs o) ++ le 2 (lo_fpl_len o) ++ marshal_utf16 (lo_desc o) ++
  flat_map enc_node (lo_nodes o) ++ end_node.

Definition wf_hdr (h : hdr) (t st : N) : Prop :=
  h_type h = t /\ h_sub h = st /\ h_len0 h < 256 /\ h_len1 h < 256.
Definition wf_str (s : list N) : Prop := forallb valid_scalar s = true /\ ~ In 0 s.
Definition wf_node (n : node) : Prop :=
  match n with
  | NPci h f d => wf_hdr h 1 1 /\ f < 256 /\ d < 256
  | NAcpi h hid uid => wf_hdr h 2 1 /\ length hid = 4%nat /\ length uid = 4%nat
  | NHardDrive h pn st sz sig pf sty =>
      wf_hdr h 4 1 /\ pn < 4294967296 /\ st < 18446744073709551616 /\ sz < 18446744073709551616 /\
      length sig = 16%nat /\ pf < 256 /\ sty < 256
  | NFilePath h p => wf_hdr h 4 4 /\ wf_str p
  | NFirmwareFile h nm => wf_hdr h 4 6 /\ length nm = 16%nat
  | NUsb h p i => wf_hdr h 3 5 /\ p < 256 /\ i < 256
  end.
Definition wf_load_option (o : load_option) : Prop :=
  lo_attrs o < 4294967296 /\ lo_fpl_len o < 65536 /\ wf_str (lo_desc o) /\ Forall wf_node (lo_nodes o).

(* ---------------- text form ---------------- *)
Definition ascii (s : list N) : bytes := map n2b s.
Definition t_HD : bytes := ascii [72; 68; 40].          (* "HD(" *)
Definition t_MBR : bytes := ascii [77; 66; 82].
Definition t_GPT : bytes := ascii [71; 80; 84].
Definition t_0x : bytes := ascii [48; 120].
Definition comma : byte := ","%byte.
Definition rparen : byte := ")"%byte.

(* HardDriveMediaDevicePath.Format *)
Definition format_hd (pn st sz : N) (sig : bytes) (sty : N) : bytes :=
  if sty =? 1 then
    t_HD ++ dec_text pn ++ [comma] ++ t_MBR ++ [comma] ++ t_0x ++ hex_lower (be 4 (unle (firstn 4 sig))) ++
    [comma] ++ t_0x ++ hex_text st ++ [comma] ++ t_0x ++ hex_text sz ++ [rparen]
  else if sty =? 2 then
    t_HD ++ dec_text pn ++ [comma] ++ t_GPT ++ [comma] ++ guid_format (guid_of_wire sig) ++
    [comma] ++ t_0x ++ hex_text st ++ [comma] ++ t_0x ++ hex_text sz ++ [rparen]
  else
    t_HD ++ dec_text pn ++ [comma] ++ dec_text sty ++ [comma] ++ [x30] ++
    [comma] ++ t_0x ++ hex_text st ++ [comma] ++ t_0x ++ hex_text sz ++ [rparen].

(* FileTypeMediaDevicePath.Format, on scalar values: "File(" path ")" *)
Definition format_file (p : list N) : list N := [70; 105; 108; 101; 40] ++ p ++ [41].

(* ---- the text grammar, as a parser: HD(Partition,Type,Signature,Start,Size)
   integers decimal or 0x-hexadecimal, Type MBR | GPT, GPT signature a GUID ---- *)
Fixpoint split_on (c : byte) (s : bytes) (cur : bytes) : list bytes :=
  match s with
  | [] => [rev cur]
  | x :: r => if byte_eqb x c then rev cur :: split_on c r [] else split_on c r (x :: cur)
  end.

Definition parse_int (s : bytes) : option N :=
  match s with
  | a :: b :: r => if byte_eqb a x30 && (byte_eqb b x78 || byte_eqb b x58) then parse_hex r else parse_dec s
  | _ => parse_dec s
  end.

Inductive hd_sig := SigMBR (v : N) | SigGPT (g : guid).
Record hd_fields := mkHdFields { hf_part : N; hf_sig : hd_sig; hf_start : N; hf_size : N }.

Definition parse_guid_text (s : bytes) : option guid :=
  if (length s =? 36)%nat then
    let '(b, ok) := hex_decode (remove_dashes s) in
    if ok && (length b =? 16)%nat then Some (bytes_to_guid b) else None
  else None.

Definition strip_prefix (p s : bytes) : option bytes :=
  if bytes_eqb (firstn (length p) s) p then Some (skipn (length p) s) else None.
Definition strip_last (c : byte) (s : bytes) : option bytes :=
  match rev s with
  | x :: r => if byte_eqb x c then Some (rev r) else None
  | [] => None
  end.

Definition parse_hd_text (s : bytes) : option hd_fields :=
  match split_on comma s [] with
  | [p0; ty; sg; st; p4] =>
      match strip_prefix t_HD p0, strip_last rparen p4 with
      | Some pn, Some sz =>
          match parse_int pn, parse_int st, parse_int sz with
          | Some pn', Some st', Some sz' =>
              if bytes_eqb ty t_MBR then
                match parse_int sg with Some v => Some (mkHdFields pn' (SigMBR v) st' sz') | None => None end
              else if bytes_eqb ty t_GPT then
                match parse_guid_text sg with Some g => Some (mkHdFields pn' (SigGPT g) st' sz') | None => None end
              else None
          | _, _, _ => None
          end
      | _, _ => None
      end
  | _ => None
  end.

(* the fields a hard-drive node denotes *)
Definition hd_denotes (pn st sz : N) (sig : bytes) (sty : N) : option hd_fields :=
  if sty =? 1 then Some (mkHdFields pn (SigMBR (unle (firstn 4 sig))) st sz)
  else if sty =? 2 then Some (mkHdFields pn (SigGPT (guid_of_wire sig)) st sz)
  else None.
