(* Model/Shared.v -- C19: objects that several goroutines share (a parsed image,
   a signature database, a signed-update value) as states whose cells an
   operation could move (cursors of stored readers, the read offset of a
   bytes.Buffer), operations as programs of atomic accesses to that state, and
   a scheduler that interleaves the accesses of any number of such programs.
   Definitions only. *)
From Coq Require Import Bool List NArith Lia Arith.
From Coq.Strings Require Import Byte.
From GoUefi Require Import Base.Bytes Base.Outcome Base.Reader Base.Sha256 Model.Util Model.WinCert Model.SigList Model.SigDb
     Model.Pkcs7 Model.PE Model.PEVerify.
Import ListNotations.
Local Open Scope N_scope.

(* ---- programs of atomic accesses to a shared state ---- *)
Section T.
Variables S R : Type.

Inductive tprog : Type :=
| TDone (r : R)
| TAct (A : Type) (a : S -> A * S) (k : A -> tprog).

(* run a program alone, to the end *)
Fixpoint exec (t : tprog) (s : S) : R * S :=
  match t with
  | TDone r => (r, s)
  | TAct _ a k => let '(x, s') := a s in exec (k x) s'
  end.

(* one atomic access *)
Definition tstep (s : S) (t : tprog) : S * tprog :=
  match t with
  | TDone _ => (s, t)
  | TAct _ a k => let '(x, s') := a s in (s', k x)
  end.

Fixpoint upd {X} (i : nat) (x : X) (l : list X) : list X :=
  match l, i with
  | [], _ => []
  | _ :: r, O => x :: r
  | y :: r, Datatypes.S j => y :: upd j x r
  end.

(* a schedule names, step by step, the goroutine that performs its next access *)
Fixpoint sched (sigma : list nat) (s : S) (p : list tprog) : S * list tprog :=
  match sigma with
  | [] => (s, p)
  | i :: rest =>
      match nth_error p i with
      | None => sched rest s p
      | Some t => let '(s', t') := tstep s t in sched rest s' (upd i t' p)
      end
  end.

(* n accesses of one goroutine, alone *)
Fixpoint solo (n : nat) (s : S) (t : tprog) : S * tprog :=
  match n with
  | O => (s, t)
  | Datatypes.S m => let '(s', t') := tstep s t in solo m s' t'
  end.

(* a sequence of calls on one goroutine *)
Fixpoint run_seq (ops : list tprog) (s : S) : list R * S :=
  match ops with
  | [] => ([], s)
  | t :: rest => let '(r, s') := exec t s in let '(rs, s'') := run_seq rest s' in (r :: rs, s'')
  end.

(* read-only: no access changes the shared state *)
Inductive RO : tprog -> Prop :=
| RO_done r : RO (TDone r)
| RO_act A a k : (forall s, snd (a s) = s) -> (forall x, RO (k x)) -> RO (TAct A a k).

Definition result (t : tprog) : option R := match t with TDone r => Some r | _ => None end.
End T.
Arguments TDone {S R} r.
Arguments TAct {S R A} a k.
Arguments exec {S R} t s.
Arguments tstep {S R} s t.
Arguments sched {S R} sigma s p.
Arguments solo {S R} n s t.
Arguments run_seq {S R} ops s.
Arguments RO {S R} t.
Arguments result {S R} t.

(* ==== a parsed image (authenticode.PECOFFBinary) ==== *)
Record istate := mkI {
  i_pe : pestate;               (* pe_table: the whole content of the certTable buffer *)
  i_c1 : N; i_c2 : N; i_c3 : N; (* cursors of the stored firstSection / optDataDir / lastSection readers *)
  i_off : N }.                  (* read offset of the certTable buffer *)

Definition sec_content (which : nat) (st : pestate) : bytes :=
  let L := pe_L st in
  match which with
  | O => sub 0 (l_dd4 L) (pe_img st)
  | 1%nat => pe_optdd st
  | _ => sub (l_dd4 L + 8) (l_size L - l_certsize L - (l_dd4 L + 8)) (pe_img st)
  end.
Definition cursor (which : nat) (s : istate) : N :=
  match which with O => i_c1 s | 1%nat => i_c2 s | _ => i_c3 s end.
Definition set_cursor (which : nat) (c : N) (s : istate) : istate :=
  match which with
  | O => mkI (i_pe s) c (i_c2 s) (i_c3 s) (i_off s)
  | 1%nat => mkI (i_pe s) (i_c1 s) c (i_c3 s) (i_off s)
  | _ => mkI (i_pe s) (i_c1 s) (i_c2 s) c (i_off s)
  end.
Definition table_now (s : istate) : bytes := skipn (N.to_nat (i_off s)) (pe_table (i_pe s)).
(* what the read-only operations see *)
Definition view (s : istate) : pestate :=
  let st := i_pe s in mkPE (pe_L st) (pe_img st) (pe_va st) (pe_ddsize st) (pe_optdd st) (table_now s).

(* the accesses *)
(* io.NewSectionReader(sr, 0, sr.Size()) and reading the copy to its end: ReadAt on the stored reader *)
Definition sec_readat (which : nat) (s : istate) : bytes * istate := (sec_content which (i_pe s), s).
(* Read on the stored reader itself: from its cursor to the end, which moves the cursor *)
Definition sec_read (which : nat) (s : istate) : bytes * istate :=
  let c := sec_content which (i_pe s) in
  (skipn (N.to_nat (cursor which s)) c, set_cursor which (N.max (cursor which s) (blen c)) s).
(* certTable.Bytes() *)
Definition tbl_bytes (s : istate) : bytes * istate := (table_now s, s).
(* certTable.Next(certTable.Len()) / reading the buffer itself *)
Definition tbl_next (s : istate) : bytes * istate :=
  (table_now s, mkI (i_pe s) (i_c1 s) (i_c2 s) (i_c3 s) (N.max (i_off s) (blen (pe_table (i_pe s))))).
Definition pad_get (s : istate) : bytes * istate := (zeros (N.to_nat (pad8 (l_size (pe_L (i_pe s))))), s).
(* makeSectionReader(p.hashContent) read to its end: ReadAt on the parts *)
Definition hash_readat (s : istate) : option bytes * istate := (hash_content (i_pe s), s).

Inductive ires :=
| IBytes (b : bytes)
| IHash (h : option bytes)
| ISigs (l : outcome (list wincert))
| IVerify (v : outcome bool).

Section Img.
Variable utctime_ok : bytes -> bool.
Variable x509_ok : bytes -> bool.
Variable rsa_ok : N -> bytes -> bytes -> bool.

(* Open() read to the end, and Bytes() *)
Definition op_bytes : tprog istate ires :=
  TAct (sec_readat 0) (fun a => TAct (sec_readat 1) (fun b => TAct (sec_readat 2) (fun c =>
  TAct pad_get (fun p => TAct tbl_bytes (fun t => TDone (IBytes (a ++ b ++ c ++ p ++ t))))))).
Definition op_hash : tprog istate ires :=
  TAct hash_readat (fun h => TDone (IHash (option_map sha256 h))).
Definition op_sigs : tprog istate ires :=
  TAct tbl_bytes (fun t => TDone (ISigs (signatures_loop (length t) t))).
Definition op_verify (c : cert) : tprog istate ires :=
  TAct tbl_bytes (fun t =>
    match signatures_loop (length t) t with
    | Ret [] => TDone (IVerify (Err 80))
    | Ret sigs =>
        TAct hash_readat (fun h =>
          TDone (IVerify (match h with
                          | None => Err 82
                          | Some pre => verify_sigs utctime_ok x509_ok rsa_ok sigs c (sha256 pre)
                          end)))
    | Err e => TDone (IVerify (Err e))
    | Panic e => TDone (IVerify (Panic e))
    | Fatal e => TDone (IVerify (Fatal e))
    end).

(* the read-only operations of a parsed image *)
Inductive image_op : tprog istate ires -> Prop :=
| io_bytes : image_op op_bytes
| io_hash : image_op op_hash
| io_sigs : image_op op_sigs
| io_verify c : image_op (op_verify c).

(* what the code would be with the accidents the property names: Open() over the
   stored readers themselves, and the table taken with Buffer.Next *)
Definition op_bytes_shared_readers : tprog istate ires :=
  TAct (sec_read 0) (fun a => TAct (sec_read 1) (fun b => TAct (sec_read 2) (fun c =>
  TAct pad_get (fun p => TAct tbl_bytes (fun t => TDone (IBytes (a ++ b ++ c ++ p ++ t))))))).
Definition op_sigs_consuming : tprog istate ires :=
  TAct tbl_next (fun t => TDone (ISigs (signatures_loop (length t) t))).
End Img.

(* ==== a signature database ==== *)
Definition dstate := list siglist.
Definition db_get (d : dstate) : dstate * dstate := (d, d).
Inductive dres := DBytes (b : bytes) | DBool (b : bool).
Definition op_db_bytes : tprog dstate dres := TAct db_get (fun d => TDone (DBytes (enc_db d))).
Definition op_db_sig_exists (t : guid) (sg : sigdata) : tprog dstate dres :=
  TAct db_get (fun d => TDone (DBool (db_sigdata_exists d t sg))).
Definition op_db_list_exists (l : siglist) : tprog dstate dres :=
  TAct db_get (fun d => TDone (DBool (db_list_exists d l))).
Inductive db_op : tprog dstate dres -> Prop :=
| do_bytes : db_op op_db_bytes
| do_sig t sg : db_op (op_db_sig_exists t sg)
| do_list l : db_op (op_db_list_exists l).
(* an encoder that pops the lists it writes *)
Definition db_drain (d : dstate) : dstate * dstate := (d, []).
Definition op_db_bytes_draining : tprog dstate dres := TAct db_drain (fun d => TDone (DBytes (enc_db d))).

(* ==== a parsed PKCS#7 object ==== *)
Section P7.
Variable rsa_ok : N -> bytes -> bytes -> bool.
Definition p7_get (p : pkcs7) : pkcs7 * pkcs7 := (p, p).
Inductive pres := PVerify (v : outcome bool) | PHas (b : bool).
Definition op_p7_verify (c : cert) : tprog pkcs7 pres :=
  TAct p7_get (fun p => TDone (PVerify (pkcs7_verify rsa_ok p c))).
Definition op_p7_has (c : cert) : tprog pkcs7 pres :=
  TAct p7_get (fun p => TDone (PHas (has_certificate p c))).
Inductive p7_op : tprog pkcs7 pres -> Prop :=
| po_verify c : p7_op (op_p7_verify c)
| po_has c : p7_op (op_p7_has c).
End P7.

(* ==== a signed-update value (efibytes: a bytes.Buffer held by value) ==== *)
Record bstate := mkB { b_data : bytes; b_off : N }.
Definition buf_now (b : bstate) : bytes := skipn (N.to_nat (b_off b)) (b_data b).
(* a value receiver: io.Copy drains a copy of the struct *)
Definition buf_copy_drain (b : bstate) : bytes * bstate := (buf_now b, b).
(* a pointer receiver would drain the value itself *)
Definition buf_drain (b : bstate) : bytes * bstate := (buf_now b, mkB (b_data b) (N.max (b_off b) (blen (b_data b)))).
Definition op_val_marshal : tprog bstate bytes := TAct buf_copy_drain (fun x => TDone x).
Definition op_val_marshal_ptr : tprog bstate bytes := TAct buf_drain (fun x => TDone x).
