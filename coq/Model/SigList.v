(* Model/SigList.v -- efi/signature: EFI_SIGNATURE_LIST / EFI_SIGNATURE_DATA
   codecs and the signature database decoder (as repaired: strict sizes, only a
   clean end between lists, externally managed entries kept). Definitions only. *)
From Coq Require Import Bool List NArith Lia Arith.
From Coq.Strings Require Import Byte.
From GoUefi Require Import Base.Bytes Base.Outcome Base.Reader Model.Util.
Import ListNotations.
Local Open Scope N_scope.
Local Open Scope outcome_scope.

Record sigdata := mkSig { sd_owner : guid; sd_data : bytes }.
Record siglist := mkList {
  sl_type : guid; sl_listsize : N; sl_headersize : N; sl_size : N;
  sl_header : bytes; sl_sigs : list sigdata }.

(* the signature type GUIDs of signature_list.go *)
Definition g8 (a b c d e f g h : N) : bytes := map n2b [a; b; c; d; e; f; g; h].
Definition CERT_SHA256 := mkGuid 3250853414 20556 16530 (g8 172 169 65 249 54 147 67 40).
Definition CERT_RSA2048 := mkGuid 1012360936 9884 20020 (g8 170 20 237 119 110 133 179 182).
Definition CERT_RSA2048_SHA256 := mkGuid 3803406736 34715 19005 (g8 173 141 242 231 187 163 39 132).
Definition CERT_SHA1 := mkGuid 2188158226 53008 19145 (g8 177 135 190 1 73 102 49 189).
Definition CERT_RSA2048_SHA1 := mkGuid 1744323663 34627 18673 (g8 163 40 30 170 184 115 96 128).
Definition CERT_X509 := mkGuid 2780846497 38116 19111 (g8 135 181 171 21 92 43 240 114).
Definition CERT_SHA224 := mkGuid 191779379 42588 17609 (g8 148 7 217 171 131 191 200 189).
Definition CERT_SHA384 := mkGuid 4282274567 40912 18633 (g8 133 241 138 213 108 112 30 1).
Definition CERT_SHA512 := mkGuid 155062190 42692 20304 (g8 159 27 212 30 43 137 193 154).
Definition CERT_X509_SHA256 := mkGuid 1003660434 38592 16505 (g8 180 32 252 249 142 241 3 237).
Definition CERT_EXTERNAL_MANAGEMENT := mkGuid 1160678637 57343 19340 (g8 174 1 81 24 134 46 104 44).

Definition valid_schemes : list guid :=
  [CERT_SHA256; CERT_RSA2048; CERT_RSA2048_SHA256; CERT_SHA1; CERT_RSA2048_SHA1; CERT_X509;
   CERT_SHA224; CERT_SHA384; CERT_SHA512; CERT_X509_SHA256; CERT_EXTERNAL_MANAGEMENT].
Definition valid_scheme (g : guid) : bool := existsb (guid_eqb g) valid_schemes.

(* what the decoder handles, and the size constraint each kind carries *)
Definition size_ok (t : guid) (hs sz : N) : bool :=
  if guid_eqb t CERT_X509 then hs =? 0
  else if guid_eqb t CERT_SHA256 then (hs =? 0) && (sz =? 48)
  else if guid_eqb t CERT_EXTERNAL_MANAGEMENT then (hs =? 0) && (sz =? 17)
  else false.

Definition enc_sig (s : sigdata) : bytes := guid_wire (sd_owner s) ++ sd_data s.
Definition enc_sigs (l : list sigdata) : bytes := flat_map enc_sig l.

(* WriteSignatureList *)
Definition enc_list (l : siglist) : bytes :=
  guid_wire (sl_type l) ++ le 4 (sl_listsize l) ++ le 4 (sl_headersize l) ++ le 4 (sl_size l) ++
  sl_header l ++ enc_sigs (sl_sigs l).

(* WriteSignatureDatabase *)
Definition enc_db (db : list siglist) : bytes := flat_map enc_list db.

(* n signatures of [size] bytes each from the front of bs *)
Fixpoint split_sigs (n : nat) (size : N) (bs : bytes) : option (list sigdata * bytes) :=
  match n with
  | O => Some ([], bs)
  | S n' =>
      match takeN 16 bs with None => None | Some (o, r1) =>
      match takeN (size - 16) r1 with None => None | Some (d, r2) =>
      match split_sigs n' size r2 with None => None | Some (l, rest) =>
        Some (mkSig (guid_of_wire o) d :: l, rest)
      end end end
  end.

Inductive rl_result :=
| RL_EOF                         (* clean end of input: no further list *)
| RL_Err (e : N)
| RL_Ok (l : siglist) (rest : bytes).

(* ReadSignatureList *)
Definition is_nil {A} (l : list A) : bool := match l with [] => true | _ => false end.

Definition read_list (bs : bytes) : rl_result :=
  if is_nil bs then RL_EOF else
    match takeN 16 bs with None => RL_Err 1 | Some (t, r0) =>
    match takeN 4 r0 with None => RL_Err 1 | Some (ls, r1) =>
    match takeN 4 r1 with None => RL_Err 1 | Some (hs, r2) =>
    match takeN 4 r2 with None => RL_Err 1 | Some (sz, r3) =>
      let ty := guid_of_wire t in
      let listsize := unle ls in let hsize := unle hs in let size := unle sz in
      if (listsize <? 28) || (size <? 16) || negb ((listsize - 28) mod size =? 0) then RL_Err 2
      else if negb (size_ok ty hsize size) then RL_Err 3
      else
        let n := (listsize - 28) / size in
        (* the code reads signature by signature and fails on the first short
           read; that happens exactly when fewer than n*size bytes are left *)
        if blen r3 <? n * size then RL_Err 4
        else match split_sigs (N.to_nat n) size r3 with
             | None => RL_Err 4
             | Some (sigs, rest) => RL_Ok (mkList ty listsize hsize size [] sigs) rest
             end
    end end end end.

(* ReadSignatureDatabase: lists until the clean end; every list consumes at
   least 28 bytes, so [length bs] iterations always suffice *)
Fixpoint read_db (fuel : nat) (bs : bytes) : outcome (list siglist) :=
  match read_list bs with
  | RL_EOF => Ret []
  | RL_Err e => Err e
  | RL_Ok l rest =>
      match fuel with
      | O => Err 99
      | S f => db <- read_db f rest ;; Ret (l :: db)
      end
  end.
Definition read_signature_database (bs : bytes) : outcome (list siglist) := read_db (length bs) bs.

(* the well-formed lists of the layout, of the kinds the decoder handles *)
Definition wf_sig (size : N) (s : sigdata) : Prop :=
  wf_guid (sd_owner s) /\ blen (sd_data s) = size - 16.
Definition wf_list (l : siglist) : Prop :=
  wf_guid (sl_type l) /\ size_ok (sl_type l) (sl_headersize l) (sl_size l) = true /\
  sl_header l = [] /\ 16 <= sl_size l /\
  sl_listsize l = 28 + sl_headersize l + N.of_nat (length (sl_sigs l)) * sl_size l /\
  sl_listsize l < 4294967296 /\ sl_size l < 4294967296 /\
  Forall (wf_sig (sl_size l)) (sl_sigs l).

(* GetSupportedSignatures: the input is a packed array of GUIDs; trailing bytes
   that do not fill a GUID are ignored *)
Fixpoint chunks16 (n : nat) (bs : bytes) : list guid :=
  match n with
  | O => []
  | S n' => guid_of_wire (firstn 16 bs) :: chunks16 n' (skipn 16 bs)
  end.
Definition supported_signatures (bs : bytes) : list guid := chunks16 (length bs / 16) bs.
