(* Model/PEVerify.v -- PECOFFBinary.Verify and Sign: the certificate-table walk,
   Authenticode parsing, the digest comparison and PKCS#7 verification, with the
   code's control flow (the first error aborts). Definitions only. *)
From Coq Require Import Bool List NArith ZArith Lia.
From Coq.Strings Require Import Byte.
From GoUefi Require Import Base.Bytes Base.Outcome Base.Reader Base.Der Base.Sha256 Model.WinCert Model.Pkcs7 Model.PE.
Import ListNotations.
Local Open Scope N_scope.
Local Open Scope outcome_scope.

Section V.
Variable utctime_ok : bytes -> bool.
Variable x509_ok : bytes -> bool.
Variable rsa_ok : N -> bytes -> bytes -> bool.

(* the loop of Verify over the listed signatures *)
Fixpoint verify_sigs (sigs : list wincert) (c : cert) (digest : bytes) : outcome bool :=
  match sigs with
  | [] => Err 81                                   (* ErrNoValidSignatures *)
  | w :: r =>
      a <- parse_authenticode utctime_ok x509_ok (wc_cert w) ;;
      ok <- authenticode_verify rsa_ok a c digest ;;
      if (ok : bool) then Ret true else verify_sigs r c digest
  end.

(* PECOFFBinary.Verify *)
Definition pe_verify (st : pestate) (c : cert) : outcome bool :=
  sigs <- pe_signatures st ;;
  match sigs with
  | [] => Err 80                                   (* ErrNoSignatures *)
  | _ =>
      match hash_content st with
      | None => Err 82                             (* the image cannot be read *)
      | Some pre => verify_sigs sigs c (sha256 pre)
      end
  end.
End V.

(* PECOFFBinary.Sign, given the signature the signer returned *)
Definition pe_sign (st : pestate) (cert_raw issuer_raw : bytes) (serial : N) (time sig : bytes) : option (bytes * pestate) :=
  match hash_content st with
  | None => None
  | Some pre =>
      let blob := sign_authenticode cert_raw issuer_raw serial (sha256 pre) time sig in
      Some (blob, append_signature st blob)
  end.
