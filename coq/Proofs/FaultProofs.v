(* Proofs/FaultProofs.v -- C15: for every position of the dependency-call
   sequence at which the call fails, the operation returns an error. *)
From Coq Require Import Bool List NArith Lia Arith.
From Coq.Strings Require Import Byte.
From GoUefi Require Import Base.Bytes Base.Outcome Base.Reader Base.Prog Model.Util Model.VarIO Model.Faults
  Proofs.VarIOProofs.
Import ListNotations.
Local Open Scope N_scope.

Definition is_err {A} (o : outcome A) : bool := match o with Err _ => true | _ => false end.

(* the signer fails: an error, nothing else is called *)
Theorem sign_fault {A} e digest (finish : bytes -> A) :
  run (fail_at 0 e) (sign_prog digest finish) 0 = (Err 1, [CSign digest]).
Proof. reflexivity. Qed.
Theorem sign_ok {A} digest (finish : bytes -> A) sig :
  run (fun _ _ => ROk 0 sig) (sign_prog digest finish) 0 = (Ret (finish sig), [CSign digest]).
Proof. reflexivity. Qed.

(* a failed image signing leaves the image object as it was *)
Theorem pe_sign_fault {S} e (st : S) digest append finish :
  run (fail_at 0 e) (pe_sign_prog st digest append finish) 0 = ((Err 1, st), [CSign digest]).
Proof. reflexivity. Qed.

(* a failed signed update writes nothing: no file-system call at all *)
Theorem signed_update_sign_fault e digest finish dir name g attrs :
  run (fail_at 0 e) (signed_update_prog digest finish dir name g attrs) 0 = (Err 1, [CSign digest]).
Proof. reflexivity. Qed.

(* file-system faults of a signed update: positions 1 (open), 2 (write), 3 (close) *)
Theorem signed_update_fs_fault sig digest finish dir name g attrs k : (1 <= k <= 3)%nat ->
  let e : env := fun i c => match c with CWrite b => ROk (blen b) [] | _ => ROk 0 sig end in
  exists err t, run (fail_at k e) (signed_update_prog digest finish dir name g attrs) 0 = (Err err, t) /\
                forallb is_close (skipn (S k) t) = true.
Proof.
  intros Hk e. destruct k as [|[|[|[|k]]]]; try lia; unfold signed_update_prog, write_var;
    cbn [run fail_at Nat.eqb e]; rewrite ?N.eqb_refl; eexists _, _; split; reflexivity.
Qed.

(* reading: every position 0..4 (open, stat, read, read, close) *)
Definition env_read (size : N) (a v : bytes) : env := fun i c =>
  match c with
  | CStat => ROk size []
  | CRead n => if n =? 4 then ROk 4 a else ROk n v
  | _ => ROk 0 []
  end.

Theorem read_fault path required size a v k : (k <= 4)%nat -> size <> 8 ->
  exists err t, run (fail_at k (env_read size a v)) (read_var_prog path required) 0 = (Err err, t) /\
                forallb is_close (skipn (S k) t) = true.
Proof.
  intros Hk Hs. destruct k as [|[|[|[|[|k]]]]]; try lia; unfold read_var_prog;
    cbn [run fail_at Nat.eqb env_read N.eqb Pos.eqb].
  - eexists _, _; split; reflexivity.
  - eexists _, _; split; reflexivity.
  - eexists _, _; split; reflexivity.
  - destruct (N.eqb_spec (size - 4) 4); [lia|]. eexists _, _; split; reflexivity.
  - destruct (N.eqb_spec (size - 4) 4); [lia|]. eexists _, _; split; reflexivity.
Qed.

(* with no fault the value and the stored attributes come back *)
Theorem read_ok path required size a v : size <> 8 -> attrs_subset required (unle a) = true ->
  fst (run (env_read size a v) (read_var_prog path required) 0) = Ret (unle a, v).
Proof.
  intros Hs Ha. unfold read_var_prog. cbn [run env_read N.eqb Pos.eqb fst].
  destruct (N.eqb_spec (size - 4) 4); [lia|]. cbn [fst]. rewrite Ha. reflexivity.
Qed.

(* image reads: whichever of the n reads fails, the operation ends in an error
   and no further read is issued *)
Definition env_all_ok : env := fun _ _ => ROk 0 [].

Theorem reads_fault {A} (n : nat) (cont : prog (outcome A)) : forall k i, (k < n)%nat ->
  exists t, run (fail_at (i + k) env_all_ok) (reads_prog n cont) i = (Err 1, t) /\ length t = S k.
Proof.
  induction n as [|n IH]; intros k i Hk; [lia|].
  cbn [reads_prog run]. destruct k as [|k].
  - unfold fail_at. rewrite Nat.add_0_r, Nat.eqb_refl. cbn [run]. eexists. split; reflexivity.
  - destruct (IH k (S i) ltac:(lia)) as (t & Ht & Hl).
    assert (E : fail_at (i + S k) env_all_ok i CReadAt = ROk 0 []).
    { unfold fail_at. destruct (Nat.eqb_spec i (i + S k)); [lia|reflexivity]. }
    rewrite E. replace (i + S k)%nat with (S i + k)%nat by lia. rewrite Ht. eexists. split; [reflexivity|]. cbn [length]. rewrite Hl. reflexivity.
Qed.
