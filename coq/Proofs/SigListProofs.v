(* Proofs/SigListProofs.v -- C07 / C08: the signature database decoder is the
   exact inverse of the encoder on the well-formed language, and accepts nothing else. *)
From Coq Require Import Bool List NArith ZArith Lia Arith ZifyN ZifyNat ZifyBool.
From Coq.Strings Require Import Byte.
From GoUefi Require Import Base.Bytes Base.Outcome Base.Reader Model.Util Model.SigList Proofs.UtilProofs.
Import ListNotations.
Ltac Zify.zify_post_hook ::= Z.div_mod_to_equations.
Local Open Scope N_scope.

Lemma blen_guid_wire g : wf_guid g -> blen (guid_wire g) = 16.
Proof. intros H. unfold blen. rewrite guid_wire_length by exact H. reflexivity. Qed.

Lemma size_ok_hs t hs sz : size_ok t hs sz = true -> hs = 0.
Proof.
  unfold size_ok. destruct (guid_eqb t CERT_X509); [intros H; apply N.eqb_eq; exact H|].
  destruct (guid_eqb t CERT_SHA256); [intros H; apply andb_true_iff in H as [H _]; apply N.eqb_eq; exact H|].
  destruct (guid_eqb t CERT_EXTERNAL_MANAGEMENT); [|discriminate].
  intros H; apply andb_true_iff in H as [H _]; apply N.eqb_eq; exact H.
Qed.

(* ---------- signatures ---------- *)
Lemma split_sigs_enc sigs size rest :
  16 <= size -> Forall (wf_sig size) sigs ->
  split_sigs (length sigs) size (enc_sigs sigs ++ rest) = Some (sigs, rest).
Proof.
  intros Hs. induction sigs as [|s sigs IH]; intros Hw; [reflexivity|].
  inversion Hw as [|? ? [Ho Hd] Hw']; subst.
  cbn [length split_sigs enc_sigs flat_map]. unfold enc_sig at 1. rewrite <- !app_assoc.
  rewrite takeN_app by (apply blen_guid_wire; exact Ho).
  rewrite takeN_app by exact Hd.
  fold (enc_sigs sigs). rewrite IH by exact Hw'.
  rewrite guid_of_wire_wire by exact Ho. destruct s; reflexivity.
Qed.

Lemma split_sigs_inv n size bs sigs rest :
  16 <= size -> split_sigs n size bs = Some (sigs, rest) ->
  bs = enc_sigs sigs ++ rest /\ length sigs = n /\ Forall (wf_sig size) sigs.
Proof.
  intros Hs. revert bs sigs rest. induction n as [|n IH]; intros bs sigs rest H.
  - cbn in H. injection H as <- <-. repeat split; constructor.
  - cbn [split_sigs] in H.
    destruct (takeN 16 bs) as [[o r1]|] eqn:E1; [|discriminate H].
    destruct (takeN (size - 16) r1) as [[d r2]|] eqn:E2; [|discriminate H].
    destruct (split_sigs n size r2) as [[l rest']|] eqn:E3; [|discriminate H].
    injection H as <- <-.
    apply takeN_inv in E1 as [-> L1]. apply takeN_inv in E2 as [-> L2].
    apply IH in E3 as (-> & Hn & Hw).
    assert (Lo : length o = 16%nat) by (unfold blen in L1; lia).
    repeat split.
    + cbn [enc_sigs flat_map]. unfold enc_sig at 1. cbn [sd_owner sd_data].
      rewrite guid_wire_of_wire by exact Lo. rewrite <- !app_assoc. reflexivity.
    + cbn [length]. rewrite Hn. reflexivity.
    + constructor; [|exact Hw]. split; cbn [sd_owner sd_data]; [apply guid_of_wire_wf; lia|exact L2].
Qed.

Lemma blen_enc_sigs size sigs :
  16 <= size -> Forall (wf_sig size) sigs -> blen (enc_sigs sigs) = N.of_nat (length sigs) * size.
Proof.
  intros Hs. induction sigs as [|s sigs IH]; intros Hw; [reflexivity|].
  inversion Hw as [|? ? [Ho Hd] Hw']; subst.
  cbn [enc_sigs flat_map length]. unfold enc_sig at 1. fold (enc_sigs sigs).
  rewrite !blen_app, IH by exact Hw'. rewrite blen_guid_wire by exact Ho. rewrite Hd. lia.
Qed.

(* ---------- one list ---------- *)
Lemma read_list_enc l rest : wf_list l -> read_list (enc_list l ++ rest) = RL_Ok l rest.
Proof.
  intros (Ht & Hok & Hh & Hs & Hls & Hlb & Hsb & Hw).
  pose proof (size_ok_hs _ _ _ Hok) as Hhs.
  unfold read_list, enc_list.
  pose proof (blen_guid_wire _ Ht) as Lg.
  rewrite <- !app_assoc.
  assert (Hnn : is_nil (guid_wire (sl_type l) ++ le 4 (sl_listsize l) ++ le 4 (sl_headersize l) ++
                        le 4 (sl_size l) ++ sl_header l ++ enc_sigs (sl_sigs l) ++ rest) = false).
  { destruct (guid_wire (sl_type l)); [cbn in Lg; lia|reflexivity]. }
  rewrite Hnn.
  rewrite takeN_app by exact Lg.
  rewrite takeN_app by (rewrite blen_le; reflexivity).
  rewrite takeN_app by (rewrite blen_le; reflexivity).
  rewrite takeN_app by (rewrite blen_le; reflexivity).
  rewrite guid_of_wire_wire by exact Ht.
  rewrite !unle_le_small by (rewrite pow256_4; lia).
  set (n := N.of_nat (length (sl_sigs l))) in *.
  assert (Hmod : (sl_listsize l - 28) mod sl_size l = 0).
  { replace (sl_listsize l - 28) with (n * sl_size l) by lia. apply N.mod_mul. lia. }
  assert (Hdiv : (sl_listsize l - 28) / sl_size l = n).
  { replace (sl_listsize l - 28) with (n * sl_size l) by lia. apply N.div_mul. lia. }
  destruct (N.ltb_spec (sl_listsize l) 28); [lia|].
  destruct (N.ltb_spec (sl_size l) 16); [lia|].
  rewrite Hmod. cbn [N.eqb negb orb]. rewrite Hok. cbn [negb].
  rewrite Hdiv, Hh. cbn [app].
  rewrite blen_app, (blen_enc_sigs (sl_size l)) by assumption.
  unfold n. 
  match goal with |- context [?a <? ?b] => destruct (N.ltb_spec a b); [lia|] end.
  rewrite Nat2N.id. rewrite split_sigs_enc by assumption.
  clear - Hh. destruct l as [t ls hs sz hd sg].
  cbn [sl_type sl_listsize sl_headersize sl_size sl_header sl_sigs] in *. subst hd. reflexivity.
Qed.

Lemma read_list_inv bs l rest :
  read_list bs = RL_Ok l rest -> bs = enc_list l ++ rest /\ wf_list l.
Proof.
  unfold read_list. destruct (is_nil bs); [discriminate|]. intros H.
  destruct (takeN 16 bs) as [[t r0]|] eqn:E0; [|discriminate H].
  destruct (takeN 4 r0) as [[ls r1]|] eqn:E1; [|discriminate H].
  destruct (takeN 4 r1) as [[hs r2]|] eqn:E2; [|discriminate H].
  destruct (takeN 4 r2) as [[sz r3]|] eqn:E3; [|discriminate H].
  apply takeN_inv in E0 as [E0 L0]. apply takeN_inv in E1 as [-> L1].
  apply takeN_inv in E2 as [-> L2]. apply takeN_inv in E3 as [-> L3].
  destruct (N.ltb_spec (unle ls) 28) as [C1|C1]; [discriminate H|].
  destruct (N.ltb_spec (unle sz) 16) as [C2|C2]; [discriminate H|].
  destruct (N.eqb_spec ((unle ls - 28) mod unle sz) 0) as [C3|C3]; [|discriminate H].
  cbn [orb negb] in H.
  destruct (size_ok (guid_of_wire t) (unle hs) (unle sz)) eqn:Hok; [|discriminate H]. cbn [negb] in H.
  destruct (N.ltb_spec (blen r3) ((unle ls - 28) / unle sz * unle sz)) as [C4|C4]; [discriminate H|].
  destruct (split_sigs (N.to_nat ((unle ls - 28) / unle sz)) (unle sz) r3) as [[sigs rest']|] eqn:ES; [|discriminate H].
  injection H as <- <-.
  apply split_sigs_inv in ES as (-> & Hn & Hw); [|exact C2].
  assert (Lt : length t = 16%nat) by (unfold blen in L0; lia).
  assert (Lls : length ls = 4%nat) by (unfold blen in L1; lia).
  assert (Lhs : length hs = 4%nat) by (unfold blen in L2; lia).
  assert (Lsz : length sz = 4%nat) by (unfold blen in L3; lia).
  pose proof (size_ok_hs _ _ _ Hok) as Hhs.
  split.
  - rewrite E0. unfold enc_list. cbn [sl_type sl_listsize sl_headersize sl_size sl_header sl_sigs].
    rewrite guid_wire_of_wire by exact Lt.
    rewrite !le_unle_k by (symmetry; assumption). rewrite <- !app_assoc. reflexivity.
  - unfold wf_list. cbn [sl_type sl_listsize sl_headersize sl_size sl_header sl_sigs].
    pose proof (unle_lt ls) as B1. rewrite Lls, pow256_4 in B1.
    pose proof (unle_lt sz) as B3. rewrite Lsz, pow256_4 in B3.
    split; [apply guid_of_wire_wf; lia|].
    split; [exact Hok|]. split; [reflexivity|]. split; [exact C2|].
    assert (Hq : (unle ls - 28) / unle sz * unle sz = unle ls - 28).
    { pose proof (N.div_mod (unle ls - 28) (unle sz)) as X. rewrite C3, N.add_0_r in X.
      rewrite N.mul_comm. symmetry. apply X. lia. }
    split; [rewrite Hhs, Hn, N2Nat.id, Hq; lia|].
    split; [exact B1|]. split; [exact B3|exact Hw].
Qed.

Lemma read_list_eof bs : read_list bs = RL_EOF <-> bs = [].
Proof.
  split; [|intros ->; reflexivity].
  unfold read_list. destruct bs as [|b bs']; [reflexivity|]. cbn [is_nil]. intros H. exfalso.
  repeat match type of H with
  | context [match takeN ?n ?x with _ => _ end] => destruct (takeN n x) as [[? ?]|]; [|discriminate H]
  | context [if ?c then _ else _] => destruct c; [discriminate H|]
  end.
  destruct (split_sigs _ _ _) as [[? ?]|]; discriminate H.
Qed.

Lemma enc_list_length l : wf_guid (sl_type l) -> 28 <= blen (enc_list l).
Proof.
  intros H. unfold enc_list. rewrite !blen_app, !blen_le, blen_guid_wire by exact H. lia.
Qed.

(* ---------- the database ---------- *)
Lemma read_db_enc db : Forall wf_list db ->
  forall f rest, rest = [] -> (length (enc_db db) <= f)%nat -> read_db f (enc_db db ++ rest) = Ret db.
Proof.
  induction db as [|l db IH]; intros Hw f rest -> Hf.
  - destruct f; reflexivity.
  - inversion Hw as [|? ? Hl Hdb]; subst.
    cbn [enc_db flat_map] in *. fold (enc_db db) in *. rewrite app_nil_r in *.
    pose proof (enc_list_length l (proj1 Hl)) as L28. unfold blen in L28.
    rewrite app_length in Hf.
    destruct f as [|f]; [lia|].
    cbn [read_db]. rewrite read_list_enc by exact Hl.
    specialize (IH Hdb f [] eq_refl). rewrite app_nil_r in IH. rewrite IH by lia. reflexivity.
Qed.

Lemma read_db_inv f : forall bs db,
  read_db f bs = Ret db -> bs = enc_db db /\ Forall wf_list db.
Proof.
  induction f as [|f IH]; intros bs db H; cbn [read_db] in H.
  - destruct (read_list bs) eqn:E; try discriminate H.
    injection H as <-. apply read_list_eof in E. subst. split; constructor.
  - destruct (read_list bs) as [|e|l rest] eqn:E; try discriminate H.
    + injection H as <-. apply read_list_eof in E. subst. split; constructor.
    + apply bind_ret_inv in H as (db' & H1 & H2). injection H2 as <-.
      apply read_list_inv in E as [-> Hl]. apply IH in H1 as [-> Hdb].
      split; [reflexivity|constructor; assumption].
Qed.

Theorem decode_encode db :
  Forall wf_list db -> read_signature_database (enc_db db) = Ret db.
Proof.
  intros H. unfold read_signature_database.
  pose proof (read_db_enc db H (length (enc_db db)) [] eq_refl (Nat.le_refl _)) as X.
  rewrite app_nil_r in X. exact X.
Qed.

Theorem decode_strict bs db :
  read_signature_database bs = Ret db -> bs = enc_db db /\ Forall wf_list db.
Proof. apply read_db_inv. Qed.

(* well-formed databases with equal encodings are equal *)
Theorem enc_db_inj a b : Forall wf_list a -> Forall wf_list b -> enc_db a = enc_db b -> a = b.
Proof.
  intros Ha Hb E. pose proof (decode_encode a Ha) as X. rewrite E, (decode_encode b Hb) in X.
  injection X as ->. reflexivity.
Qed.

(* the decoder always returns: a value or an error, never a panic or an exit *)
Lemma read_db_returns f : forall bs, returns (read_db f bs) = true.
Proof.
  induction f as [|f IH]; intros bs; cbn [read_db]; destruct (read_list bs); try reflexivity.
  apply bind_returns; [apply IH|reflexivity].
Qed.

(* anything that is not the encoding of well-formed lists is rejected *)
Theorem reject_outside bs :
  (forall db, Forall wf_list db -> bs <> enc_db db) -> exists e, read_signature_database bs = Err e.
Proof.
  intros H. pose proof (read_db_returns (length bs) bs) as R. fold (read_signature_database bs) in R.
  destruct (read_signature_database bs) as [db|e|w|s] eqn:E; try discriminate R.
  - apply decode_strict in E as [-> Hw]. exfalso. apply (H db Hw). reflexivity.
  - eauto.
Qed.
