(* Proofs/P7SignProofs.v -- C05: what SignPKCS7 produces is parsed back by the
   library's parser to the values that went in, and verifies. *)
From Coq Require Import Bool List NArith ZArith Lia Arith ZifyN ZifyNat ZifyBool Ring.
From Coq.Strings Require Import Byte.
From GoUefi Require Import Base.Bytes Base.Outcome Base.Reader Base.Der Base.Sha256 Model.Pkcs7
  Spec.P7Check Proofs.DerProofs Proofs.P7Proofs.
From GoUefi Require Import Proofs.AttrSort.
Import ListNotations.
Ltac Zify.zify_post_hook ::= Z.div_mod_to_equations.
Local Open Scope N_scope.

(* ---------- sizes ---------- *)
Lemma blen_enc_len n : 1 <= blen (enc_len n) <= 5.
Proof.
  unfold enc_len. destruct (n <? 128); [cbn; lia|]. rewrite blen_cons. unfold blen. rewrite be_length.
  pose proof (nbytes_range n). lia.
Qed.
Lemma blen_add_asn1 t b : blen b + 2 <= blen (add_asn1 t b) <= blen b + 6.
Proof. unfold add_asn1. rewrite blen_cons, blen_app. pose proof (blen_enc_len (blen b)). lia. Qed.

Definition oktag (t : N) : Prop := t < 256 /\ N.land t 31 <> 31.
Lemma oktag_consts :
  oktag T_INTEGER /\ oktag T_OCTETSTRING /\ oktag T_NULL /\ oktag T_OID /\ oktag T_UTCTIME /\
  oktag T_SEQUENCE /\ oktag T_SET /\ oktag T_CTX0 /\ oktag T_BITSTRING.
Proof. repeat split; try reflexivity; vm_compute; discriminate. Qed.

Ltac tagok := match goal with
  | |- _ < 256 => reflexivity
  | |- N.land _ 31 <> 31 => vm_compute; discriminate
  end.

(* a well-behaved OID: its encoding decodes to itself (true of every valid OID;
   checked by computation for the constants, assumed of the caller's) *)
Definition oid_rt (o : list N) : Prop := oid_decode (oid_encode o) = Some o.
Lemma oid_rt_consts :
  oid_rt OID_data /\ oid_rt OID_signedData /\ oid_rt OID_sha256 /\ oid_rt OID_rsa /\
  oid_rt OID_attr_contentType /\ oid_rt OID_attr_messageDigest /\ oid_rt OID_attr_signingTime /\
  oid_rt OID_spcIndirectData /\ oid_rt OID_spcPEImageData.
Proof. repeat split; vm_compute; reflexivity. Qed.

Lemma read_oid_der o r : oid_rt o -> blen (oid_encode o) < 4294967290 ->
  read_oid (der_oid o ++ r) = Some (o, r).
Proof.
  intros Ho Hb. unfold read_oid, der_oid. rewrite read_asn1_add by (try tagok; exact Hb). rewrite Ho. reflexivity.
Qed.

Lemma der_null_read r : read_asn1 T_NULL (der_null ++ r) = Some ([], r).
Proof. change der_null with (add_asn1 T_NULL []). apply read_asn1_add; try tagok. cbn. lia. Qed.

Lemma parse_alg_id_enc o r : oid_rt o -> blen (oid_encode o) < 1000 ->
  parse_alg_id (alg_id o ++ r) = Ret (o, r).
Proof.
  intros Ho Hb. unfold parse_alg_id, alg_id, der_seq.
  assert (B : blen (der_oid o ++ der_null) < 4294967290).
  { rewrite blen_app. pose proof (blen_add_asn1 T_OID (oid_encode o)). unfold der_oid.
    change (blen der_null) with 2. lia. }
  rewrite read_asn1_add by (try tagok; exact B). cbn [E of_option bind].
  rewrite read_oid_der by (try exact Ho; lia). cbn [bind].
  replace (is_nilb der_null) with false by reflexivity.
  replace (read_asn1 T_NULL der_null) with (Some (@nil byte, @nil byte)) by (vm_compute; reflexivity).
  reflexivity.
Qed.

(* ---------- INTEGER ---------- *)
Lemma unle_app a b : unle (a ++ b) = unle a + 256 ^ N.of_nat (length a) * unle b.
Proof.
  induction a as [|x a IH]; [cbn [app unle length N.of_nat]; rewrite N.pow_0_r; lia|]. cbn [app unle length]. rewrite IH, Nat2N.inj_succ, N.pow_succ_r'. ring.
Qed.
Lemma unbe_cons_zero l : unbe (x00 :: l) = unbe l.
Proof. unfold unbe. cbn [rev]. rewrite unle_app. cbn [unle]. change (b2n x00) with 0. lia. Qed.
Lemma unbe_cons x l : unbe (x :: l) = b2n x * 256 ^ N.of_nat (length l) + unbe l.
Proof. unfold unbe. cbn [rev]. rewrite unle_app, rev_length. cbn [unle]. lia. Qed.

Lemma be_min_fuel_spec f : forall n acc, n < 256 ^ N.of_nat f ->
  unbe (be_min_fuel f n acc) = n * 256 ^ N.of_nat (length acc) + unbe acc /\
  (n = 0 -> be_min_fuel f n acc = acc) /\
  (0 < n -> exists x r, be_min_fuel f n acc = x :: r /\ b2n x <> 0).
Proof.
  induction f as [|f IH]; intros n acc Hn.
  - cbn in Hn. assert (n = 0) by lia. subst. cbn. repeat split; try lia.
  - cbn [be_min_fuel]. destruct (N.eqb_spec n 0) as [->|Hnz].
    + repeat split; try lia.
    + rewrite Nat2N.inj_succ, N.pow_succ_r' in Hn.
      assert (Hq : n / 256 < 256 ^ N.of_nat f) by (apply N.div_lt_upper_bound; lia).
      destruct (IH (n / 256) (n2b n :: acc) Hq) as (U & Z & P). split; [|split].
      * rewrite U. rewrite unbe_cons, b2n_n2b. cbn [length]. rewrite Nat2N.inj_succ, N.pow_succ_r'.
        pose proof (N.div_mod n 256 ltac:(lia)). nia.
      * intros ->. congruence.
      * intros _. destruct (N.eq_dec (n / 256) 0) as [E0|E0].
        -- rewrite (Z E0). exists (n2b n), acc. split; [reflexivity|]. rewrite b2n_n2b.
           rewrite N.mod_small by (apply N.div_small_iff in E0; lia). exact Hnz.
        -- apply P. lia.
Qed.

Lemma log2_bound n : n < 256 ^ N.of_nat (S (N.to_nat (N.log2 n))).
Proof.
  destruct n as [|p]; [cbn; lia|].
  pose proof (N.log2_spec (N.pos p) ltac:(lia)) as [_ H].
  eapply N.lt_le_trans; [exact H|]. rewrite Nat2N.inj_succ, N2Nat.id.
  change 256 with (2 ^ 8). rewrite <- N.pow_mul_r. apply N.pow_le_mono_r; lia.
Qed.

Lemma be_min_spec n :
  unbe (be_min n) = n /\ (n = 0 -> be_min n = []) /\ (0 < n -> exists x r, be_min n = x :: r /\ b2n x <> 0).
Proof.
  unfold be_min. destruct (be_min_fuel_spec _ n [] (log2_bound n)) as (U & Z & P).
  cbn [length N.of_nat] in U. change (unbe []) with 0 in U. split; [lia|]. split; assumption.
Qed.

Lemma int_decode_encode n : int_decode (int_encode n) = Some (Z.of_N n).
Proof.
  unfold int_encode. destruct (be_min_spec n) as (U & Zr & P).
  destruct (be_min n) as [|x r] eqn:E.
  - assert (n = 0) by (cbn in U; lia). subst. reflexivity.
  - assert (Hpos : 0 < n).
    { destruct (N.eq_dec n 0) as [e0|]; [|lia]. exfalso. specialize (Zr e0). congruence. }
    destruct (P Hpos) as (x' & r' & E' & Hx). injection E' as <- <-.
    pose proof (b2n_lt x) as Bx.
    destruct (N.leb_spec 128 (b2n x)) as [Hh|Hh].
    + unfold int_decode, int_minimal. change (b2n x00) with 0.
      rewrite N.eqb_refl. destruct (N.ltb_spec (b2n x) 128); [lia|]. cbn [andb orb negb N.eqb].
      destruct (N.leb_spec 128 0); [lia|]. rewrite unbe_cons_zero, U. reflexivity.
    + unfold int_decode, int_minimal. destruct r as [|y r].
      * cbn [negb]. destruct (N.leb_spec 128 (b2n x)); [lia|]. rewrite U. reflexivity.
      * destruct (N.eqb_spec (b2n x) 0); [contradiction|]. destruct (N.eqb_spec (b2n x) 255); [lia|].
        cbn [andb orb negb]. destruct (N.leb_spec 128 (b2n x)); [lia|]. rewrite U. reflexivity.
Qed.

Lemma blen_int_encode n : blen (int_encode n) <= blen (be_min n) + 1.
Proof. unfold int_encode. destruct (be_min n) as [|x r]; [cbn; lia|]. destruct (_ <=? _); rewrite ?blen_cons; lia. Qed.

Lemma read_bigint_der n r : blen (int_encode n) < 4294967290 ->
  read_bigint (der_int n ++ r) = Some (Z.of_N n, r).
Proof.
  intros Hb. unfold read_bigint, der_int. rewrite read_asn1_add by (try tagok; exact Hb).
  rewrite int_decode_encode. reflexivity.
Qed.

Lemma read_int64_one r : read_int64 (der_int 1 ++ r) = Some (1%Z, r).
Proof.
  unfold read_int64. change (der_int 1) with (add_asn1 T_INTEGER [x01]).
  rewrite read_asn1_add by (try tagok; cbn; lia). reflexivity.
Qed.

(* ---------- attributes ---------- *)
Section Sign.
Variable utctime_ok : bytes -> bool.
Variable x509_ok : bytes -> bool.
Notation attr_step := (attr_step utctime_ok).
Notation attrs_loop := (attrs_loop utctime_ok).
Notation parse_attributes := (parse_attributes utctime_ok).
Notation parse_signer := (parse_signer utctime_ok).
Notation parse_pkcs7 := (parse_pkcs7 utctime_ok x509_ok).

Lemma attr_read o v rest : oid_rt o -> blen (oid_encode o) < 1000 -> blen v < 4000000000 ->
  read_asn1 T_SEQUENCE (attr o v ++ rest) = Some (der_oid o ++ der_set v, rest) /\
  read_oid (der_oid o ++ der_set v) = Some (o, der_set v) /\
  read_asn1 T_SET (der_set v) = Some (v, []).
Proof.
  intros Ho Hl Hv. unfold attr, der_seq, der_set.
  pose proof (blen_add_asn1 T_OID (oid_encode o)). pose proof (blen_add_asn1 T_SET v).
  split; [|split].
  - apply read_asn1_add; try tagok. rewrite blen_app. unfold der_oid. lia.
  - apply read_oid_der; [exact Ho|lia].
  - rewrite <- (app_nil_r (add_asn1 T_SET v)). apply read_asn1_add; try tagok. lia.
Qed.

Lemma attr_step_ct a ct rest : oid_rt ct -> blen (oid_encode ct) < 1000 ->
  attr_step a (attr OID_attr_contentType (der_oid ct) ++ rest) =
  Ret (mkAttrs (at_raw a) (Some ct) (at_md a) (at_time a) (at_others a), rest).
Proof.
  intros Ho Hl. unfold Pkcs7.attr_step.
  pose proof (blen_add_asn1 T_OID (oid_encode ct)) as B.
  destruct (attr_read OID_attr_contentType (der_oid ct) rest) as (R1 & R2 & R3);
    [apply oid_rt_consts|vm_compute; reflexivity|unfold der_oid; lia|].
  rewrite R1. cbn [E of_option bind]. rewrite R2. cbn [E of_option bind]. rewrite R3. cbn [E of_option bind].
  change (oid_eqb OID_attr_contentType OID_attr_messageDigest) with false.
  change (oid_eqb OID_attr_contentType OID_attr_contentType) with true. cbn iota.
  rewrite <- (app_nil_r (der_oid ct)). rewrite read_oid_der by (try exact Ho; lia). reflexivity.
Qed.

Lemma attr_step_time a t rest : utctime_ok t = true -> blen t < 1000 ->
  attr_step a (attr OID_attr_signingTime (add_asn1 T_UTCTIME t) ++ rest) =
  Ret (mkAttrs (at_raw a) (at_ctype a) (at_md a) (Some t) (at_others a), rest).
Proof.
  intros Ht Hl. unfold Pkcs7.attr_step.
  pose proof (blen_add_asn1 T_UTCTIME t) as B.
  destruct (attr_read OID_attr_signingTime (add_asn1 T_UTCTIME t) rest) as (R1 & R2 & R3);
    [apply oid_rt_consts|vm_compute; reflexivity|lia|].
  rewrite R1. cbn [E of_option bind]. rewrite R2. cbn [E of_option bind]. rewrite R3. cbn [E of_option bind].
  change (oid_eqb OID_attr_signingTime OID_attr_messageDigest) with false.
  change (oid_eqb OID_attr_signingTime OID_attr_contentType) with false.
  change (oid_eqb OID_attr_signingTime OID_attr_signingTime) with true. cbn iota.
  rewrite <- (app_nil_r (add_asn1 T_UTCTIME t)). rewrite read_asn1_add by (try tagok; lia).
  cbn [E of_option bind]. rewrite Ht. reflexivity.
Qed.

Lemma attr_step_md a d rest : blen d < 1000 ->
  attr_step a (attr OID_attr_messageDigest (der_octets d) ++ rest) =
  Ret (mkAttrs (at_raw a) (at_ctype a) d (at_time a) (at_others a), rest).
Proof.
  intros Hl. unfold Pkcs7.attr_step.
  pose proof (blen_add_asn1 T_OCTETSTRING d) as B.
  destruct (attr_read OID_attr_messageDigest (der_octets d) rest) as (R1 & R2 & R3);
    [apply oid_rt_consts|vm_compute; reflexivity|unfold der_octets; lia|].
  rewrite R1. cbn [E of_option bind]. rewrite R2. cbn [E of_option bind]. rewrite R3. cbn [E of_option bind].
  change (oid_eqb OID_attr_messageDigest OID_attr_messageDigest) with true. cbn iota.
  unfold der_octets. rewrite <- (app_nil_r (add_asn1 T_OCTETSTRING d)). rewrite read_asn1_add by (try tagok; lia).
  reflexivity.
Qed.

Lemma attr_nonnil o v rest : is_nilb (attr o v ++ rest) = false.
Proof. reflexivity. Qed.

(* three elements sort to one of their six arrangements *)
Lemma sort3_cases (a b c : bytes) :
  sort_b [a; b; c] = [a; b; c] \/ sort_b [a; b; c] = [a; c; b] \/ sort_b [a; b; c] = [b; a; c] \/
  sort_b [a; b; c] = [b; c; a] \/ sort_b [a; b; c] = [c; a; b] \/ sort_b [a; b; c] = [c; b; a].
Proof.
  unfold sort_b. cbn [fold_right insert_b].
  destruct (bytes_ltb c b); cbn [insert_b];
    destruct (bytes_ltb c a); cbn [insert_b];
    destruct (bytes_ltb b a); cbn [insert_b]; tauto.
Qed.

Ltac attr_steps :=
  repeat (rewrite attr_nonnil;
          first [ rewrite attr_step_ct by assumption
                | rewrite attr_step_time by assumption
                | rewrite attr_step_md by assumption ];
          cbn [E of_option bind at_raw at_ctype at_md at_time at_others]).

Lemma attrs_loop_sign f raw0 ct t d :
  (3 <= f)%nat -> oid_rt ct -> blen (oid_encode ct) < 1000 -> utctime_ok t = true -> blen t < 1000 -> blen d < 1000 ->
  attrs_loop f (mkAttrs raw0 None [] None []) (attrs_body ct (Some t) d []) =
  Ret (mkAttrs raw0 (Some ct) d (Some t) []).
Proof.
  intros Hf Ho Hl Ht Hlt Hd. destruct f as [|[|[|f]]]; try lia.
  unfold attrs_body, attr_list. cbn [map app].
  destruct (sort3_cases (attr OID_attr_contentType (der_oid ct)) (attr OID_attr_signingTime (add_asn1 T_UTCTIME t))
                        (attr OID_attr_messageDigest (der_octets d))) as [E|[E|[E|[E|[E|E]]]]];
    rewrite E; cbn [concat]; cbn [Pkcs7.attrs_loop]; attr_steps; destruct f; reflexivity.
Qed.

Lemma blen_concat_insert x l : blen (concat (insert_b x l)) = blen x + blen (concat l).
Proof.
  induction l as [|y r IH]; cbn [insert_b concat].
  - rewrite blen_app. reflexivity.
  - destruct (bytes_ltb y x); cbn [concat]; rewrite !blen_app; [rewrite IH|]; lia.
Qed.
Lemma blen_concat_sort l : blen (concat (sort_b l)) = blen (concat l).
Proof.
  induction l as [|x l IH]; [reflexivity|]. unfold sort_b in *. cbn [fold_right concat].
  rewrite blen_concat_insert, blen_app, IH. reflexivity.
Qed.

Lemma blen_attr o v : 2 <= blen (attr o v) <= blen (oid_encode o) + blen v + 18.
Proof.
  unfold attr, der_seq, der_set, der_oid.
  pose proof (blen_add_asn1 T_OID (oid_encode o)) as A. pose proof (blen_add_asn1 T_SET v) as B.
  pose proof (blen_add_asn1 T_SEQUENCE (add_asn1 T_OID (oid_encode o) ++ add_asn1 T_SET v)) as C.
  rewrite blen_app in C. lia.
Qed.

Lemma attrs_body_bounds ct t d : blen (oid_encode ct) < 1000 -> blen t < 1000 -> blen d < 1000 ->
  6 <= blen (attrs_body ct (Some t) d []) < 10000.
Proof.
  intros. unfold attrs_body. rewrite blen_concat_sort. unfold attr_list. cbn [map app concat]. rewrite app_nil_r, !blen_app.
  pose proof (blen_attr OID_attr_contentType (der_oid ct)) as A.
  pose proof (blen_attr OID_attr_signingTime (add_asn1 T_UTCTIME t)) as B.
  pose proof (blen_attr OID_attr_messageDigest (der_octets d)) as C.
  pose proof (blen_add_asn1 T_OID (oid_encode ct)). pose proof (blen_add_asn1 T_UTCTIME t).
  pose proof (blen_add_asn1 T_OCTETSTRING d).
  assert (E1 : blen (oid_encode OID_attr_contentType) = 9) by reflexivity.
  assert (E2 : blen (oid_encode OID_attr_signingTime) = 9) by reflexivity.
  assert (E3 : blen (oid_encode OID_attr_messageDigest) = 9) by reflexivity.
  unfold der_oid, der_octets in *. lia.
Qed.

Lemma parse_attributes_sign ct t d rest :
  oid_rt ct -> blen (oid_encode ct) < 1000 -> utctime_ok t = true -> blen t < 1000 -> blen d < 1000 ->
  parse_attributes (add_asn1 T_CTX0 (attrs_body ct (Some t) d []) ++ rest) =
  Ret (Some (mkAttrs (attrs_body ct (Some t) d []) (Some ct) d (Some t) []), rest).
Proof.
  intros Ho Hl Ht Hlt Hd. unfold Pkcs7.parse_attributes, read_optional.
  pose proof (attrs_body_bounds ct t d Hl Hlt Hd) as B.
  rewrite peek_tag_add by tagok. rewrite N.eqb_refl.
  rewrite read_asn1_add by (try tagok; lia). cbn [E of_option bind].
  rewrite attrs_loop_sign; try assumption; [reflexivity|]. unfold blen in B. lia.
Qed.

Lemma parse_content_info_enc o c rest (embedded : bool) :
  oid_rt o -> blen (oid_encode o) < 1000 -> blen c < 4000000000 ->
  parse_content_info (der_seq (der_oid o ++ (if embedded then add_asn1 T_CTX0 c else [])) ++ rest) =
  Ret (o, (if embedded then c else []), rest).
Proof.
  intros Ho Hl Hc. unfold parse_content_info, der_seq.
  pose proof (blen_add_asn1 T_OID (oid_encode o)) as A. pose proof (blen_add_asn1 T_CTX0 c) as B.
  rewrite read_asn1_add by (try tagok; rewrite blen_app; unfold der_oid; destruct embedded; rewrite ?blen_nil; lia).
  cbn [E of_option bind]. rewrite read_oid_der by (try exact Ho; lia). cbn [E of_option bind].
  destruct embedded.
  - unfold read_optional. rewrite <- (app_nil_r (add_asn1 T_CTX0 c)).
    rewrite peek_tag_add by tagok. rewrite N.eqb_refl. rewrite read_asn1_add by (try tagok; lia). reflexivity.
  - reflexivity.
Qed.

Lemma parse_content_info_present o c rest :
  oid_rt o -> blen (oid_encode o) < 1000 -> blen c < 4000000000 ->
  parse_content_info (der_seq (der_oid o ++ add_asn1 T_CTX0 c) ++ rest) = Ret (o, c, rest).
Proof. intros. apply (parse_content_info_enc o c rest true); assumption. Qed.
Lemma parse_content_info_absent o rest :
  oid_rt o -> blen (oid_encode o) < 1000 ->
  parse_content_info (der_seq (der_oid o ++ []) ++ rest) = Ret (o, [], rest).
Proof. intros. apply (parse_content_info_enc o [] rest false); try assumption. cbn. lia. Qed.

Definition signer_enc (issuer_raw : bytes) (serial : N) (body sig : bytes) : bytes :=
  der_seq (der_int 1 ++ der_seq (issuer_raw ++ der_int serial) ++ alg_id OID_sha256 ++
           add_asn1 T_CTX0 body ++ alg_id OID_rsa ++ der_octets sig).

Lemma blen_alg_id o : blen (oid_encode o) < 1000 -> blen (alg_id o) < 1020.
Proof.
  intros H. unfold alg_id, der_seq, der_oid.
  pose proof (blen_add_asn1 T_OID (oid_encode o)). pose proof (blen_add_asn1 T_SEQUENCE (add_asn1 T_OID (oid_encode o) ++ der_null)) as C.
  rewrite blen_app in C. change (blen der_null) with 2 in C. lia.
Qed.

Lemma parse_signer_sign ib serial ct t d sig rest :
  blen ib < 100000 -> blen (int_encode serial) < 1000 ->
  oid_rt ct -> blen (oid_encode ct) < 1000 -> utctime_ok t = true -> blen t < 1000 -> blen d < 1000 ->
  blen sig < 100000 ->
  parse_signer (signer_enc (add_asn1 T_SEQUENCE ib) serial (attrs_body ct (Some t) d []) sig ++ rest) =
  Ret (mkSigner 1 (add_asn1 T_SEQUENCE ib) (Z.of_N serial) OID_sha256
         (Some (mkAttrs (attrs_body ct (Some t) d []) (Some ct) d (Some t) [])) OID_rsa sig, rest).
Proof.
  intros Hib Hser Ho Hl Ht Hlt Hd Hsig. unfold Pkcs7.parse_signer, signer_enc, der_seq.
  pose proof (attrs_body_bounds ct t d Hl Hlt Hd) as Bb.
  pose proof (blen_add_asn1 T_SEQUENCE ib) as Bi.
  pose proof (blen_add_asn1 T_INTEGER (int_encode serial)) as Bs.
  pose proof (blen_add_asn1 T_CTX0 (attrs_body ct (Some t) d [])) as Ba.
  pose proof (blen_add_asn1 T_OCTETSTRING sig) as Bg.
  pose proof (blen_alg_id OID_sha256 ltac:(vm_compute; reflexivity)) as B1.
  pose proof (blen_alg_id OID_rsa ltac:(vm_compute; reflexivity)) as B2.
  pose proof (blen_add_asn1 T_SEQUENCE (add_asn1 T_SEQUENCE ib ++ der_int serial)) as Bis.
  rewrite blen_app in Bis. unfold der_int in *.
  assert (Bone : blen (add_asn1 T_INTEGER (int_encode 1)) = 3) by reflexivity.
  rewrite read_asn1_add by (try tagok; rewrite !blen_app; unfold der_octets; lia).
  cbn [E of_option bind]. fold (der_int 1). rewrite read_int64_one. cbn [E of_option bind].
  rewrite read_asn1_add by (try tagok; rewrite blen_app; lia). cbn [E of_option bind].
  rewrite read_asn1_element_add by (try tagok; lia). cbn [E of_option bind].
  rewrite <- (app_nil_r (add_asn1 T_INTEGER (int_encode serial))). fold (der_int serial).
  rewrite read_bigint_der by lia. cbn [E of_option bind].
  rewrite parse_alg_id_enc by (first [apply oid_rt_consts | vm_compute; reflexivity]). cbn [bind].
  rewrite parse_attributes_sign by assumption. cbn [bind].
  rewrite parse_alg_id_enc by (first [apply oid_rt_consts | vm_compute; reflexivity]). cbn [bind].
  unfold der_octets. rewrite <- (app_nil_r (add_asn1 T_OCTETSTRING sig)).
  rewrite read_asn1_add by (try tagok; lia). reflexivity.
Qed.

Definition signed_signer (ib : bytes) (serial : N) (oid : list N) (content t sig : bytes) : signer :=
  mkSigner 1 (add_asn1 T_SEQUENCE ib) (Z.of_N serial) OID_sha256
    (Some (mkAttrs (attrs_body oid (Some t) (sha256 content) []) (Some oid) (sha256 content) (Some t) []))
    OID_rsa sig.

Definition signed_p7 (cert_raw ib : bytes) (serial : N) (oid : list N) (content t sig : bytes) : pkcs7 :=
  mkP7 oid (if negb (is_nilb content) && negb (oid_eqb oid OID_data) then der_seq content else [])
       cert_raw OID_sha256 [signed_signer ib serial oid content t sig].

Definition sign_side (cert_raw ib : bytes) (serial : N) (oid : list N) (content t sig : bytes) : Prop :=
  x509_ok cert_raw = true /\ utctime_ok t = true /\ oid_rt oid /\ blen (oid_encode oid) < 1000 /\
  blen cert_raw < 1000000 /\ blen ib < 100000 /\ blen (int_encode serial) < 1000 /\
  blen content < 1000000000 /\ blen t < 1000 /\ blen sig < 100000.

Lemma signed_data_size cert_raw ib serial oid content t sig :
  sign_side cert_raw ib serial oid content t sig ->
  blen (signed_data cert_raw (add_asn1 T_SEQUENCE ib) serial oid content t sig) < 1300000000.
Proof.
  intros (Hx & Hu & Ho & Hl & Hc & Hib & Hser & Hcont & Ht & Hsig).
  unfold signed_data.
  set (body := attrs_body oid (Some t) (sha256 content) []).
  set (embedded := negb (is_nilb content) && negb (oid_eqb oid OID_data)).
  fold (signer_enc (add_asn1 T_SEQUENCE ib) serial body sig).
  set (se := signer_enc (add_asn1 T_SEQUENCE ib) serial body sig).
  set (inner := der_seq (der_oid oid ++ (if embedded then add_asn1 T_CTX0 (der_seq content) else []))).
  assert (Hd : blen (sha256 content) < 1000) by (unfold blen; rewrite sha256_length; reflexivity).
  pose proof (attrs_body_bounds oid t (sha256 content) Hl Ht Hd) as Bb. fold body in Bb.
  assert (Bse : blen se < 400000).
  { unfold se, signer_enc, der_seq, der_octets, der_int.
    pose proof (blen_add_asn1 T_SEQUENCE ib). pose proof (blen_add_asn1 T_INTEGER (int_encode serial)).
    pose proof (blen_add_asn1 T_CTX0 body). pose proof (blen_add_asn1 T_OCTETSTRING sig).
    pose proof (blen_alg_id OID_sha256 ltac:(reflexivity)).
    pose proof (blen_alg_id OID_rsa ltac:(reflexivity)).
    pose proof (blen_add_asn1 T_SEQUENCE (add_asn1 T_SEQUENCE ib ++ add_asn1 T_INTEGER (int_encode serial))) as X.
    rewrite blen_app in X.
    match goal with |- blen (add_asn1 T_SEQUENCE ?b) < _ => pose proof (blen_add_asn1 T_SEQUENCE b) as Y end.
    rewrite !blen_app in Y. assert (blen (add_asn1 T_INTEGER (int_encode 1)) = 3) by reflexivity. lia. }
  assert (Binner : blen inner < 1100000000).
  { unfold inner, der_seq, der_oid.
    pose proof (blen_add_asn1 T_OID (oid_encode oid)). pose proof (blen_add_asn1 T_SEQUENCE content).
    pose proof (blen_add_asn1 T_CTX0 (add_asn1 T_SEQUENCE content)).
    match goal with |- blen (add_asn1 T_SEQUENCE ?b) < _ => pose proof (blen_add_asn1 T_SEQUENCE b) as Y end.
    rewrite blen_app in Y. destruct embedded; rewrite ?blen_nil in Y; lia. }
  unfold der_seq at 1.
  match goal with |- blen (add_asn1 T_SEQUENCE ?b) < _ => pose proof (blen_add_asn1 T_SEQUENCE b) as Y end.
  unfold der_set in *. rewrite !blen_app in Y.
  pose proof (blen_alg_id OID_sha256 ltac:(reflexivity)).
  pose proof (blen_add_asn1 T_SET (alg_id OID_sha256)). pose proof (blen_add_asn1 T_CTX0 cert_raw).
  pose proof (blen_add_asn1 T_SET se). assert (blen (der_int 1) = 3) by reflexivity. lia.
Qed.

(* the parser, entered at the SignedData, recovers content type, content,
   certificate and the one signer with its attributes *)
Theorem parse_signed_data_sign cert_raw ib serial oid content t sig :
  sign_side cert_raw ib serial oid content t sig ->
  parse_signed_data utctime_ok x509_ok (signed_data cert_raw (add_asn1 T_SEQUENCE ib) serial oid content t sig) =
  Ret (signed_p7 cert_raw ib serial oid content t sig).
Proof.
  intros Hside. pose proof (signed_data_size _ _ _ _ _ _ _ Hside) as Bsd0.
  destruct Hside as (Hx & Hu & Ho & Hl & Hc & Hib & Hser & Hcont & Ht & Hsig).
  unfold signed_data, signed_p7 in *.
  set (embedded := negb (is_nilb content) && negb (oid_eqb oid OID_data)) in *.
  set (body := attrs_body oid (Some t) (sha256 content) []) in *.
  fold (signer_enc (add_asn1 T_SEQUENCE ib) serial body sig) in *.
  set (se := signer_enc (add_asn1 T_SEQUENCE ib) serial body sig) in *.
  set (inner := der_seq (der_oid oid ++ (if embedded then add_asn1 T_CTX0 (der_seq content) else []))) in *.
  set (sd := der_int 1 ++ der_set (alg_id OID_sha256) ++ inner ++ add_asn1 T_CTX0 cert_raw ++ der_set se) in *.
  assert (Hd : blen (sha256 content) < 1000) by (unfold blen; rewrite sha256_length; reflexivity).
  pose proof (blen_add_asn1 T_SEQUENCE sd) as Bsd'. unfold der_seq in Bsd0.
  assert (Bparts : blen (alg_id OID_sha256) < 1020 /\ blen cert_raw < 1000000 /\ blen se < 1300000000).
  { split; [apply blen_alg_id; reflexivity|]. split; [exact Hc|].
    assert (Bsd1 : blen sd < 1300000000) by lia.
    unfold sd, der_set in Bsd1. rewrite !blen_app in Bsd1. pose proof (blen_add_asn1 T_SET se). lia. }
  assert (Bsd2 : blen sd < 1300000000) by lia.
  destruct Bparts as (Balg & _ & Bse).
  unfold Pkcs7.parse_signed_data.
  unfold der_seq at 1. rewrite <- (app_nil_r (add_asn1 T_SEQUENCE sd)).
  rewrite read_asn1_add by (try tagok; lia). cbn [E of_option bind].
  unfold sd at 1. rewrite read_int64_one. cbn [E of_option bind].
  unfold der_set at 1. rewrite read_asn1_add by (try tagok; lia).
  cbn [E of_option bind]. rewrite <- (app_nil_r (alg_id OID_sha256)).
  rewrite parse_alg_id_enc by (first [apply oid_rt_consts | reflexivity]). cbn [bind].
  unfold inner.
  assert (Hci : parse_content_info (der_seq (der_oid oid ++ (if embedded then add_asn1 T_CTX0 (der_seq content) else [])) ++
                                    add_asn1 T_CTX0 cert_raw ++ add_asn1 T_SET se) =
                Ret (oid, (if embedded then der_seq content else []), add_asn1 T_CTX0 cert_raw ++ add_asn1 T_SET se)).
  { pose proof (blen_add_asn1 T_SEQUENCE content). destruct embedded.
    - apply parse_content_info_present; try assumption. unfold der_seq. lia.
    - apply parse_content_info_absent; assumption. }
  unfold der_set at 1. rewrite Hci. cbn [bind]. unfold read_optional. rewrite peek_tag_add by tagok. rewrite N.eqb_refl.
  rewrite read_asn1_add by (try tagok; lia). cbn [E of_option bind]. rewrite Hx. cbn [negb].
  rewrite <- (app_nil_r (add_asn1 T_SET se)). rewrite read_asn1_add by (try tagok; lia).
  cbn [E of_option bind].
  assert (Hlen : exists k, length se = S k).
  { assert (Hse : se = n2b T_SEQUENCE :: tl se) by reflexivity. rewrite Hse. eexists. reflexivity. }
  destruct Hlen as [k Hk]. rewrite Hk. cbn [signers_loop].
  assert (Hnn : is_nilb se = false) by reflexivity. rewrite Hnn.
  unfold se, body. rewrite <- (app_nil_r (signer_enc _ _ _ _)).
  rewrite parse_signer_sign by assumption. cbn [bind].
  destruct k; reflexivity.
Qed.

Lemma signed_data_starts_with_integer cert_raw issuer_raw serial oid content t sig :
  exists rest, signed_data cert_raw issuer_raw serial oid content t sig =
               add_asn1 T_SEQUENCE (der_int 1 ++ rest).
Proof. unfold signed_data, der_seq. eexists. reflexivity. Qed.

(* a bare SignedData (no outer ContentInfo), as embedded in authentication descriptors *)
Theorem parse_bare cert_raw ib serial oid content t sig :
  sign_side cert_raw ib serial oid content t sig ->
  parse_pkcs7 (signed_data cert_raw (add_asn1 T_SEQUENCE ib) serial oid content t sig) =
  Ret (signed_p7 cert_raw ib serial oid content t sig).
Proof.
  intros Hside. unfold Pkcs7.parse_pkcs7.
  pose proof (signed_data_size _ _ _ _ _ _ _ Hside) as B.
  destruct (signed_data_starts_with_integer cert_raw (add_asn1 T_SEQUENCE ib) serial oid content t sig) as [rest E].
  assert (Hh : has_content_info (signed_data cert_raw (add_asn1 T_SEQUENCE ib) serial oid content t sig) = Ret false).
  { unfold has_content_info. rewrite E in *. rewrite <- (app_nil_r (add_asn1 T_SEQUENCE _)).
    pose proof (blen_add_asn1 T_SEQUENCE (der_int 1 ++ rest)).
    rewrite read_asn1_add by (try tagok; lia). reflexivity. }
  rewrite Hh. cbn [bind]. apply parse_signed_data_sign. exact Hside.
Qed.

(* SignPKCS7's output: the same, wrapped in a ContentInfo *)
Theorem parse_sign cert_raw ib serial oid content t sig :
  sign_side cert_raw ib serial oid content t sig ->
  parse_pkcs7 (sign_pkcs7 cert_raw (add_asn1 T_SEQUENCE ib) serial oid content t sig) =
  Ret (signed_p7 cert_raw ib serial oid content t sig).
Proof.
  intros Hside. unfold Pkcs7.parse_pkcs7, sign_pkcs7.
  pose proof (signed_data_size _ _ _ _ _ _ _ Hside) as B.
  set (sdd := signed_data cert_raw (add_asn1 T_SEQUENCE ib) serial oid content t sig) in *.
  pose proof (blen_add_asn1 T_CTX0 sdd) as B0.
  assert (B9 : blen (oid_encode OID_signedData) = 9) by reflexivity.
  pose proof (blen_add_asn1 T_OID (oid_encode OID_signedData)) as B1.
  unfold has_content_info. unfold der_seq at 1.
  rewrite <- (app_nil_r (add_asn1 T_SEQUENCE _)).
  rewrite read_asn1_add by (try tagok; rewrite blen_app; unfold der_oid; lia).
  cbn [E of_option bind]. unfold der_oid at 1. rewrite peek_tag_add by tagok. rewrite N.eqb_refl. cbn iota.
  fold (der_oid OID_signedData).
  rewrite <- (app_nil_r (der_seq (der_oid OID_signedData ++ add_asn1 T_CTX0 sdd))).
  rewrite parse_content_info_present; [|apply oid_rt_consts|reflexivity|lia].
  cbn [bind fst snd]. apply parse_signed_data_sign. exact Hside.
Qed.
End Sign.

(* ---------- the produced blob verifies, and only for its content ---------- *)
Section Verify.
Variable rsa_ok : N -> bytes -> bytes -> bool.

Lemma der_read_seq content : blen content < 4294967290 ->
  der_read (der_seq content) = Some (mkElem T_SEQUENCE content (der_seq content) []).
Proof.
  intros H. unfold der_seq. rewrite <- (app_nil_r (add_asn1 T_SEQUENCE content)).
  rewrite der_read_add by (try tagok; exact H). rewrite app_nil_r. reflexivity.
Qed.

(* the library's own verification accepts what it produced, for the signing
   certificate, whenever the signature is a correct RSA signature of the attributes *)
Theorem self_verifies cert_raw ib serial oid content t sig key (embedded : bool) :
  blen content < 4294967290 ->
  rsa_ok key (attrs_marshal oid (Some t) (sha256 content) []) sig = true ->
  pkcs7_verify rsa_ok
    (mkP7 oid (if embedded then der_seq content else []) cert_raw OID_sha256
          [signed_signer ib serial oid content t sig])
    (mkCert (add_asn1 T_SEQUENCE ib) (Z.of_N serial) key) = Ret true.
Proof.
  intros Hc Hr. unfold pkcs7_verify. cbn [p_signers p_content verify_loop].
  unfold names, signed_signer. cbn [c_issuer c_serial si_issuer si_serial].
  rewrite bytes_eqb_refl, Z.eqb_refl. cbn [andb]. unfold verify_signer. cbn [si_attrs at_md at_raw si_sig c_key].
  unfold attrs_marshal, der_set in Hr. destruct embedded.
  - replace (is_nilb (der_seq content)) with false by reflexivity.
    rewrite der_read_seq by exact Hc. cbn [e_val]. rewrite bytes_eqb_refl. cbn [negb]. rewrite Hr. reflexivity.
  - cbn [is_nilb negb]. rewrite Hr. reflexivity.
Qed.

(* for another encapsulated content the same signer entry is valid only if the
   two contents collide under SHA-256 *)
Theorem other_content_rejected ib serial oid content content' t sig c :
  blen content' < 4294967290 ->
  signer_valid rsa_ok (signed_signer ib serial oid content t sig) c (der_seq content') = true ->
  sha256 content' = sha256 content.
Proof.
  intros Hc H. unfold signer_valid, signed_signer in H. cbn [si_attrs at_md] in H.
  apply andb_true_iff in H as [_ H]. apply andb_true_iff in H as [_ H].
  unfold content_digest in H. replace (is_nilb (der_seq content')) with false in H by reflexivity.
  rewrite der_read_seq in H by exact Hc. cbn [e_val] in H. apply bytes_eqb_eq in H. exact H.
Qed.
End Verify.
