(* Proofs/VarIOProofs.v -- C11 (efivarfs contract), C12 (in-memory store is a
   register per variable), C15 (file-system faults of a variable write). *)
From Coq Require Import Bool List NArith ZArith Lia Arith ZifyN ZifyNat ZifyBool.
From Coq.Strings Require Import Byte.
From GoUefi Require Import Base.Bytes Base.Outcome Base.Reader Base.Prog Model.Util Model.WinCert
  Model.SigList Model.VarIO Proofs.UtilProofs Proofs.WinCertProofs Proofs.SigListProofs.
Import ListNotations.
Ltac Zify.zify_post_hook ::= Z.div_mod_to_equations.
Local Open Scope N_scope.

(* the environment in which every call succeeds and writes are complete *)
Definition env_ok : env := fun _ c =>
  match c with CWrite b => ROk (blen b) [] | _ => ROk 0 [] end.

(* ---------- C11: writing ---------- *)
Theorem write_trace dir name g attrs value :
  run env_ok (write_var dir name g attrs value) 0 =
  (Ret tt, [COpenFile (var_path dir name g) (open_flags attrs) 420; CWrite (le 4 attrs ++ value); CClose]).
Proof. unfold write_var. cbn [run env_ok]. rewrite N.eqb_refl. reflexivity. Qed.

Theorem open_flags_spec attrs :
  open_flags attrs = O_WRONLY + O_CREATE + (if N.testbit attrs 6 then O_APPEND else 0).
Proof. unfold open_flags. destruct (N.testbit attrs 6); reflexivity. Qed.

Lemma append_bit attrs : N.testbit attrs 6 = negb (N.land attrs EFI_VARIABLE_APPEND_WRITE =? 0).
Proof.
  unfold EFI_VARIABLE_APPEND_WRITE. change 64 with (2 ^ 6).
  destruct (N.eqb_spec (N.land attrs (2 ^ 6)) 0) as [E|E].
  - apply N.bits_inj_iff in E. specialize (E 6). rewrite N.land_spec, N.pow2_bits_true, N.bits_0 in E.
    rewrite andb_true_r in E. rewrite E. reflexivity.
  - destruct (N.testbit attrs 6) eqn:T; [reflexivity|]. exfalso. apply E.
    apply N.bits_inj. intros i. rewrite N.land_spec, N.bits_0.
    destruct (N.eq_dec i 6) as [->|Hi]; [rewrite T; reflexivity|].
    rewrite N.pow2_bits_false by congruence. apply andb_false_r.
Qed.

Theorem var_path_spec dir name g :
  var_path dir name g = dir ++ [slash] ++ name ++ [dash] ++ guid_format g.
Proof. reflexivity. Qed.

(* every fault: the k-th file-system call fails => an error is returned, and
   after the failure nothing but Close is called *)
Theorem write_fault dir name g attrs value k : (k < 3)%nat ->
  exists e t, run (fail_at k env_ok) (write_var dir name g attrs value) 0 = (Err e, t) /\
              forallb is_close (skipn (S k) t) = true.
Proof.
  intros Hk. destruct k as [|[|[|k]]]; [| | |lia]; unfold write_var; cbn [run fail_at env_ok Nat.eqb].
  - eexists _, _. split; reflexivity.
  - eexists _, _. split; reflexivity.
  - rewrite N.eqb_refl. eexists _, _. split; reflexivity.
Qed.

(* a short write (any count other than the buffer length) is an error too *)
Theorem write_short dir name g attrs value :
  exists e t, run (short_at 1 env_ok) (write_var dir name g attrs value) 0 = (Err e, t) /\
              forallb is_close (skipn 2 t) = true.
Proof.
  unfold write_var. cbn [run short_at env_ok Nat.eqb].
  assert (H : (N.pred (blen (le 4 attrs ++ value)) =? blen (le 4 attrs ++ value)) = false).
  { apply N.eqb_neq. rewrite blen_app, blen_le. lia. }
  rewrite H. eexists _, _. split; reflexivity.
Qed.

(* the trace never contains a second write or another file *)
Theorem write_calls_bounded e dir name g attrs value :
  let t := snd (run e (write_var dir name g attrs value) 0) in
  (length t <= 3)%nat /\
  forall c, In c t -> c = COpenFile (var_path dir name g) (open_flags attrs) 420 \/
                      c = CWrite (le 4 attrs ++ value) \/ c = CClose.
Proof.
  unfold write_var. cbn [run].
  destruct (e 0%nat (COpenFile (var_path dir name g) (open_flags attrs) 420)); cbn [run].
  - destruct (e 1%nat (CWrite (le 4 attrs ++ value))); destruct (e 2%nat CClose); cbn [run];
      repeat match goal with |- context [if ?c then _ else _] => destruct c end; cbn [run snd length];
      (split; [lia|]); intros c H; cbn [In] in H; intuition auto.
  - cbn. split; [lia|]. intros c [<-|[]]. tauto.
Qed.

(* ---------- C11: reading ---------- *)
Theorem read_stored a v required : a < 4294967296 ->
  read_var (Some (le 4 a ++ v)) required =
  if attrs_subset required a then RdDecode a v else RdWrongAttrs a.
Proof.
  intros Ha. unfold read_var. rewrite takeN_app by (rewrite blen_le; reflexivity).
  rewrite unle_le_small by (rewrite pow256_4; exact Ha). reflexivity.
Qed.

Theorem read_absent required : read_var None required = RdErr.
Proof. reflexivity. Qed.

Theorem read_short bs required : blen bs < 4 -> read_var (Some bs) required = RdErr.
Proof. intros H. unfold read_var. apply takeN_none in H. rewrite H. reflexivity. Qed.

Theorem attrs_subset_spec r s :
  attrs_subset r s = true <-> forall i, N.testbit r i = true -> N.testbit s i = true.
Proof.
  unfold attrs_subset. rewrite N.eqb_eq. split.
  - intros H i Hi. apply N.bits_inj_iff in H. specialize (H i). rewrite N.land_spec, Hi in H.
    cbn in H. exact H.
  - intros H. apply N.bits_inj. intros i. rewrite N.land_spec.
    destruct (N.testbit r i) eqn:E; [rewrite (H i E); reflexivity|reflexivity].
Qed.

(* ---------- C12: the store ---------- *)
Lemma lookup_update_same s p c : lookup (update s p c) p = Some c.
Proof. cbn. rewrite bytes_eqb_refl. reflexivity. Qed.
Lemma lookup_update_other s p q c : q <> p -> lookup (update s p c) q = lookup s q.
Proof. intros H. cbn. apply bytes_eqb_neq in H. rewrite H. reflexivity. Qed.

Lemma mem_overwrite_nil new : mem_overwrite [] new = new.
Proof. unfold mem_overwrite. rewrite skipn_nil, app_nil_r. reflexivity. Qed.

Lemma lookup_truncate_write s p buf : lookup (mem_write (mem_truncate s p) p buf) p = Some buf.
Proof.
  unfold mem_truncate, mem_write. destruct (lookup s p) eqn:E.
  - rewrite lookup_update_same, lookup_update_same, mem_overwrite_nil. reflexivity.
  - rewrite E, lookup_update_same. reflexivity.
Qed.

Lemma lookup_truncate_write_other s p q buf :
  q <> p -> lookup (mem_write (mem_truncate s p) p buf) q = lookup s q.
Proof.
  intros H. unfold mem_truncate, mem_write. destruct (lookup s p) eqn:E.
  - rewrite lookup_update_same, !lookup_update_other by exact H. reflexivity.
  - rewrite E, lookup_update_other by exact H. reflexivity.
Qed.

(* a non-append write makes the variable hold exactly the new value... *)
Theorem testfs_write_same dir s name g attrs value : N.testbit attrs 6 = false ->
  lookup (testfs_write dir s name g attrs value) (var_path dir name g) =
  Some (le 4 attrs ++ testfs_payload name value).
Proof. intros H. unfold testfs_write. rewrite H. apply lookup_truncate_write. Qed.

(* ... and leaves every other variable alone *)
Theorem testfs_write_other dir s name g attrs value q : N.testbit attrs 6 = false ->
  q <> var_path dir name g -> lookup (testfs_write dir s name g attrs value) q = lookup s q.
Proof. intros H Hq. unfold testfs_write. rewrite H. apply lookup_truncate_write_other. exact Hq. Qed.

(* the register specification and the refinement over histories *)
Record wop := mkWop { w_name : bytes; w_guid : guid; w_attrs : N; w_value : bytes }.
Definition reg := bytes -> option bytes.
Definition spec_step (dir : bytes) (r : reg) (o : wop) : reg :=
  fun q => if bytes_eqb q (var_path dir (w_name o) (w_guid o))
           then Some (le 4 (w_attrs o) ++ testfs_payload (w_name o) (w_value o)) else r q.
Definition impl_step (dir : bytes) (s : store) (o : wop) : store :=
  testfs_write dir s (w_name o) (w_guid o) (w_attrs o) (w_value o).

Theorem register_refinement dir ops : forall s,
  Forall (fun o => N.testbit (w_attrs o) 6 = false) ops ->
  forall q, lookup (fold_left (impl_step dir) ops s) q = fold_left (spec_step dir) ops (lookup s) q.
Proof.
  induction ops as [|o ops IH]; intros s Hops q; [reflexivity|].
  apply Forall_cons_iff in Hops as [Ho Hops]. cbn [fold_left]. rewrite IH by exact Hops.
  assert (E : forall q', lookup (impl_step dir s o) q' = spec_step dir (lookup s) o q').
  { intros q'. unfold impl_step, spec_step.
    destruct (bytes_eqb q' (var_path dir (w_name o) (w_guid o))) eqn:Eq.
    - apply bytes_eqb_eq in Eq. subst. apply testfs_write_same. exact Ho.
    - apply bytes_eqb_neq in Eq. apply testfs_write_other; assumption. }
  clear IH Hops. revert E. generalize (lookup (impl_step dir s o)) (spec_step dir (lookup s) o).
  induction ops as [|o' ops IH]; intros f h E; [apply E|].
  cbn [fold_left]. apply IH. intros q'. unfold spec_step. rewrite E. reflexivity.
Qed.

(* last write wins: reading right after a history whose last write to the
   variable was o returns o's value *)
Theorem read_after_write dir s o required : N.testbit (w_attrs o) 6 = false -> w_attrs o < 4294967296 ->
  testfs_read dir (impl_step dir s o) (w_name o) (w_guid o) required =
  if attrs_subset required (w_attrs o)
  then RdDecode (w_attrs o) (testfs_payload (w_name o) (w_value o)) else RdWrongAttrs (w_attrs o).
Proof.
  intros Ha Hb. unfold testfs_read, impl_step. rewrite testfs_write_same by exact Ha.
  apply read_stored. exact Hb.
Qed.

(* secure-boot variables: the descriptor is removed, the payload database kept *)
Theorem payload_signed name a db :
  is_secure_name name = true -> wf_auth2 a -> Forall wf_list db ->
  testfs_payload name (write_auth2 a ++ enc_db db) = enc_db db.
Proof.
  intros Hn Ha Hdb. unfold testfs_payload. rewrite Hn, read_auth2_write by exact Ha.
  rewrite decode_encode by exact Hdb. reflexivity.
Qed.

Lemma read_auth2_enc_db db : Forall wf_list db -> exists e, read_auth2 (enc_db db) = Err e.
Proof.
  intros H. destruct db as [|l db]; [eexists; reflexivity|].
  apply Forall_cons_iff in H as [(Ht & Hok & Hh & Hs & Hls & Hlb & Hsb & Hw) _].
  pose proof (size_ok_hs _ _ _ Hok) as Hhs.
  cbn [enc_db flat_map]. unfold enc_list. rewrite Hhs. rewrite <- !app_assoc.
  unfold read_auth2. rewrite takeN_app by (apply blen_guid_wire; exact Ht).
  unfold read_wincert_guid, read_wincert.
  rewrite takeN_app by (rewrite blen_le; reflexivity).
  change (le 4 0) with ([x00; x00] ++ [x00; x00]). rewrite <- !app_assoc.
  rewrite takeN_app by reflexivity. rewrite takeN_app by reflexivity.
  cbn. eexists; reflexivity.
Qed.

Theorem payload_plain_db name db : Forall wf_list db -> testfs_payload name (enc_db db) = enc_db db.
Proof.
  intros H. unfold testfs_payload. destruct (is_secure_name name); [|reflexivity].
  destruct (read_auth2_enc_db db H) as [e ->]. reflexivity.
Qed.

Theorem payload_ordinary name value : is_secure_name name = false -> testfs_payload name value = value.
Proof. intros H. unfold testfs_payload. rewrite H. reflexivity. Qed.
