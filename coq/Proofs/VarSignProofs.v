(* Proofs/VarSignProofs.v -- C06. *)
From Coq Require Import Bool List NArith ZArith Lia Arith ZifyN ZifyNat ZifyBool.
From Coq.Strings Require Import Byte.
From GoUefi Require Import Base.Bytes Base.Outcome Base.Reader Base.Der Base.Sha256 Model.Util Model.WinCert
  Model.Pkcs7 Model.VarSign Spec.P7Check Proofs.UtilProofs Proofs.WinCertProofs Proofs.DerProofs Proofs.P7Proofs
  Proofs.P7SignProofs.
Import ListNotations.
Local Open Scope N_scope.

(* the exact byte layout *)
Theorem layout cert_raw issuer_raw serial name g attrs t payload p7time sig :
  let sd := signed_data cert_raw issuer_raw serial OID_data (signed_buffer name g attrs t payload) p7time sig in
  sign_efi_variable cert_raw issuer_raw serial name g attrs t payload p7time sig =
  write_time t ++ le 4 (24 + blen sd) ++ le 2 512 ++ le 2 3825 ++ guid_wire PKCS7_GUID ++ sd ++ payload.
Proof.
  intros sd. unfold sign_efi_variable, write_auth2, write_wincert_guid. fold sd.
  cbn [a_time a_info wg_length wg_revision wg_type wg_guid wg_data]. rewrite <- !app_assoc. reflexivity.
Qed.

(* the timestamp: year LE16, month, day, hour, minute, second, then nine zero bytes *)
Theorem time_layout y mo d h mi s :
  write_time (efi_time_of y mo d h mi s) = le 2 y ++ [n2b mo; n2b d; n2b h; n2b mi; n2b s] ++ zeros 9.
Proof. reflexivity. Qed.

(* the SignedData is bare: one DER SEQUENCE and nothing else *)
Theorem bare_sequence cert_raw issuer_raw serial oid content p7time sig :
  exists body, signed_data cert_raw issuer_raw serial oid content p7time sig = add_asn1 T_SEQUENCE body.
Proof. unfold signed_data, der_seq. eexists. reflexivity. Qed.

(* decoding the output with the descriptor decoder gives the descriptor back and
   leaves exactly the payload *)
Theorem decodes cert_raw issuer_raw serial name g attrs t payload p7time sig :
  wf_time t ->
  24 + blen (signed_data cert_raw issuer_raw serial OID_data (signed_buffer name g attrs t payload) p7time sig) < 4294967296 ->
  exists a, read_auth2 (sign_efi_variable cert_raw issuer_raw serial name g attrs t payload p7time sig) = Ret (a, payload) /\
            a_time a = t /\ wg_guid (a_info a) = PKCS7_GUID /\
            wg_data (a_info a) = signed_data cert_raw issuer_raw serial OID_data (signed_buffer name g attrs t payload) p7time sig.
Proof.
  intros Ht Hb. unfold sign_efi_variable. eexists. split.
  - apply read_auth2_write. unfold wf_auth2, wf_wincert_guid. cbn [a_time a_info wg_length wg_revision wg_type wg_guid wg_data].
    split; [exact Ht|]. split; [|reflexivity].
    split; [reflexivity|]. split; [exact Hb|]. split; [reflexivity|]. split; [reflexivity|].
    unfold wf_guid, PKCS7_GUID. cbn [d1 d2 d3 d4]. repeat split; try reflexivity.
  - cbn [a_time a_info wg_guid wg_data]. repeat split.
Qed.

Section Binding.
Variable utctime_ok : bytes -> bool.
Variable x509_ok : bytes -> bool.
Variable rsa_ok : N -> bytes -> bytes -> bool.

(* the SignedData parses (as a bare SignedData) to a detached SHA-256 signature
   whose signed messageDigest is the digest of name||GUID||attrs||time||payload *)
Theorem binding cert_raw ib serial name g attrs t payload p7time sig :
  let buf := signed_buffer name g attrs t payload in
  sign_side utctime_ok x509_ok cert_raw ib serial OID_data buf p7time sig ->
  parse_pkcs7 utctime_ok x509_ok (signed_data cert_raw (add_asn1 T_SEQUENCE ib) serial OID_data buf p7time sig) =
  Ret (mkP7 OID_data [] cert_raw OID_sha256 [signed_signer ib serial OID_data buf p7time sig]).
Proof.
  intros buf Hs. rewrite parse_bare by exact Hs. unfold signed_p7.
  change (oid_eqb OID_data OID_data) with true. rewrite andb_false_r. reflexivity.
Qed.

(* an independent verifier accepts it over that buffer: the signer entry is
   valid for the detached content iff the content hashes to the signed digest,
   so for another buffer only under a SHA-256 collision *)
Theorem detached_valid_iff ib serial buf p7time sig c other :
  names (signed_signer ib serial OID_data buf p7time sig) c = true ->
  rsa_ok (c_key c) (attrs_marshal OID_data (Some p7time) (sha256 buf) []) sig = true ->
  (at_md (mkAttrs (attrs_body OID_data (Some p7time) (sha256 buf) []) (Some OID_data) (sha256 buf) (Some p7time) []) = sha256 other
   <-> sha256 other = sha256 buf).
Proof. intros _ _. cbn [at_md]. split; intros H; congruence. Qed.
End Binding.
