(* Proofs/PESignProofs.v -- C03: what signing does to the bytes of an image. *)
From Coq Require Import Bool List NArith ZArith Lia Arith ZifyN ZifyNat ZifyBool.
From Coq.Strings Require Import Byte.
From GoUefi Require Import Base.Bytes Base.Outcome Base.Reader Model.WinCert Model.PE Proofs.PEProofs.
Import ListNotations.
Ltac Zify.zify_post_hook ::= Z.div_mod_to_equations.
Local Open Scope N_scope.

(* one certificate-table entry: a revision-2.0 PKCS#7 WIN_CERTIFICATE, zero
   padded to a multiple of 8 *)
Definition entry_of (b : bytes) : bytes :=
  le 4 (u32wrap (8 + blen b)) ++ le 2 512 ++ le 2 2 ++ b ++ zeros (N.to_nat (pad8 (u32wrap (8 + blen b)))).

Lemma blen_zeros n : blen (zeros n) = N.of_nat n.
Proof. unfold blen. rewrite zeros_length. reflexivity. Qed.

Lemma blen_entry b : 8 + blen b < 4294967296 -> blen (entry_of b) = 8 + blen b + pad8 (8 + blen b).
Proof.
  intros H. unfold entry_of, u32wrap. rewrite N.mod_small by exact H.
  rewrite !blen_app, !blen_le, blen_zeros, N2Nat.id. lia.
Qed.
Lemma entry_aligned b : 8 + blen b < 4294967296 -> blen (entry_of b) mod 8 = 0.
Proof. intros H. rewrite blen_entry by exact H. unfold pad8. lia. Qed.

Lemma pad8_aligned n : (n + pad8 n) mod 8 = 0.
Proof. unfold pad8. lia. Qed.
Lemma pad8_lt n : pad8 n < 8.
Proof. unfold pad8. lia. Qed.
Lemma sum_mod8 a b : a mod 8 = 0 -> b mod 8 = 0 -> (a + b) mod 8 = 0.
Proof. intros. lia. Qed.

(* ---- appending ---- *)
Lemma append_fields st b : pe_L (append_signature st b) = pe_L st /\ pe_img (append_signature st b) = pe_img st /\
  pe_table (append_signature st b) = pe_table st ++ entry_of b.
Proof.
  unfold append_signature. destruct (negb _ && negb _); cbn [pe_L pe_img pe_table]; repeat split.
Qed.

Theorem table_after blobs : forall st,
  let st' := fold_left append_signature blobs st in
  pe_L st' = pe_L st /\ pe_img st' = pe_img st /\ pe_table st' = pe_table st ++ flat_map entry_of blobs.
Proof.
  induction blobs as [|b blobs IH]; intros st; cbn [fold_left flat_map].
  - rewrite app_nil_r. repeat split.
  - destruct (IH (append_signature st b)) as (A & B & C). destruct (append_fields st b) as (A' & B' & C').
    cbn zeta. rewrite A, B, C, A', B', C', <- app_assoc. repeat split.
Qed.

(* ---- the bytes of a state ---- *)
Lemma sub_length off len img : off + len <= blen img -> blen (sub off len img) = len.
Proof. intros H. rewrite sub_gather by exact H. unfold blen. rewrite gather_length, nseq_length. lia. Qed.

Lemma nth_sub off len img i : off + len <= blen img -> N.of_nat i < len ->
  nth i (sub off len img) x00 = nth (N.to_nat off + i) img x00.
Proof.
  intros H Hi. rewrite sub_gather by exact H.
  replace i with (N.to_nat (N.of_nat i)) at 1 by lia.
  rewrite nth_gather by (rewrite nseq_length; lia). rewrite nth_nseq by exact Hi. f_equal. lia.
Qed.

(* every byte of the image proper, except the directory entry, is kept *)
Theorem prefix_kept_thm st q :
  let L := pe_L st in let img := pe_img st in
  wf_layout L -> l_size L = blen img -> blen (pe_optdd st) = 8 ->
  q < l_size L - l_certsize L -> ~ (l_dd4 L <= q < l_dd4 L + 8) ->
  nth (N.to_nat q) (pe_bytes st) x00 = nth (N.to_nat q) img x00.
Proof.
  intros L img (Hsoo & Hdd & Htbl & Hsecs & Hnd & Hsum & Hcert & Hnrva & Htab) Hsz Ho Hq Hn.
  assert (Hss : l_soh L <= l_sum L) by (unfold l_sum; lia).
  unfold pe_bytes. fold L img.
  assert (LA : blen (sub 0 (l_dd4 L) img) = l_dd4 L) by (apply sub_length; lia).
  assert (LB : blen (sub (l_dd4 L + 8) (l_size L - l_certsize L - (l_dd4 L + 8)) img) = l_size L - l_certsize L - (l_dd4 L + 8))
    by (apply sub_length; lia).
  destruct (N.lt_ge_cases q (l_dd4 L)) as [Hlt|Hge].
  - rewrite app_nth1 by (unfold blen in LA; lia).
    replace (N.to_nat q) with (N.to_nat 0 + N.to_nat q)%nat at 2 by lia.
    apply nth_sub; lia.
  - rewrite app_nth2 by (unfold blen in LA; lia).
    rewrite app_nth2 by (unfold blen in LA, Ho; lia).
    rewrite app_nth1 by (unfold blen in LA, LB, Ho; lia).
    rewrite nth_sub by (unfold blen in LA, Ho; lia). f_equal. unfold blen in LA, Ho. lia.
Qed.

Lemma pe_bytes_length st :
  let L := pe_L st in
  wf_layout L -> l_size L = blen (pe_img st) -> blen (pe_optdd st) = 8 ->
  blen (pe_bytes st) = l_size L - l_certsize L + pad8 (l_size L) + blen (pe_table st).
Proof.
  intros L (Hsoo & Hdd & Htbl & Hsecs & Hnd & Hsum & Hcert & Hnrva & Htab) Hsz Ho.
  assert (Hss : l_soh L <= l_sum L) by (unfold l_sum; lia).
  unfold pe_bytes. fold L. rewrite !blen_app, blen_zeros, N2Nat.id, Ho.
  rewrite !sub_length by lia. lia.
Qed.

(* ---- the directory entry always spans the table exactly to the end of file ---- *)
Definition dd_inv (st : pestate) : Prop :=
  pe_va st <> 0 /\ pe_ddsize st <> 0 /\
  pe_va st + pe_ddsize st = blen (pe_bytes st) /\ pe_va st mod 8 = 0 /\ pe_ddsize st mod 8 = 0 /\
  pe_optdd st = le 4 (pe_va st) ++ le 4 (pe_ddsize st) /\ pe_ddsize st = blen (pe_table st).

Lemma optdd_len va sz : blen (le 4 va ++ le 4 sz) = 8.
Proof. rewrite blen_app, !blen_le. reflexivity. Qed.

Lemma append_inv st b :
  let L := pe_L st in
  wf_layout L -> l_size L = blen (pe_img st) -> dd_inv st ->
  blen (pe_bytes st) + blen (entry_of b) < 4294967296 -> 8 + blen b < 4294967296 ->
  dd_inv (append_signature st b).
Proof.
  intros L Hw Hsz (Hva & Hsz0 & Hspan & Hva8 & Hsz8 & Hopt & Htab) Hbound Hb.
  pose proof (blen_entry b Hb) as He. pose proof (entry_aligned b Hb) as Ha.
  assert (Ho : blen (pe_optdd st) = 8) by (rewrite Hopt; apply optdd_len).
  pose proof (pe_bytes_length st Hw Hsz Ho) as Hlen. fold L in Hlen.
  unfold dd_inv, append_signature.
  destruct (N.eqb_spec (pe_va st) 0); [contradiction|]. destruct (N.eqb_spec (pe_ddsize st) 0); [contradiction|].
  cbn [negb andb pe_va pe_ddsize pe_optdd pe_table].
  unfold u32wrap in *. rewrite (N.mod_small (8 + blen b)) in * by exact Hb.
  set (len := 8 + blen b) in *. set (padn := pad8 len) in *.
  assert (Hpn : padn < 8) by (subst padn; unfold pad8; lia).
  assert (Hs1 : (pe_ddsize st + len) mod 4294967296 = pe_ddsize st + len) by (apply N.mod_small; subst len; lia).
  rewrite Hs1. assert (Hs2 : (pe_ddsize st + len + padn) mod 4294967296 = pe_ddsize st + len + padn) by (apply N.mod_small; subst len padn; unfold pad8 in *; lia).
  rewrite Hs2.
  repeat split; try assumption; try lia.
  - rewrite pe_bytes_length by (cbn [pe_L pe_img pe_optdd]; try assumption; apply optdd_len).
    cbn [pe_L pe_table]. fold L. rewrite !blen_app, !blen_le, blen_zeros, N2Nat.id. subst padn len. generalize dependent (pad8 (8 + blen b)). intros pn. intros. generalize dependent (pad8 (l_size L)). intros p8. intros. lia.
  - rewrite !blen_app, !blen_le, blen_zeros, N2Nat.id. subst padn len. generalize (pad8 (8 + blen b)). intros. lia.
Qed.

(* the first signature of an image without a table *)
Lemma first_append st b :
  let L := pe_L st in
  wf_layout L -> l_size L = blen (pe_img st) -> l_certsize L = 0 ->
  pe_ddsize st = 0 -> pe_table st = [] -> blen (pe_optdd st) = 8 ->
  l_size L + 8 + blen (entry_of b) < 4294967296 -> 8 + blen b < 4294967296 ->
  dd_inv (append_signature st b) /\ pe_va (append_signature st b) = l_size L + pad8 (l_size L).
Proof.
  intros L Hw Hsz Hc0 Hd0 Ht0 Ho Hbound Hb.
  pose proof (blen_entry b Hb) as He. pose proof (entry_aligned b Hb) as Ha.
  pose proof (pe_bytes_length st Hw Hsz Ho) as Hlen. fold L in Hlen. rewrite Hc0, Ht0 in Hlen. cbn [blen length] in Hlen.
  assert (Hpos : 8 <= l_size L).
  { destruct Hw as (_ & Hdd & _ & _ & _ & Hsum & _). assert (l_soh L <= l_sum L) by (unfold l_sum; lia). lia. }
  unfold dd_inv, append_signature. rewrite Hd0. cbn [N.eqb negb andb pe_va pe_ddsize pe_optdd pe_table]. rewrite andb_false_r.
  cbn [pe_va pe_ddsize pe_optdd pe_table]. fold L.
  unfold u32wrap in *. rewrite (N.mod_small (8 + blen b)) in * by exact Hb.
  set (len := 8 + blen b) in *. set (padn := pad8 len) in *.
  assert (Hp8 : pad8 (l_size L) < 8) by (unfold pad8; lia).
  rewrite (N.mod_small (l_size L + pad8 (l_size L))) by (subst len padn; unfold pad8 in *; lia).
  rewrite (N.mod_small (len + padn)) by (subst len padn; unfold pad8 in *; lia).
  rewrite Ht0. cbn [app].
  assert (A1 := pad8_aligned (l_size L)). assert (A2 := pad8_aligned len).
  split; [|reflexivity]. repeat split; try assumption; try lia.
  - rewrite pe_bytes_length by (cbn [pe_L pe_img pe_optdd]; try assumption; apply optdd_len).
    cbn [pe_L pe_table]. fold L. rewrite Hc0. rewrite !blen_app, !blen_le, blen_zeros, N2Nat.id.
    subst padn len. generalize (pad8 (8 + blen b)). intros. lia.
  - rewrite !blen_app, !blen_le, blen_zeros, N2Nat.id. subst padn len. generalize (pad8 (8 + blen b)). intros. lia.
Qed.

(* ---- every signing history keeps the invariant ---- *)
Lemma append_optdd_len st b : blen (pe_optdd (append_signature st b)) = 8.
Proof. unfold append_signature. destruct (negb _ && negb _); cbn [pe_optdd]; apply optdd_len. Qed.

Lemma append_bytes_len st b :
  wf_layout (pe_L st) -> l_size (pe_L st) = blen (pe_img st) -> blen (pe_optdd st) = 8 ->
  blen (pe_bytes (append_signature st b)) = blen (pe_bytes st) + blen (entry_of b).
Proof.
  intros Hw Hsz Ho. destruct (append_fields st b) as (EL & EI & ET).
  rewrite pe_bytes_length by (rewrite ?EL, ?EI; try assumption; apply append_optdd_len).
  rewrite pe_bytes_length by assumption. rewrite EL, ET, blen_app. lia.
Qed.

Definition total_entries (blobs : list bytes) : N := fold_right (fun b a => blen (entry_of b) + a) 0 blobs.

Lemma append_keeps_va st b : dd_inv st -> pe_va (append_signature st b) = pe_va st.
Proof.
  intros (Hva & Hsz & _). unfold append_signature.
  destruct (N.eqb_spec (pe_va st) 0); [contradiction|]. destruct (N.eqb_spec (pe_ddsize st) 0); [contradiction|].
  reflexivity.
Qed.

Theorem history_inv blobs : forall st,
  wf_layout (pe_L st) -> l_size (pe_L st) = blen (pe_img st) -> dd_inv st ->
  blen (pe_bytes st) + total_entries blobs < 4294967296 ->
  Forall (fun b => 8 + blen b < 4294967296) blobs ->
  dd_inv (fold_left append_signature blobs st) /\ pe_va (fold_left append_signature blobs st) = pe_va st.
Proof.
  induction blobs as [|b blobs IH]; intros st Hw Hsz Hinv Hb Hall; [split; [exact Hinv|reflexivity]|].
  apply Forall_cons_iff in Hall as [Hb1 Hall]. cbn [fold_left].
  unfold total_entries in Hb. cbn [fold_right] in Hb. fold (total_entries blobs) in Hb.
  assert (Ho : blen (pe_optdd st) = 8) by (destruct Hinv as (_ & _ & _ & _ & _ & Hopt & _); rewrite Hopt; apply optdd_len).
  assert (Hi : dd_inv (append_signature st b)) by (apply append_inv; try assumption; lia).
  destruct (append_fields st b) as (EL & EI & ET).
  destruct (IH (append_signature st b)) as [I1 I2]; try assumption.
  - rewrite EL. exact Hw.
  - rewrite EL, EI. exact Hsz.
  - rewrite append_bytes_len by assumption. lia.
  - split; [exact I1|]. rewrite I2. apply append_keeps_va. exact Hinv.
Qed.

(* an image without a table: after any non-empty history the table starts at the
   padded end of the image, holds exactly one entry per signature, and the
   directory entry spans it to the end of file; everything is 8-aligned *)
Theorem signed_from_unsigned st b blobs :
  let L := pe_L st in
  wf_layout L -> l_size L = blen (pe_img st) -> l_certsize L = 0 ->
  pe_ddsize st = 0 -> pe_table st = [] -> blen (pe_optdd st) = 8 ->
  l_size L + 8 + total_entries (b :: blobs) < 4294967296 ->
  Forall (fun x => 8 + blen x < 4294967296) (b :: blobs) ->
  let st' := fold_left append_signature (b :: blobs) st in
  dd_inv st' /\ pe_va st' = l_size L + pad8 (l_size L) /\
  pe_table st' = flat_map entry_of (b :: blobs) /\ blen (pe_bytes st') mod 8 = 0.
Proof.
  intros L Hw Hsz Hc0 Hd0 Ht0 Ho Hb Hall st'.
  apply Forall_cons_iff in Hall as [Hb1 Hall].
  unfold total_entries in Hb. cbn [fold_right] in Hb. fold (total_entries blobs) in Hb.
  destruct (first_append st b Hw Hsz Hc0 Hd0 Ht0 Ho ltac:(fold L; lia) Hb1) as [Hi Hva].
  destruct (append_fields st b) as (EL & EI & ET).
  assert (Hlen1 : blen (pe_bytes (append_signature st b)) = l_size L + pad8 (l_size L) + blen (entry_of b)).
  { rewrite append_bytes_len by assumption. rewrite pe_bytes_length by assumption. fold L. rewrite Hc0, Ht0, blen_nil. lia. }
  destruct (history_inv blobs (append_signature st b)) as [Hinv Hva'].
  { rewrite EL. exact Hw. }
  { rewrite EL, EI. exact Hsz. }
  { exact Hi. }
  { rewrite Hlen1. pose proof (pad8_lt (l_size L)). lia. }
  { exact Hall. }
  destruct (table_after blobs (append_signature st b)) as (TL & TI & TT).
  unfold st'. cbn [fold_left flat_map].
  split; [exact Hinv|]. split; [rewrite Hva'; exact Hva|].
  split; [rewrite TT, ET, Ht0; reflexivity|].
  destruct Hinv as (_ & _ & Hspan & H8a & H8b & _). rewrite <- Hspan. apply sum_mod8; assumption.
Qed.

(* ---- the digest does not change when signatures are appended ---- *)
Lemma covered_lt_body L p : wf_layout L -> is_covered L p -> p < l_size L - l_certsize L.
Proof.
  intros (Hsoo & Hdd & Htbl & Hsecs & Hnd & Hsum & Hcert & Hnrva & Htab) Hc.
  assert (Hss : l_soh L <= l_sum L) by (unfold l_sum; lia).
  assert (Hck : l_cksum L + 4 <= l_dd4 L) by (unfold l_cksum, l_dd4; destruct (l_plus L); lia).
  unfold is_covered, spec_positions in Hc. rewrite !in_app_iff, !in_nseq in Hc.
  destruct Hc as [Hc|[Hc|[Hc|[Hc|Hc]]]]; try lia.
  apply in_flat_map in Hc as (s & Hs & Hp). apply in_nseq in Hp. rewrite Forall_forall in Hsecs.
  destruct (Hsecs s Hs) as (H0 & H1 & H2). lia.
Qed.

Lemma nseq_app off a b : nseq off (a + b) = nseq off a ++ nseq (off + a) b.
Proof.
  unfold nseq. rewrite <- map_app. f_equal.
  replace (N.to_nat (a + b)) with (N.to_nat a + N.to_nat b)%nat by lia.
  rewrite seq_app. f_equal. f_equal. lia.
Qed.

Lemma gather_zeros off len out : (forall q, off <= q < off + len -> nth (N.to_nat q) out x00 = x00) ->
  gather (nseq off len) out = zeros (N.to_nat len).
Proof.
  intros H. unfold gather, zeros. apply nth_ext with (d := x00) (d' := x00).
  - rewrite map_length, nseq_length, repeat_length. reflexivity.
  - intros n Hn. rewrite map_length, nseq_length in Hn.
    replace n with (N.to_nat (N.of_nat n)) at 1 by lia.
    change (map (fun p => nth (N.to_nat p) out x00) (nseq off len)) with (gather (nseq off len) out).
    rewrite nth_gather by (rewrite nseq_length; lia). rewrite nth_nseq by lia.
    rewrite nth_repeat. apply H. lia.
Qed.

Theorem digest_invariant L img L' out :
  wf_layout L -> l_size L = blen img ->
  let body := l_size L - l_certsize L in
  let padn := if l_certsize L =? 0 then pad8 (l_size L) else 0 in
  (* the layout of the output: same headers and sections, the table after the padded body *)
  l_opt L' = l_opt L -> l_plus L' = l_plus L -> l_soh L' = l_soh L -> l_secs L' = l_secs L ->
  l_certsize L' <= l_size L' -> l_size L' - l_certsize L' = body + padn -> l_size L' mod 8 = 0 ->
  (* its bytes: the body kept except the directory entry, then zero padding *)
  (forall q, q < body -> ~ (l_dd4 L <= q < l_dd4 L + 8) -> nth (N.to_nat q) out x00 = nth (N.to_nat q) img x00) ->
  (forall q, body <= q < body + padn -> nth (N.to_nat q) out x00 = x00) ->
  spec_content L' out = spec_content L img.
Proof.
  intros Hw Hsz body padn Eopt Eplus Esoh Esecs Hcs' Hva' H8 Hkeep Hzero.
  pose proof Hw as (Hsoo & Hdd & Htbl & Hsecs & Hnd & Hsum & Hcert & Hnrva & Htab).
  assert (Eck : l_cksum L' = l_cksum L) by (unfold l_cksum; lia).
  assert (Edd : l_dd4 L' = l_dd4 L) by (unfold l_dd4; rewrite Eopt, Eplus; reflexivity).
  assert (Ehs : hashed_secs L' = hashed_secs L) by (unfold hashed_secs; rewrite Esecs; reflexivity).
  assert (Esum : l_sum L' = l_sum L) by (unfold l_sum; rewrite Esoh, Ehs; reflexivity).
  assert (Hpad0 : pad8 (l_size L') = 0) by (unfold pad8; lia).
  assert (Hpadn : pad8 (l_size L) = padn).
  { unfold padn. destruct (N.eqb_spec (l_certsize L) 0) as [|Hne]; [reflexivity|].
    destruct Htab as [?|(Hv & Hv8 & Hc8)]; [contradiction|]. unfold pad8. lia. }
  unfold spec_content. rewrite Hpad0, Hpadn. cbn [N.to_nat zeros repeat]. rewrite app_nil_r.
  (* positions of the output = positions of the image ++ the padding positions *)
  assert (Epos : spec_positions L' = spec_positions L ++ nseq body padn).
  { unfold spec_positions. rewrite Eck, Edd, Esoh, Ehs, Esum.
    replace (l_size L' - (l_certsize L' + l_sum L)) with ((l_size L - (l_certsize L + l_sum L)) + padn) by (subst body; lia).
    rewrite nseq_app. replace (l_sum L + (l_size L - (l_certsize L + l_sum L))) with body by (subst body; lia).
    rewrite <- !app_assoc. reflexivity. }
  rewrite Epos, gather_app. f_equal.
  - apply gather_agree. intros q Hq. apply Hkeep.
    + apply covered_lt_body; assumption.
    + intros Hin. apply (excluded_not_covered L q Hw); [right; left; exact Hin|exact Hq].
  - apply gather_zeros. exact Hzero.
Qed.
