(* Proofs/DeviceProofs.v -- C18: boot order names, load options, text form. *)
From Coq Require Import Bool List NArith ZArith Lia Arith ZifyN ZifyNat ZifyBool.
From Coq Require Decimal DecimalString.
From Coq.Strings Require Import Byte.
From Coq.Strings Require Ascii String.
From GoUefi Require Import Base.Bytes Base.Hex Base.Outcome Base.Reader Base.NumText Model.Util Model.Device
  Proofs.UtilProofs.
Import ListNotations.
Ltac Zify.zify_post_hook ::= Z.div_mod_to_equations.
Local Open Scope N_scope.

(* ---------------- boot order ---------------- *)
Lemma boot_values_encode ns :
  Forall (fun n => n < 65536) ns -> boot_order_values (flat_map (le 2) ns) = ns.
Proof.
  induction ns as [|n ns IH]; intros H; [reflexivity|].
  apply Forall_cons_iff in H as [Hn H].
  change (flat_map (le 2) (n :: ns)) with (n2b n :: n2b (n / 256) :: flat_map (le 2) ns).
  cbn [boot_order_values]. rewrite !b2n_n2b, IH by exact H. f_equal. lia.
Qed.

Theorem boot_order_decode ns :
  Forall (fun n => n < 65536) ns -> decode_boot_order (flat_map (le 2) ns) = map boot_name ns.
Proof. intros H. unfold decode_boot_order. rewrite boot_values_encode by exact H. reflexivity. Qed.

Definition is_upper_hex (c : byte) : bool :=
  let n := b2n c in ((48 <=? n) && (n <=? 57)) || ((65 <=? n) && (n <=? 70)).
Lemma hexbyte_upper_is_upper b : forallb is_upper_hex (hexbyte_upper b) = true.
Proof. revert b. apply forall_bytes. vm_compute. reflexivity. Qed.
Lemma hex_upper_is_upper l : forallb is_upper_hex (hex_upper l) = true.
Proof.
  induction l as [|b l IH]; [reflexivity|]. unfold hex_upper in *. cbn [flat_map].
  rewrite forallb_app, hexbyte_upper_is_upper, IH. reflexivity.
Qed.
Lemma hex_upper_length l : length (hex_upper l) = (2 * length l)%nat.
Proof. induction l as [|b l IH]; [reflexivity|]. unfold hex_upper in *. cbn [flat_map length app]. cbn. lia. Qed.

(* "Boot" followed by exactly four upper-case hexadecimal digits whose value is n *)
Theorem boot_name_shape n :
  exists d, boot_name n = boot_prefix ++ d /\ length d = 4%nat /\ forallb is_upper_hex d = true /\
            hex_decode d = (be 2 n, true).
Proof.
  exists (hex_upper (be 2 n)). split; [reflexivity|].
  rewrite hex_upper_length, be_length, hex_upper_is_upper, hex_decode_upper. repeat split.
Qed.

Theorem boot_name_inj n m : n < 65536 -> m < 65536 -> boot_name n = boot_name m -> n = m.
Proof.
  intros Hn Hm H. unfold boot_name in H. apply app_inv_head in H.
  assert (E : be 2 n = be 2 m).
  { pose proof (hex_decode_upper (be 2 n)) as A. rewrite H, hex_decode_upper in A.
    apply (f_equal fst) in A. cbn [fst] in A. symmetry. exact A. }
  rewrite <- (unbe_be_small 2 n), <- (unbe_be_small 2 m), E by (rewrite pow256_2; assumption). reflexivity.
Qed.

(* ---------------- load options ---------------- *)
Lemma units_nonzero c : valid_scalar c = true -> c <> 0 -> Forall (fun u => u <> 0 /\ u < 65536) (utf16_units c).
Proof.
  intros Hv Hc. unfold valid_scalar, is_surrogate in Hv. unfold utf16_units.
  destruct (N.ltb_spec c 65536).
  - constructor; [lia|constructor].
  - repeat constructor; lia.
Qed.

Lemma read_null_units us rest :
  Forall (fun u => u <> 0 /\ u < 65536) us ->
  read_null_string (flat_map (le 2) us ++ x00 :: x00 :: rest) = (flat_map (le 2) us ++ [x00; x00], rest).
Proof.
  induction us as [|u us IH]; intros H.
  - cbn. reflexivity.
  - apply Forall_cons_iff in H as [[Hu Hb] H].
    change (flat_map (le 2) (u :: us) ++ x00 :: x00 :: rest)
      with (n2b u :: n2b (u / 256) :: (flat_map (le 2) us ++ x00 :: x00 :: rest)).
    change (flat_map (le 2) (u :: us) ++ [x00; x00])
      with (n2b u :: n2b (u / 256) :: (flat_map (le 2) us ++ [x00; x00])).
    cbn [read_null_string].
    assert (E : byte_eqb (n2b u) x00 && byte_eqb (n2b (u / 256)) x00 = false).
    { apply andb_false_iff. destruct (byte_eqb_spec (n2b u) x00) as [A|A]; [|left; reflexivity].
      destruct (byte_eqb_spec (n2b (u / 256)) x00) as [B|B]; [|right; reflexivity]. exfalso.
      apply (f_equal b2n) in A, B. rewrite b2n_n2b in A, B. change (b2n x00) with 0 in A, B. lia. }
    rewrite E, IH by exact H. reflexivity.
Qed.

Lemma encode_units s : utf16le_encode s = flat_map (le 2) (flat_map utf16_units s).
Proof.
  unfold utf16le_encode. induction s as [|c s IH]; [reflexivity|].
  cbn [flat_map]. rewrite flat_map_app, IH. reflexivity.
Qed.

Lemma read_null_marshal s rest : wf_str s ->
  read_null_string (marshal_utf16 s ++ rest) = (marshal_utf16 s, rest).
Proof.
  intros [Hv H0]. unfold marshal_utf16. rewrite encode_units, <- app_assoc. cbn [app].
  apply read_null_units. rewrite forallb_forall in Hv.
  apply Forall_flat_map. apply Forall_forall. intros c Hc. apply units_nonzero.
  - apply Hv. exact Hc.
  - intros ->. apply H0. exact Hc.
Qed.

Lemma unle_single b : unle [b] = b2n b.
Proof. cbn. lia. Qed.

Lemma hdr_roundtrip h t st : wf_hdr h t st -> t < 256 -> st < 256 ->
  mkHdr (unle (slice 0 1 (enc_hdr h))) (unle (slice 1 1 (enc_hdr h))) (unle (slice 2 1 (enc_hdr h)))
        (unle (slice 3 1 (enc_hdr h))) = h.
Proof.
  intros (Ht & Hs & H0 & H1) Bt Bs. unfold enc_hdr, slice. cbn [skipn firstn]. rewrite !unle_single, !b2n_n2b.
  destruct h as [a b c d]. cbn in *. subst. f_equal; apply N.mod_small; lia.
Qed.

Lemma parse_sub_enc n r : wf_node n ->
  exists h body, enc_node n = enc_hdr h ++ body /\
    True /\
    parse_sub h (body ++ r) = SNode n r /\
    (exists t st, wf_hdr h t st /\ t < 256 /\ st < 256).
Proof.
  intros Hw. destruct n as [h f d|h hid uid|h pn st sz sig pf sty|h p|h nm|h pt ifc]; cbn [wf_node] in Hw.
  - destruct Hw as (Hh & Hf & Hd). exists h, [n2b f; n2b d]. split; [reflexivity|]. split; [auto|]. split; [|do 2 eexists; split; [exact Hh|split; reflexivity]].
    destruct Hh as (Ht & Hs & _). unfold parse_sub. rewrite Ht, Hs. cbn [N.eqb Pos.eqb].
    rewrite takeN_app by reflexivity. cbn [firstn skipn]. rewrite !unle_single, !b2n_n2b, !N.mod_small by lia. reflexivity.
  - destruct Hw as (Hh & Hf & Hd). exists h, (hid ++ uid). split; [reflexivity|]. split; [auto|]. split; [|do 2 eexists; split; [exact Hh|split; reflexivity]].
    destruct Hh as (Ht & Hs & _). unfold parse_sub. rewrite Ht, Hs. cbn [N.eqb Pos.eqb].
    rewrite takeN_app by (unfold blen; rewrite app_length, Hf, Hd; reflexivity).
    rewrite firstn_app_exact, skipn_app_exact by (symmetry; exact Hf). reflexivity.
  - destruct Hw as (Hh & Hpn & Hst & Hsz & Hsig & Hpf & Hsty).
    exists h, (le 4 pn ++ le 8 st ++ le 8 sz ++ sig ++ [n2b pf; n2b sty]). split; [reflexivity|]. split; [auto|]. split; [|do 2 eexists; split; [exact Hh|split; reflexivity]].
    destruct Hh as (Ht & Hs & _). unfold parse_sub. rewrite Ht, Hs. cbn [N.eqb Pos.eqb].
    rewrite takeN_app by (unfold blen; rewrite !app_length, !le_length, Hsig; reflexivity).
    assert (X : forall k n, exists l, le k n = l /\ length l = k) by (intros; eexists; split; [reflexivity|apply le_length]).
    destruct (X 4%nat pn) as (a & Ea & La). destruct (X 8%nat st) as (b & Eb & Lb). destruct (X 8%nat sz) as (c & Ec & Lc).
    rewrite Ea, Eb, Ec.
    do 4 (destruct a as [|? a]; [discriminate|]). destruct a; [|discriminate].
    do 8 (destruct b as [|? b]; [discriminate|]). destruct b; [|discriminate].
    do 8 (destruct c as [|? c]; [discriminate|]). destruct c; [|discriminate].
    do 16 (destruct sig as [|? sig]; [discriminate|]). destruct sig; [|discriminate].
    unfold slice. cbn [app skipn firstn].
    rewrite <- Ea, <- Eb, <- Ec.
    rewrite !unle_le_small by (first [rewrite pow256_4|rewrite pow256_8]; assumption).
    rewrite !unle_single, !b2n_n2b, !N.mod_small by lia. reflexivity.
  - destruct Hw as (Hh & Hp). exists h, (marshal_utf16 p). split; [reflexivity|]. split; [auto|]. split; [|do 2 eexists; split; [exact Hh|split; reflexivity]].
    destruct Hh as (Ht & Hs & _). unfold parse_sub. rewrite Ht, Hs. cbn [N.eqb Pos.eqb].
    rewrite read_null_marshal by exact Hp. destruct Hp as [Hv H0].
    rewrite utf16_roundtrip by assumption. reflexivity.
  - destruct Hw as (Hh & Hl). exists h, nm. split; [reflexivity|]. split; [auto|]. split; [|do 2 eexists; split; [exact Hh|split; reflexivity]].
    destruct Hh as (Ht & Hs & _). unfold parse_sub. rewrite Ht, Hs. cbn [N.eqb Pos.eqb].
    rewrite takeN_app by (unfold blen; rewrite Hl; reflexivity). reflexivity.
  - destruct Hw as (Hh & Hf & Hd). exists h, [n2b pt; n2b ifc]. split; [reflexivity|]. split; [auto|]. split; [|do 2 eexists; split; [exact Hh|split; reflexivity]].
    destruct Hh as (Ht & Hs & _). unfold parse_sub. rewrite Ht, Hs. cbn [N.eqb Pos.eqb].
    rewrite takeN_app by reflexivity. cbn [firstn skipn]. rewrite !unle_single, !b2n_n2b, !N.mod_small by lia. reflexivity.
Qed.

Lemma parse_nodes_enc ns : Forall wf_node ns -> forall f rest, (length ns < f)%nat ->
  parse_nodes f (flat_map enc_node ns ++ end_node ++ rest) = Ret ns.
Proof.
  induction ns as [|n ns IH]; intros Hw f rest Hf.
  - destruct f as [|f]; [lia|]. cbn [flat_map app parse_nodes]. unfold end_node.
    change ([x7f; xff; x04; x00] ++ rest) with ([x7f; xff; x04; x00] ++ rest).
    rewrite takeN_app by reflexivity. reflexivity.
  - apply Forall_cons_iff in Hw as [Hn Hw]. destruct f as [|f]; [cbn in Hf; lia|].
    cbn [flat_map parse_nodes]. rewrite <- app_assoc.
    destruct (parse_sub_enc n (flat_map enc_node ns ++ end_node ++ rest) Hn) as (h & body & E & _ & P & (t & st & Hh & Bt & Bs)).
    rewrite E, <- app_assoc. rewrite takeN_app by reflexivity.
    rewrite (hdr_roundtrip h t st Hh Bt Bs), P. rewrite IH by (try exact Hw; cbn in Hf; lia). reflexivity.
Qed.

Lemma enc_nodes_length ns : (length ns <= length (flat_map enc_node ns))%nat.
Proof.
  induction ns as [|n ns IH]; [reflexivity|]. cbn [flat_map length]. rewrite app_length.
  assert (1 <= length (enc_node n))%nat by (destruct n; cbn; lia). lia.
Qed.

(* decoding a load option built from the supported nodes recovers every field;
   trailing optional data is ignored *)
Theorem load_option_roundtrip o optional :
  wf_load_option o -> parse_load_option (enc_load_option o ++ optional) = Ret o.
Proof.
  intros (Ha & Hl & Hd & Hn). unfold parse_load_option, enc_load_option. rewrite <- !app_assoc.
  rewrite takeN_app by (rewrite blen_le; reflexivity).
  rewrite takeN_app by (rewrite blen_le; reflexivity).
  rewrite read_null_marshal by exact Hd. destruct Hd as [Hv H0].
  rewrite utf16_roundtrip by assumption. cbn [bind].
  unfold parse_device_path. rewrite parse_nodes_enc.
  - cbn [bind]. rewrite !unle_le_small by (first [rewrite pow256_4|rewrite pow256_2]; assumption).
    destruct o; reflexivity.
  - exact Hn.
  - rewrite app_length. pose proof (enc_nodes_length (lo_nodes o)). lia.
Qed.

(* ---------------- text form ---------------- *)
Definition no_comma (s : bytes) : Prop := forallb (fun c => negb (byte_eqb c comma)) s = true.

Lemma split_on_app a r cur : no_comma a ->
  split_on comma (a ++ comma :: r) cur = (rev cur ++ a) :: split_on comma r [].
Proof.
  revert cur. induction a as [|x a IH]; intros cur H.
  - cbn [app split_on]. destruct (byte_eqb_spec comma comma); [|congruence]. rewrite app_nil_r. reflexivity.
  - unfold no_comma in H. cbn [forallb] in H. apply andb_true_iff in H as [Hx Ha].
    cbn [app split_on]. destruct (byte_eqb x comma); [discriminate|].
    rewrite IH by exact Ha. cbn [rev]. rewrite <- app_assoc. reflexivity.
Qed.

Lemma split_on_last a cur : no_comma a -> split_on comma a cur = [rev cur ++ a].
Proof.
  revert cur. induction a as [|x a IH]; intros cur H.
  - cbn. rewrite app_nil_r. reflexivity.
  - unfold no_comma in H. cbn [forallb] in H. apply andb_true_iff in H as [Hx Ha].
    cbn [split_on]. destruct (byte_eqb x comma); [discriminate|].
    rewrite IH by exact Ha. cbn [rev]. rewrite <- app_assoc. reflexivity.
Qed.

Lemma no_comma_app a b : no_comma a -> no_comma b -> no_comma (a ++ b).
Proof. unfold no_comma. intros. rewrite forallb_app. apply andb_true_iff. split; assumption. Qed.

(* digits of the standard library's printers *)
Definition is_alnum (c : byte) : bool :=
  let n := b2n c in ((48 <=? n) && (n <=? 57)) || ((97 <=? n) && (n <=? 102)).
Lemma alnum_no_comma s : forallb is_alnum s = true -> no_comma s.
Proof.
  unfold no_comma. induction s as [|c s IH]; [reflexivity|]. cbn [forallb]. intros H.
  apply andb_true_iff in H as [Hc Hs]. rewrite IH by exact Hs. rewrite andb_true_r.
  revert c Hc. assert (X : forall c, implb (is_alnum c) (negb (byte_eqb c comma)) = true)
    by (apply forall_bytes; vm_compute; reflexivity).
  intros c Hc. specialize (X c). rewrite Hc in X. exact X.
Qed.

Lemma lbos_cons a s :
  String.list_byte_of_string (String.String a s) = Ascii.byte_of_ascii a :: String.list_byte_of_string s.
Proof. reflexivity. Qed.
Lemma dec_uint_alnum d : forallb is_alnum (String.list_byte_of_string (DecimalString.NilEmpty.string_of_uint d)) = true.
Proof.
  induction d; cbn [DecimalString.NilEmpty.string_of_uint]; [reflexivity|..];
    rewrite lbos_cons; cbn [forallb]; rewrite IHd; reflexivity.
Qed.

Lemma dec_text_alnum n : forallb is_alnum (dec_text n) = true.
Proof.
  unfold dec_text, DecimalString.NilZero.string_of_uint.
  destruct (N.to_uint n); try apply dec_uint_alnum. reflexivity.
Qed.
Lemma hex_text_alnum n : forallb is_alnum (hex_text n) = true.
Proof. apply hex_text_lower. Qed.

Lemma strip_prefix_app p x : strip_prefix p (p ++ x) = Some x.
Proof.
  unfold strip_prefix. rewrite firstn_app_exact, skipn_app_exact by reflexivity.
  rewrite bytes_eqb_refl. reflexivity.
Qed.
Lemma strip_last_app c x : strip_last c (x ++ [c]) = Some x.
Proof.
  unfold strip_last. rewrite rev_app_distr. cbn [List.rev app].
  destruct (byte_eqb_spec c c); [|congruence]. rewrite rev_involutive. reflexivity.
Qed.

Lemma parse_int_dec n : parse_int (dec_text n) = Some n.
Proof.
  unfold parse_int. destruct (dec_text n) as [|a [|b r]] eqn:E; try (rewrite <- E; apply parse_dec_text).
  destruct (byte_eqb a x30 && (byte_eqb b x78 || byte_eqb b x58)) eqn:C; [|rewrite <- E; apply parse_dec_text].
  exfalso. pose proof (dec_text_alnum n) as A. rewrite E in A. cbn [forallb] in A.
  apply andb_true_iff in C as [_ C]. apply andb_true_iff in A as [_ A]. apply andb_true_iff in A as [A _].
  destruct (byte_eqb_spec b x78) as [->|]; [discriminate A|]. destruct (byte_eqb_spec b x58) as [->|]; [discriminate A|discriminate C].
Qed.

Lemma parse_int_0x s : parse_int (t_0x ++ s) = parse_hex s.
Proof. reflexivity. Qed.

Lemma guid_format_no_comma g : no_comma (guid_format g).
Proof.
  unfold guid_format.
  assert (D : no_comma [dash]) by reflexivity.
  assert (L : forall l, no_comma (hex_lower l)) by (intros; apply alnum_no_comma, hex_lower_is_lower).
  repeat (apply no_comma_app; [first [apply L | exact D]|]). apply L.
Qed.

Lemma parse_guid_text_format g : wf_guid g -> parse_guid_text (guid_format g) = Some g.
Proof.
  intros H. unfold parse_guid_text. rewrite format_length by exact H. cbn [Nat.eqb].
  rewrite remove_dashes_format, hex_decode_lower. rewrite guid_to_bytes_length by exact H. cbn [Nat.eqb andb].
  rewrite bytes_to_guid_to_bytes by exact H. reflexivity.
Qed.

(* the rendering of a hard-drive node denotes the node's fields: the partition
   number, MBR/GPT, the signature (for GPT the GUID whose EFI wire form is the 16
   signature bytes), start and size *)
Theorem hd_text_denotes pn st sz sig sty :
  length sig = 16%nat -> st < 18446744073709551616 -> sz < 18446744073709551616 ->
  sty = 1 \/ sty = 2 ->
  parse_hd_text (format_hd pn st sz sig sty) = hd_denotes pn st sz sig sty.
Proof.
  intros Hsig Hst Hsz Hty.
  assert (NC_hd : no_comma (t_HD ++ dec_text pn))
    by (apply no_comma_app; [reflexivity|apply alnum_no_comma, dec_text_alnum]).
  assert (NC_st : no_comma (t_0x ++ hex_text st))
    by (apply no_comma_app; [reflexivity|apply alnum_no_comma, hex_text_alnum]).
  assert (NC_sz : no_comma ((t_0x ++ hex_text sz) ++ [rparen]))
    by (apply no_comma_app; [apply no_comma_app; [reflexivity|apply alnum_no_comma, hex_text_alnum]|reflexivity]).
  unfold format_hd, hd_denotes, parse_hd_text. destruct Hty as [-> | ->]; cbn [N.eqb Pos.eqb].
  - (* MBR *)
    replace (t_HD ++ dec_text pn ++ [comma] ++ t_MBR ++ [comma] ++ t_0x ++ hex_lower (be 4 (unle (firstn 4 sig))) ++
             [comma] ++ t_0x ++ hex_text st ++ [comma] ++ t_0x ++ hex_text sz ++ [rparen])
      with ((t_HD ++ dec_text pn) ++ comma :: t_MBR ++ comma :: (t_0x ++ hex_lower (be 4 (unle (firstn 4 sig)))) ++
            comma :: (t_0x ++ hex_text st) ++ comma :: ((t_0x ++ hex_text sz) ++ [rparen]))
      by (rewrite <- !app_assoc; reflexivity).
    rewrite split_on_app by exact NC_hd.
    rewrite split_on_app by reflexivity.
    rewrite split_on_app by (apply no_comma_app; [reflexivity|apply alnum_no_comma, hex_lower_is_lower]).
    rewrite split_on_app by exact NC_st.
    rewrite split_on_last by exact NC_sz. cbn [List.rev app].
    rewrite strip_prefix_app, strip_last_app, parse_int_dec, !parse_int_0x.
    rewrite !parse_hex_text by assumption.
    change (bytes_eqb t_MBR t_MBR) with true. cbn iota.
    assert (L4 : length (firstn 4 sig) = 4%nat) by (rewrite firstn_length; lia).
    pose proof (unle_lt (firstn 4 sig)) as B. rewrite L4 in B.
    rewrite parse_hex_fixed by (try exact B; lia). reflexivity.
  - (* GPT *)
    replace (t_HD ++ dec_text pn ++ [comma] ++ t_GPT ++ [comma] ++ guid_format (guid_of_wire sig) ++
             [comma] ++ t_0x ++ hex_text st ++ [comma] ++ t_0x ++ hex_text sz ++ [rparen])
      with ((t_HD ++ dec_text pn) ++ comma :: t_GPT ++ comma :: guid_format (guid_of_wire sig) ++
            comma :: (t_0x ++ hex_text st) ++ comma :: ((t_0x ++ hex_text sz) ++ [rparen]))
      by (rewrite <- !app_assoc; reflexivity).
    rewrite split_on_app by exact NC_hd.
    rewrite split_on_app by reflexivity.
    rewrite split_on_app by apply guid_format_no_comma.
    rewrite split_on_app by exact NC_st.
    rewrite split_on_last by exact NC_sz. cbn [List.rev app].
    rewrite strip_prefix_app, strip_last_app, parse_int_dec, !parse_int_0x.
    rewrite !parse_hex_text by assumption.
    change (bytes_eqb t_GPT t_MBR) with false. change (bytes_eqb t_GPT t_GPT) with true. cbn iota.
    rewrite parse_guid_text_format by (apply guid_of_wire_wf; lia). reflexivity.
Qed.

(* the GUID shown is the one whose EFI wire form is the signature: byte order *)
Theorem hd_gpt_guid_wire sig : length sig = 16%nat -> guid_wire (guid_of_wire sig) = sig.
Proof. apply guid_wire_of_wire. Qed.

Theorem file_text p : format_file p = [70; 105; 108; 101; 40] ++ p ++ [41].
Proof. reflexivity. Qed.
