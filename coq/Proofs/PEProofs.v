(* Proofs/PEProofs.v -- C01: the hashed pre-image is the specification's, covers
   exactly the specified positions, and reacts to every covered byte. *)
From Coq Require Import Bool List NArith ZArith Lia Arith ZifyN ZifyNat ZifyBool.
From Coq.Strings Require Import Byte.
From GoUefi Require Import Base.Bytes Base.Outcome Base.Reader Model.WinCert Model.PE.
Import ListNotations.
Ltac Zify.zify_post_hook ::= Z.div_mod_to_equations.
Local Open Scope N_scope.

(* ---------- slices are gathers ---------- *)
Lemma gather_app a b img : gather (a ++ b) img = gather a img ++ gather b img.
Proof. unfold gather. apply map_app. Qed.

Lemma firstn_skipn_nth {A} (d : A) (l : list A) : forall off len, (off + len <= length l)%nat ->
  firstn len (skipn off l) = map (fun i => nth i l d) (seq off len).
Proof.
  intros off len. revert off. induction len as [|len IH]; intros off H; [reflexivity|].
  cbn [seq map]. rewrite <- IH by lia.
  assert (Hs : skipn off l = nth off l d :: skipn (S off) l).
  { clear IH. revert off H. induction l as [|x l IHl]; intros off H; [cbn in H; lia|].
    destruct off as [|off]; [reflexivity|]. cbn [skipn nth]. apply IHl. cbn [length] in H. lia. }
  rewrite Hs. reflexivity.
Qed.

Lemma sub_gather off len img : off + len <= blen img -> sub off len img = gather (nseq off len) img.
Proof.
  intros H. unfold sub. destruct (N.leb_spec (blen img) off) as [Hle|Hlt].
  { assert (len = 0) by lia. subst. reflexivity. }
  rewrite N.min_l by lia. unfold gather, nseq. rewrite map_map.
  rewrite (firstn_skipn_nth x00) by (unfold blen in H; lia).
  apply map_ext. intros i. rewrite Nat2N.id. reflexivity.
Qed.

Lemma gather_length ps img : length (gather ps img) = length ps.
Proof. unfold gather. apply map_length. Qed.
Lemma nseq_length off len : length (nseq off len) = N.to_nat len.
Proof. unfold nseq. rewrite map_length, seq_length. reflexivity. Qed.
Lemma in_nseq p off len : In p (nseq off len) <-> off <= p < off + len.
Proof.
  unfold nseq. rewrite in_map_iff. split.
  - intros (i & <- & Hi). apply in_seq in Hi. lia.
  - intros H. exists (N.to_nat p). split; [lia|]. apply in_seq. lia.
Qed.

(* ---------- the pre-image is the specification's ---------- *)
Lemma secs_total_ge L : forall s, In s (hashed_secs L) -> snd s <= secs_total (hashed_secs L).
Proof.
  induction (hashed_secs L) as [|x l IH]; intros s Hs; [destruct Hs|].
  unfold secs_total in *. cbn [fold_right]. destruct Hs as [E|Hs]; [subst; lia|]. specialize (IH s Hs). lia.
Qed.

Theorem ranges_eq_spec L img :
  wf_layout L -> l_size L = blen img -> hash_ranges L img = spec_content L img.
Proof.
  intros (Hsoo & Hdd & Htbl & Hsecs & Hnd & Hsum & Hcert & Hnrva & Htab) Hsz.
  unfold hash_ranges, spec_content, spec_positions.
  assert (Hck : l_cksum L + 4 <= l_dd4 L) by (unfold l_cksum, l_dd4; destruct (l_plus L); lia).
  assert (Hsum' : l_soh L <= l_sum L) by (unfold l_sum; lia).
  rewrite !gather_app, <- !app_assoc.
  rewrite !sub_gather by lia.
  replace (l_size L - l_sum L - l_certsize L) with (l_size L - (l_certsize L + l_sum L)) by lia.
  f_equal. f_equal. f_equal. f_equal.
  (* sections *)
  clear Hnd. induction (hashed_secs L) as [|s l IH]; [reflexivity|].
  apply Forall_cons_iff in Hsecs as [(H0 & H1 & H2) Hl]. cbn [flat_map]. rewrite gather_app.
  rewrite sub_gather by lia. f_equal. apply IH. exact Hl.
Qed.

(* the model accepts every well-formed image debug/pe accepts, and Hash's
   pre-image is the specification's content *)
Theorem parse_wf img L :
  wf_image img L ->
  exists st, pe_parse true img = Ret st /\ pe_L st = L /\ pe_img st = img /\
             hash_content st = Some (spec_content L img).
Proof.
  intros [HL Hw]. pose proof Hw as (Hsoo & Hdd & Htbl & Hsecs & Hnd & Hsum & Hcert & Hnrva & Htab).
  assert (Hsz : l_size L = blen img).
  { unfold read_layout in HL.
    repeat match type of HL with
    | (if ?c then None else _) = _ => destruct c; [discriminate|]
    | (if ?c then Some _ else _) = _ => destruct c; [injection HL as <-; reflexivity|]
    end. injection HL as <-. reflexivity. }
  unfold pe_parse. cbn [negb]. rewrite HL.
  destruct (N.eqb_spec (l_soo L) 0); [contradiction|].
  destruct (N.ltb_spec (l_soh L) (l_dd4 L + 8)); [lia|].
  assert (E1 : existsb (fun s => l_size L <? fst s + snd s) (hashed_secs L) = false).
  { apply not_true_is_false. intros Hc. apply existsb_exists in Hc as (s & Hs & Hlt).
    rewrite Forall_forall in Hsecs. specialize (Hsecs s Hs). apply N.ltb_lt in Hlt. lia. }
  rewrite E1. destruct (N.ltb_spec (l_size L) (l_sum L)); [lia|].
  destruct (N.ltb_spec (l_size L - l_sum L) (l_certsize L)); [lia|].
  assert (E8 : negb (l_certsize L =? 0) && (l_size L <? l_va L + l_certsize L) = false).
  { destruct (N.eqb_spec (l_certsize L) 0); [reflexivity|]. cbn [negb andb].
    destruct (N.ltb_spec (l_size L) (l_va L + l_certsize L)); [lia|reflexivity]. }
  rewrite E8.
  eexists. split; [reflexivity|]. cbn [pe_L pe_img]. repeat split.
  unfold hash_content. cbn [pe_L pe_img].
  assert (E2 : secs_readable L = true).
  { unfold secs_readable. apply forallb_forall. intros s Hs. rewrite Forall_forall in Hsecs.
    specialize (Hsecs s Hs). destruct (N.eqb_spec (fst s) 0); [lia|reflexivity]. }
  rewrite E2. cbn [negb]. rewrite ranges_eq_spec by assumption. reflexivity.
Qed.

(* ---------- covered positions ---------- *)
Definition is_covered (L : layout) (p : N) : Prop := In p (spec_positions L).

(* checksum field, certificate-table entry and certificate table are never hashed *)
Theorem excluded_not_covered L p : wf_layout L ->
  (l_cksum L <= p < l_cksum L + 4 \/ l_dd4 L <= p < l_dd4 L + 8 \/
   (l_certsize L <> 0 /\ l_va L <= p < l_va L + l_certsize L)) -> ~ is_covered L p.
Proof.
  intros (Hsoo & Hdd & Htbl & Hsecs & Hnd & Hsum & Hcert & Hnrva & Htab) Hex Hc.
  assert (Hck : l_cksum L + 4 <= l_dd4 L) by (unfold l_cksum, l_dd4; destruct (l_plus L); lia).
  assert (Hss : l_soh L <= l_sum L) by (unfold l_sum; lia).
  unfold is_covered, spec_positions in Hc. rewrite !in_app_iff, !in_nseq in Hc.
  destruct Hc as [Hc|[Hc|[Hc|[Hc|Hc]]]]; try lia.
  apply in_flat_map in Hc as (s & Hs & Hp). apply in_nseq in Hp. rewrite Forall_forall in Hsecs.
  destruct (Hsecs s Hs) as (H0 & H1 & H2). lia.
Qed.


(* ---------- two images that differ in one byte ---------- *)
Definition differ_only_at (p : N) (img img' : bytes) : Prop :=
  length img = length img' /\ forall q, q <> p -> nth (N.to_nat q) img x00 = nth (N.to_nat q) img' x00.

Lemma gather_agree ps img img' :
  (forall q, In q ps -> nth (N.to_nat q) img x00 = nth (N.to_nat q) img' x00) -> gather ps img = gather ps img'.
Proof. intros H. unfold gather. apply map_ext_in. exact H. Qed.

(* bytes that are not hashed do not influence the pre-image (same layout) *)
Theorem excluded_same L p img img' :
  differ_only_at p img img' -> ~ is_covered L p -> spec_content L img' = spec_content L img.
Proof.
  intros [_ Hd] Hn. unfold spec_content. f_equal. symmetry. apply gather_agree.
  intros q Hq. apply Hd. intros ->. apply Hn. exact Hq.
Qed.

Lemma nth_gather ps img : forall k, (k < length ps)%nat ->
  nth k (gather ps img) x00 = nth (N.to_nat (nth k ps 0)) img x00.
Proof.
  induction ps as [|q ps IH]; intros k Hk; [cbn in Hk; lia|].
  destruct k as [|k]; [reflexivity|]. cbn [gather map nth length] in *. apply IH. lia.
Qed.

(* a hashed byte that changes changes the pre-image (same layout) *)
Theorem covered_differs L p img img' :
  is_covered L p -> nth (N.to_nat p) img x00 <> nth (N.to_nat p) img' x00 ->
  spec_content L img <> spec_content L img'.
Proof.
  intros Hc Hne E. unfold spec_content in E. apply app_inv_tail in E.
  apply (In_nth _ _ 0) in Hc as (k & Hk & Hp).
  assert (X : nth k (gather (spec_positions L) img) x00 = nth k (gather (spec_positions L) img') x00) by (rewrite E; reflexivity).
  rewrite !nth_gather, Hp in X by exact Hk. contradiction.
Qed.

(* ---------- the layout is a function of the header bytes ---------- *)
(* agreement on all positions below k except a 4-byte window at c *)
Definition agree_hdr (k c : N) (img img' : bytes) : Prop :=
  length img = length img' /\
  forall q, q < k -> ~ (c <= q < c + 4) -> nth (N.to_nat q) img x00 = nth (N.to_nat q) img' x00.
Definition agree_below (k : N) (img img' : bytes) : Prop := agree_hdr k k img img'.

Lemma sub_agree k c img img' off len :
  agree_hdr k c img img' -> off + len <= k -> (off + len <= c \/ c + 4 <= off) -> k <= blen img ->
  sub off len img' = sub off len img.
Proof.
  intros [Hl Ha] Ho Hc Hk.
  assert (Hk' : k <= blen img') by (unfold blen in *; rewrite <- Hl; exact Hk).
  rewrite !sub_gather by lia. symmetry. apply gather_agree. intros q Hq. apply in_nseq in Hq. apply Ha; lia.
Qed.

Lemma u16_agree k c img img' off : agree_hdr k c img img' -> off + 2 <= k -> (off + 2 <= c \/ c + 4 <= off) ->
  k <= blen img -> u16 off img' = u16 off img.
Proof. intros. unfold u16. erewrite sub_agree by eassumption. reflexivity. Qed.
Lemma u32_agree k c img img' off : agree_hdr k c img img' -> off + 4 <= k -> (off + 4 <= c \/ c + 4 <= off) ->
  k <= blen img -> u32 off img' = u32 off img.
Proof. intros. unfold u32. erewrite sub_agree by eassumption. reflexivity. Qed.

Lemma read_sections_agree k c img img' n : forall off,
  agree_hdr k c img img' -> off + 40 * N.of_nat n <= k -> (off + 40 * N.of_nat n <= c \/ c + 4 <= off) -> k <= blen img ->
  read_sections n off img' = read_sections n off img.
Proof.
  induction n as [|n IH]; intros off Ha Ho Hc Hk; [reflexivity|]. cbn [read_sections].
  rewrite (u32_agree k c img img') by (try assumption; lia).
  rewrite (u32_agree k c img img' (off + 16)) by (try assumption; lia).
  rewrite IH by (try assumption; lia). reflexivity.
Qed.

Definition header_end (L : layout) : N := l_opt L + l_soo L + 40 * N.of_nat (length (l_secs L)).

Lemma read_sections_length n off img : length (read_sections n off img) = n.
Proof. revert off. induction n; intros; cbn; auto. Qed.

(* images that agree on the headers have the same layout *)
Theorem read_layout_agree_gen k c img img' L :
  agree_hdr k c img img' -> read_layout img = Some L -> l_soo L <> 0 -> header_end L <= k -> k <= blen img ->
  (c = l_opt L + 64 \/ k <= c) ->
  read_layout img' = Some L.
Proof.
  intros Ha HL Hsoo Hk Hkb Hc. pose proof Ha as [Hlen _].
  assert (Hb : blen img' = blen img) by (unfold blen; rewrite Hlen; reflexivity).
  unfold read_layout in *. rewrite Hb.
  destruct (N.ltb_spec (blen img) 96) as [|H96]; [discriminate|].
  set (e := u32 60 img) in *.
  destruct (negb (u16 0 img =? 23117)) eqn:Emz; [discriminate|].
  destruct (N.ltb_spec (blen img) (e + 24)) as [|He]; [discriminate|].
  destruct (negb (u32 e img =? 17744)) eqn:Epe; [discriminate|].
  set (nsec := u16 (e + 6) img) in *. set (soo := u16 (e + 20) img) in *.
  destruct (N.ltb_spec (blen img) (e + 24 + soo + 40 * nsec)) as [|Hend]; [discriminate|].
  destruct (N.eqb_spec soo 0) as [Hz|Hnz].
  { injection HL as <-. cbn [l_soo] in Hsoo. contradiction. }
  set (magic := u16 (e + 24) img) in *.
  destruct (negb ((magic =? 267) || (magic =? 523))) eqn:Emag; [discriminate|].
  set (plus := magic =? 523) in *. set (ddoff := if plus then 112 else 96) in *.
  destruct (N.ltb_spec soo ddoff) as [|Hdd]; [discriminate|].
  injection HL as <-. unfold header_end in Hk. cbn [l_opt l_soo l_secs l_plus] in *.
  rewrite read_sections_length, N2Nat.id in Hk.
  assert (Hdd' : 96 <= ddoff) by (unfold ddoff; destruct plus; lia).
  assert (Hpe : e + 88 <= c) by lia.
  (* every read lies below k *)
  assert (E60 : u32 60 img' = e) by (apply (u32_agree k c img img'); try assumption; lia).
  rewrite E60. fold e.
  rewrite (u16_agree k c img img' 0) by (try assumption; lia). rewrite Emz.
  destruct (N.ltb_spec (blen img) (e + 24)); [lia|].
  rewrite (u32_agree k c img img' e) by (try assumption; lia). rewrite Epe.
  rewrite (u16_agree k c img img' (e + 6)) by (try assumption; lia). fold nsec.
  rewrite (u16_agree k c img img' (e + 20)) by (try assumption; lia). fold soo.
  destruct (N.ltb_spec (blen img) (e + 24 + soo + 40 * nsec)); [lia|].
  destruct (N.eqb_spec soo 0); [contradiction|].
  rewrite (u16_agree k c img img' (e + 24)) by (try assumption; lia). fold magic. fold plus. rewrite Emag. fold ddoff.
  destruct (N.ltb_spec soo ddoff); [lia|].
  rewrite (u32_agree k c img img' (e + 24 + ddoff - 4)) by (try assumption; lia).
  rewrite (u32_agree k c img img' (e + 24 + 60)) by (try assumption; lia).
  rewrite (read_sections_agree k c img img') by (try assumption; lia).
  set (nrva := u32 (e + 24 + ddoff - 4) img).
  destruct ((5 <=? nrva) && (ddoff + 40 <=? soo)) eqn:Eh.
  - apply andb_true_iff in Eh as [_ Eh]. apply N.leb_le in Eh.
    rewrite (u32_agree k c img img' (e + 24 + ddoff + 32)) by (try assumption; lia).
    rewrite (u32_agree k c img img' (e + 24 + ddoff + 32 + 4)) by (try assumption; lia). reflexivity.
  - reflexivity.
Qed.

Theorem read_layout_agree k img img' L :
  agree_below k img img' -> read_layout img = Some L -> l_soo L <> 0 -> header_end L <= k -> k <= blen img ->
  read_layout img' = Some L.
Proof. intros. eapply (read_layout_agree_gen k k); try eassumption. right. lia. Qed.

(* ---------- a changed covered byte changes the pre-image, whatever else it changes ---------- *)
Lemma read_layout_basic img L : read_layout img = Some L ->
  l_size L = blen img /\ 96 <= blen img /\ l_opt L = u32 60 img + 24 /\ l_opt L <= blen img /\
  (l_soo L <> 0 -> l_plus L = (u16 (l_opt L) img =? 523) /\ l_soh L = u32 (l_opt L + 60) img /\ 96 <= l_soo L /\
                   l_opt L + l_soo L <= blen img).
Proof.
  unfold read_layout.
  destruct (N.ltb_spec (blen img) 96) as [|H96]; [discriminate|].
  set (e := u32 60 img).
  destruct (negb (u16 0 img =? 23117)); [discriminate|].
  destruct (N.ltb_spec (blen img) (e + 24)) as [|He]; [discriminate|].
  destruct (negb (u32 e img =? 17744)); [discriminate|].
  set (nsec := u16 (e + 6) img). set (soo := u16 (e + 20) img).
  destruct (N.ltb_spec (blen img) (e + 24 + soo + 40 * nsec)) as [|Hend]; [discriminate|].
  destruct (N.eqb_spec soo 0) as [Hz|Hnz].
  { intros H. injection H as <-. cbn [l_size l_opt l_soo l_plus l_soh].
    split; [reflexivity|]. split; [lia|]. split; [reflexivity|]. split; [lia|]. intros X. contradiction. }
  destruct (negb _); [discriminate|].
  set (plus := u16 (e + 24) img =? 523). set (ddoff := if plus then 112 else 96).
  destruct (N.ltb_spec soo ddoff) as [|Hdd]; [discriminate|].
  intros H. injection H as <-. cbn [l_size l_opt l_soo l_plus l_soh].
  assert (96 <= ddoff) by (unfold ddoff; destruct plus; lia).
  repeat split; try lia.
Qed.

Definition header_positions (cks dd4 soh : N) : list N :=
  nseq 0 cks ++ nseq (cks + 4) (dd4 - (cks + 4)) ++ nseq (dd4 + 8) (soh - (dd4 + 8)).

Lemma nth_nseq off len k : k < len -> nth (N.to_nat k) (nseq off len) 0 = off + k.
Proof.
  intros H. unfold nseq. rewrite (nth_indep _ 0 (N.of_nat 0)) by (rewrite map_length, seq_length; lia).
  rewrite map_nth, seq_nth by lia. lia.
Qed.

Lemma nth_gather_prefix len rest img p : p < len ->
  nth (N.to_nat p) (gather (nseq 0 len) img ++ rest) x00 = nth (N.to_nat p) img x00.
Proof.
  intros H. rewrite app_nth1 by (rewrite gather_length, nseq_length; lia).
  rewrite nth_gather by (rewrite nseq_length; lia). rewrite nth_nseq by exact H. reflexivity.
Qed.

Lemma spec_positions_split L :
  spec_positions L = header_positions (l_cksum L) (l_dd4 L) (l_soh L) ++
    (flat_map (fun s => nseq (fst s) (snd s)) (hashed_secs L) ++ nseq (l_sum L) (l_size L - (l_certsize L + l_sum L))).
Proof. unfold spec_positions, header_positions. rewrite <- !app_assoc. reflexivity. Qed.

Lemma gather_differs ps p img img' :
  In p ps -> nth (N.to_nat p) img x00 <> nth (N.to_nat p) img' x00 -> gather ps img <> gather ps img'.
Proof.
  intros Hin Hne E. apply (In_nth _ _ 0) in Hin as (k & Hk & Hp).
  assert (X : nth k (gather ps img) x00 = nth k (gather ps img') x00) by (rewrite E; reflexivity).
  rewrite !nth_gather, Hp in X by exact Hk. contradiction.
Qed.

Lemma app_differs {A} (a a' b b' : list A) : length a = length a' -> a <> a' -> a ++ b <> a' ++ b'.
Proof.
  intros Hl Hne E. apply Hne. revert a' Hl E Hne. induction a as [|x a IH]; intros [|y a'] Hl E Hne; try discriminate.
  - reflexivity.
  - cbn in E. injection E as -> E. f_equal. apply IH; [cbn in Hl; lia|exact E|]. intros ->. apply Hne. reflexivity.
Qed.

Theorem covered_sensitive img img' L L' p :
  wf_image img L -> wf_image img' L' -> differ_only_at p img img' ->
  nth (N.to_nat p) img x00 <> nth (N.to_nat p) img' x00 -> is_covered L p ->
  spec_content L img <> spec_content L' img'.
Proof.
  intros [HL Hw] [HL' Hw'] Hd Hne Hcov.
  pose proof Hw as (Hsoo & Hdd & Htbl & Hsecs & Hnd & Hsum & Hcert & Hnrva & Htab).
  pose proof Hw' as (Hsoo' & Hdd' & Htbl' & Hsecs' & Hnd' & Hsum' & Hcert' & Hnrva' & Htab').
  destruct (read_layout_basic _ _ HL) as (Hsz & H96 & Hopt & Hoptb & Hrest). specialize (Hrest Hsoo) as (Hplus & Hsoh & Hsoo96 & Hoend).
  destruct (read_layout_basic _ _ HL') as (Hsz' & H96' & Hopt' & Hoptb' & Hrest'). specialize (Hrest' Hsoo') as (Hplus' & Hsoh' & Hsoo96' & Hoend').
  destruct Hd as [Hlen Hd].
  assert (Hbl : blen img' = blen img) by (unfold blen; rewrite Hlen; reflexivity).
  assert (Hss : l_soh L <= l_sum L) by (unfold l_sum; lia).
  assert (Hck : l_cksum L + 4 <= l_dd4 L) by (unfold l_cksum, l_dd4; destruct (l_plus L); lia).
  destruct (N.le_gt_cases (header_end L) p) as [Hp|Hp].
  - (* a data byte: the layout is unchanged *)
    assert (Ha : agree_below (header_end L) img img').
    { split; [exact Hlen|]. intros q Hq _. apply Hd. lia. }
    assert (E : read_layout img' = Some L).
    { eapply read_layout_agree; try eassumption; unfold header_end in *; lia. }
    rewrite E in HL'. injection HL' as <-. apply (covered_differs L p); assumption.
  - (* a header byte *)
    unfold header_end in Hp.
    assert (Hphdr : In p (header_positions (l_cksum L) (l_dd4 L) (l_soh L))).
    { unfold is_covered in Hcov. rewrite spec_positions_split in Hcov. apply in_app_iff in Hcov as [H|H]; [exact H|].
      exfalso. apply in_app_iff in H as [H|H].
      - apply in_flat_map in H as (s & Hs & Hps). apply in_nseq in Hps. rewrite Forall_forall in Hsecs.
        destruct (Hsecs s Hs) as (_ & H1 & _). lia.
      - apply in_nseq in H. lia. }
    (* the header layout is the same in both images, or p precedes both checksums *)
    destruct (N.lt_ge_cases p (l_cksum L)) as [Hlt|Hge].
    + (* before the checksum: index p of the content is byte p of the image *)
      assert (Hlt' : p < l_cksum L').
      { unfold l_cksum in *. destruct (N.lt_ge_cases p 64) as [|H64]; [lia|].
        assert (u32 60 img' = u32 60 img) as E60; [|lia].
        apply (u32_agree 64 64 img img'); [|lia|lia|lia].
        split; [exact Hlen|]. intros q Hq _. apply Hd. lia. }
      intros E. unfold spec_content, spec_positions in E. rewrite !gather_app, <- !app_assoc in E.
      assert (Hck' : l_cksum L' <= blen img') by (unfold l_cksum, l_dd4 in *; destruct (l_plus L'); lia).
      assert (X : nth (N.to_nat p) (gather (nseq 0 (l_cksum L)) img ++ (gather (nseq (l_cksum L + 4) (l_dd4 L - (l_cksum L + 4))) img ++
                   gather (nseq (l_dd4 L + 8) (l_soh L - (l_dd4 L + 8))) img ++
                   gather (flat_map (fun s => nseq (fst s) (snd s)) (hashed_secs L)) img ++
                   gather (nseq (l_sum L) (l_size L - (l_certsize L + l_sum L))) img ++ zeros (N.to_nat (pad8 (l_size L))))) x00 =
                  nth (N.to_nat p) img x00) by (apply nth_gather_prefix; exact Hlt).
      rewrite E in X. rewrite nth_gather_prefix in X by exact Hlt'. apply Hne. symmetry. exact X.
    + (* after the checksum: the header ranges are the same in both images *)
      assert (Ha : agree_below (l_opt L + 64) img img').
      { split; [exact Hlen|]. intros q Hq _. apply Hd. unfold l_cksum in Hge. lia. }
      assert (E60 : u32 60 img' = u32 60 img) by (apply (u32_agree (l_opt L + 64) (l_opt L + 64) img img'); try assumption; lia).
      assert (Eopt : l_opt L' = l_opt L) by lia.
      assert (Eplus : l_plus L' = l_plus L).
      { rewrite Hplus, Hplus', Eopt. f_equal. apply (u16_agree (l_opt L + 64) (l_opt L + 64) img img'); try assumption; lia. }
      assert (Esoh : l_soh L' = l_soh L).
      { rewrite Hsoh, Hsoh', Eopt. apply (u32_agree (l_opt L + 64) (l_opt L + 64) img img'); try assumption; lia. }
      assert (Eck : l_cksum L' = l_cksum L) by (unfold l_cksum; lia).
      assert (Edd : l_dd4 L' = l_dd4 L) by (unfold l_dd4; rewrite Eopt, Eplus; reflexivity).
      unfold spec_content. rewrite (spec_positions_split L), (spec_positions_split L'), Eck, Edd, Esoh.
      rewrite !gather_app, <- !app_assoc.
      apply app_differs; [rewrite !gather_length; reflexivity|].
      apply (gather_differs _ p); assumption.
Qed.

(* ---------- excluded bytes ---------- *)
(* changing a checksum byte or a byte of the certificate table changes neither
   the layout nor the pre-image *)
Theorem excluded_checksum_or_table img img' L p :
  wf_image img L -> differ_only_at p img img' ->
  (l_cksum L <= p < l_cksum L + 4 \/ (l_certsize L <> 0 /\ l_va L <= p < l_va L + l_certsize L)) ->
  read_layout img' = Some L /\ spec_content L img' = spec_content L img.
Proof.
  intros [HL Hw] Hd Hex.
  pose proof Hw as (Hsoo & Hdd & Htbl & Hsecs & Hnd & Hsum & Hcert & Hnrva & Htab).
  destruct (read_layout_basic _ _ HL) as (Hsz & H96 & Hopt & Hoptb & Hrest).
  assert (Hss : l_soh L <= l_sum L) by (unfold l_sum; lia).
  assert (Hlay : read_layout img' = Some L).
  { destruct Hd as [Hlen Hd]. destruct Hex as [Hck|[Hne Htb]].
    - apply (read_layout_agree_gen (header_end L) (l_cksum L) img img'); try assumption.
      + split; [exact Hlen|]. intros q Hq Hnot. apply Hd. lia.
      + lia.
      + unfold header_end. lia.
      + left. reflexivity.
    - apply (read_layout_agree (header_end L) img img'); try assumption.
      + split; [exact Hlen|]. intros q Hq _. apply Hd. unfold header_end in Hq.
        destruct Htab as [?|(Hv & _)]; [contradiction|]. lia.
      + lia.
      + unfold header_end. lia. }
  split; [exact Hlay|]. apply (excluded_same L p); [exact Hd|].
  apply excluded_not_covered; [exact Hw|]. destruct Hex as [?|?]; [left; assumption|right; right; assumption].
Qed.

(* ---------- the executable well-formedness test is sound ---------- *)
Lemma nodupN_sound l : nodupN l = true -> NoDup l.
Proof.
  induction l as [|x l IH]; cbn [nodupN]; intros H; [constructor|].
  apply andb_true_iff in H as [Hx Hl]. constructor; [|apply IH; exact Hl].
  intros Hin. apply negb_true_iff in Hx. apply not_true_iff_false in Hx. apply Hx.
  apply existsb_exists. exists x. split; [exact Hin|apply N.eqb_refl].
Qed.

Theorem wf_layout_b_sound L : wf_layout_b L = true -> wf_layout L.
Proof.
  unfold wf_layout_b, wf_layout. intros H.
  apply andb_true_iff in H as [H H9]. apply andb_true_iff in H as [H H8].
  apply andb_true_iff in H as [H H7]. apply andb_true_iff in H as [H H6].
  apply andb_true_iff in H as [H H5]. apply andb_true_iff in H as [H H4].
  apply andb_true_iff in H as [H H3]. apply andb_true_iff in H as [H1 H2].
  split; [intros E; rewrite E in H1; discriminate|].
  split; [apply N.leb_le; exact H2|]. split; [apply N.leb_le; exact H3|].
  split.
  { apply Forall_forall. intros s Hs. rewrite forallb_forall in H4. specialize (H4 s Hs).
    apply andb_true_iff in H4 as [H4 Hc]. apply andb_true_iff in H4 as [Ha Hb].
    split; [intros E; rewrite E in Ha; discriminate|]. split; apply N.leb_le; assumption. }
  split; [apply nodupN_sound; exact H5|].
  split; [apply N.leb_le; exact H6|]. split; [apply N.leb_le; exact H7|]. split; [apply N.leb_le; exact H8|].
  apply orb_true_iff in H9 as [H9|H9].
  - left. apply N.eqb_eq. exact H9.
  - right. apply andb_true_iff in H9 as [H9 Hz]. apply andb_true_iff in H9 as [Hx Hy].
    repeat split; apply N.eqb_eq; assumption.
Qed.

Theorem wf_image_b_sound img : wf_image_b img = true -> exists L, wf_image img L.
Proof.
  unfold wf_image_b. destruct (read_layout img) as [L|] eqn:E; [|discriminate].
  intros H. exists L. split; [exact E|apply wf_layout_b_sound; exact H].
Qed.
