(* Proofs/PEReparse.v -- C03: what Parse reads back from the bytes Bytes() emits
   after signatures were appended: the same headers and sections, the directory
   entry (va, size) of the signed state, the new file size; hence a well-formed
   layout, the table, and the digest pre-image of the image that was signed. *)
From Coq Require Import Bool List NArith ZArith Lia Arith ZifyN ZifyNat ZifyBool.
From Coq.Strings Require Import Byte.
From GoUefi Require Import Base.Bytes Base.Outcome Base.Reader Model.WinCert Model.PE Proofs.PEProofs Proofs.PESignProofs.
Import ListNotations.
Ltac Zify.zify_post_hook ::= Z.div_mod_to_equations.
Local Open Scope N_scope.

(* agreement on all positions below k except an 8-byte window at c; the lengths may differ *)
Definition agree_win (k c : N) (img out : bytes) : Prop :=
  forall q, q < k -> ~ (c <= q < c + 8) -> nth (N.to_nat q) out x00 = nth (N.to_nat q) img x00.

Lemma sub_agree_win k c img out off len :
  agree_win k c img out -> off + len <= k -> (off + len <= c \/ c + 8 <= off) -> k <= blen img -> k <= blen out ->
  sub off len out = sub off len img.
Proof.
  intros Ha Ho Hc Hk Hk'. rewrite !sub_gather by lia. apply gather_agree.
  intros q Hq. apply in_nseq in Hq. apply Ha; lia.
Qed.
Lemma u16_agree_win k c img out off : agree_win k c img out -> off + 2 <= k -> (off + 2 <= c \/ c + 8 <= off) ->
  k <= blen img -> k <= blen out -> u16 off out = u16 off img.
Proof. intros. unfold u16. erewrite sub_agree_win by eassumption. reflexivity. Qed.
Lemma u32_agree_win k c img out off : agree_win k c img out -> off + 4 <= k -> (off + 4 <= c \/ c + 8 <= off) ->
  k <= blen img -> k <= blen out -> u32 off out = u32 off img.
Proof. intros. unfold u32. erewrite sub_agree_win by eassumption. reflexivity. Qed.
Lemma read_sections_agree_win k c img out n : forall off,
  agree_win k c img out -> off + 40 * N.of_nat n <= k -> (off + 40 * N.of_nat n <= c \/ c + 8 <= off) ->
  k <= blen img -> k <= blen out ->
  read_sections n off out = read_sections n off img.
Proof.
  induction n as [|n IH]; intros off Ha Ho Hc Hk Hk'; [reflexivity|]. cbn [read_sections].
  rewrite (u32_agree_win k c img out) by (try assumption; lia).
  rewrite (u32_agree_win k c img out (off + 16)) by (try assumption; lia).
  rewrite IH by (try assumption; lia). reflexivity.
Qed.

(* the layout read from bytes that keep the headers of img except the directory
   entry, which now holds (va, sz), and that are at least as long *)
Theorem read_layout_out k img out L va sz :
  read_layout img = Some L -> l_soo L <> 0 -> 5 <= l_nrva L -> l_dd4 L + 8 <= l_opt L + l_soo L ->
  header_end L <= k -> k <= blen img -> blen img <= blen out ->
  agree_win k (l_dd4 L) img out -> u32 (l_dd4 L) out = va -> u32 (l_dd4 L + 4) out = sz ->
  read_layout out = Some (mkLayout (l_opt L) (l_soo L) (l_plus L) (l_soh L) (l_nrva L) va sz (l_secs L) (blen out)).
Proof.
  intros HL Hsoo Hnrva Hfit Hk Hkb Hlen Ha Hva Hsz.
  assert (Hko : k <= blen out) by lia.
  unfold read_layout in *.
  destruct (N.ltb_spec (blen img) 96) as [|H96]; [discriminate|].
  set (e := u32 60 img) in *.
  destruct (negb (u16 0 img =? 23117)) eqn:Emz; [discriminate|].
  destruct (N.ltb_spec (blen img) (e + 24)) as [|He]; [discriminate|].
  destruct (negb (u32 e img =? 17744)) eqn:Epe; [discriminate|].
  set (nsec := u16 (e + 6) img) in *. set (soo := u16 (e + 20) img) in *.
  destruct (N.ltb_spec (blen img) (e + 24 + soo + 40 * nsec)) as [|Hend]; [discriminate|].
  destruct (N.eqb_spec soo 0) as [Hz|Hnz].
  { injection HL as <-. cbn [l_soo] in Hsoo. contradiction. }
  set (magic := u16 (e + 24) img) in *.
  destruct (negb ((magic =? 267) || (magic =? 523))) eqn:Emag; [discriminate|].
  set (plus := magic =? 523) in *. set (ddoff := if plus then 112 else 96) in *.
  destruct (N.ltb_spec soo ddoff) as [|Hdd]; [discriminate|].
  injection HL as <-. unfold header_end, l_dd4 in *. cbn [l_opt l_soo l_secs l_plus l_nrva l_soh] in *.
  rewrite read_sections_length, N2Nat.id in Hk.
  assert (Hdd' : 96 <= ddoff) by (unfold ddoff; destruct plus; lia).
  assert (Edd4 : e + 24 + (if plus then 144 else 128) = e + 24 + ddoff + 32) by (unfold ddoff; destruct plus; lia).
  rewrite Edd4 in *.
  set (c := e + 24 + ddoff + 32) in *.
  destruct (N.ltb_spec (blen out) 96); [lia|].
  assert (E60 : u32 60 out = e) by (apply (u32_agree_win k c img out); try assumption; lia).
  rewrite E60. fold e.
  rewrite (u16_agree_win k c img out 0) by (try assumption; lia). rewrite Emz.
  destruct (N.ltb_spec (blen out) (e + 24)); [lia|].
  rewrite (u32_agree_win k c img out e) by (try assumption; lia). rewrite Epe.
  rewrite (u16_agree_win k c img out (e + 6)) by (try assumption; lia). fold nsec.
  rewrite (u16_agree_win k c img out (e + 20)) by (try assumption; lia). fold soo.
  destruct (N.ltb_spec (blen out) (e + 24 + soo + 40 * nsec)); [lia|].
  destruct (N.eqb_spec soo 0); [contradiction|].
  rewrite (u16_agree_win k c img out (e + 24)) by (try assumption; lia). fold magic. fold plus. rewrite Emag. fold ddoff.
  destruct (N.ltb_spec soo ddoff); [lia|].
  rewrite (u32_agree_win k c img out (e + 24 + ddoff - 4)) by (try assumption; lia).
  rewrite (u32_agree_win k c img out (e + 24 + 60)) by (try assumption; lia).
  rewrite (read_sections_agree_win k c img out); try assumption.
  2: lia.
  2: right; exact Hfit.
  set (nrva := u32 (e + 24 + ddoff - 4) img) in *.
  assert (Eh : (5 <=? nrva) && (ddoff + 40 <=? soo) = true).
  { apply andb_true_iff. split; apply N.leb_le; lia. }
  rewrite Eh. fold c. rewrite Hva, Hsz. reflexivity.
Qed.

(* ---- the bytes Bytes() emits ---- *)
Lemma sub_app_l a b len : len <= blen a -> sub 0 len (a ++ b) = firstn (N.to_nat len) a.
Proof.
  intros H. unfold sub. rewrite blen_app.
  destruct (N.leb_spec (blen a + blen b) 0) as [Hz|Hnz].
  - assert (len = 0) by lia. subst. assert (Ha : length a = 0%nat) by (unfold blen in *; lia).
    destruct a; [reflexivity | discriminate].
  - cbn [N.to_nat skipn]. rewrite N.sub_0_r.
    replace (N.min len (blen a + blen b)) with len by lia.
    rewrite firstn_app. unfold blen in H.
    replace (N.to_nat len - length a)%nat with 0%nat by lia. cbn [firstn]. apply app_nil_r.
Qed.
Lemma sub_app_r a b off len : sub (blen a + off) len (a ++ b) = sub off len b.
Proof.
  unfold sub. rewrite blen_app.
  destruct (N.leb_spec (blen b) off) as [H|H].
  - destruct (N.leb_spec (blen a + blen b) (blen a + off)); [reflexivity | lia].
  - destruct (N.leb_spec (blen a + blen b) (blen a + off)); [lia|].
    replace (blen a + blen b - (blen a + off)) with (blen b - off) by lia.
    f_equal. unfold blen. replace (N.to_nat (N.of_nat (length a) + off)) with (length a + N.to_nat off)%nat by lia.
    rewrite skipn_app, skipn_all2 by lia. cbn [app].
    replace (length a + N.to_nat off - length a)%nat with (N.to_nat off) by lia. reflexivity.
Qed.

(* the directory entry of the emitted bytes *)
Lemma out_dd st va sz :
  let L := pe_L st in
  wf_layout L -> l_size L = blen (pe_img st) -> pe_optdd st = le 4 va ++ le 4 sz -> va < 4294967296 -> sz < 4294967296 ->
  u32 (l_dd4 L) (pe_bytes st) = va /\ u32 (l_dd4 L + 4) (pe_bytes st) = sz.
Proof.
  intros L (Hsoo & Hdd & Htbl & Hsecs & Hnd & Hsum & Hcert & Hnrva & Htab) Hsz Ho Hva Hs.
  assert (Hss : l_soh L <= l_sum L) by (unfold l_sum; lia).
  assert (LA : blen (sub 0 (l_dd4 L) (pe_img st)) = l_dd4 L) by (apply sub_length; lia).
  unfold pe_bytes. fold L. rewrite Ho. unfold u32.
  split.
  - rewrite <- LA at 1. replace (blen (sub 0 (l_dd4 L) (pe_img st))) with (blen (sub 0 (l_dd4 L) (pe_img st)) + 0) by lia.
    rewrite sub_app_r. rewrite <- app_assoc. rewrite sub_app_l by (rewrite blen_le; lia).
    rewrite firstn_all2 by (pose proof (blen_le 4 va); unfold blen in *; lia).
    apply unle_le_small. exact Hva.
  - rewrite <- LA at 1. rewrite sub_app_r. rewrite <- app_assoc.
    replace 4 with (blen (le 4 va) + 0) at 1 by (rewrite blen_le; lia).
    rewrite sub_app_r. rewrite sub_app_l by (rewrite blen_le; lia).
    rewrite firstn_all2 by (pose proof (blen_le 4 sz); unfold blen in *; lia).
    apply unle_le_small. exact Hs.
Qed.

(* Parse reads from the emitted bytes of a signed state the layout of the image
   with the directory entry and the file size of that state *)
Theorem reparse_layout st :
  let L := pe_L st in let out := pe_bytes st in
  wf_layout L -> read_layout (pe_img st) = Some L -> dd_inv st -> blen out < 4294967296 ->
  l_dd4 L + 8 <= l_opt L + l_soo L ->   (* the optional header holds the entry (debug/pe refuses images where it does not) *)
  l_certsize L <= blen (pe_table st) -> (* the table still holds what the image came with *)
  read_layout out = Some (mkLayout (l_opt L) (l_soo L) (l_plus L) (l_soh L) (l_nrva L) (pe_va st) (pe_ddsize st) (l_secs L) (blen out)).
Proof.
  intros L out Hw HL (Hva & Hsz0 & Hspan & Hva8 & Hsz8 & Hopt & Htab) Hbound Hfit Htl.
  pose proof Hw as (Hsoo & Hdd & Htbl & Hsecs & Hnd & Hsum & Hcert & Hnrva & Htabw).
  destruct (read_layout_basic _ _ HL) as (Hsize & _).
  assert (Ho : blen (pe_optdd st) = 8) by (rewrite Hopt; apply optdd_len).
  assert (Hss : l_soh L <= l_sum L) by (unfold l_sum; lia).
  pose proof (pe_bytes_length st Hw Hsize Ho) as Hlen. fold L out in Hlen.
  destruct (out_dd st (pe_va st) (pe_ddsize st) Hw Hsize Hopt) as [E1 E2]; [fold out in Hspan; lia | fold out in Hspan; lia |].
  fold L out in E1, E2.
  (* the headers end below the hashed body *)
  assert (Hbody : l_soh L <= l_size L - l_certsize L) by lia.
  apply (read_layout_out (l_soh L) (pe_img st) out L); try assumption.
  - lia.
  - (* the output is at least as long as the image proper... *)
    rewrite Hlen, <- Hsize. lia.
  - intros q Hq Hn. apply (prefix_kept_thm st q Hw Hsize Ho); [fold L; lia | exact Hn].
Qed.

(* that layout is well formed *)
Lemma reparse_wf st :
  let L := pe_L st in let out := pe_bytes st in
  wf_layout L -> l_size L = blen (pe_img st) -> dd_inv st ->
  wf_layout (mkLayout (l_opt L) (l_soo L) (l_plus L) (l_soh L) (l_nrva L) (pe_va st) (pe_ddsize st) (l_secs L) (blen out)) /\
  pe_va st = l_size L - l_certsize L + pad8 (l_size L).
Proof.
  intros L out Hw Hsize (Hva & Hsz0 & Hspan & Hva8 & Hsz8 & Hopt & Htab).
  pose proof Hw as (Hsoo & Hdd & Htbl & Hsecs & Hnd & Hsum & Hcert & Hnrva & Htabw).
  assert (Ho : blen (pe_optdd st) = 8) by (rewrite Hopt; apply optdd_len).
  pose proof (pe_bytes_length st Hw Hsize Ho) as Hlen. fold L out in Hlen, Hspan.
  assert (Eva : pe_va st = l_size L - l_certsize L + pad8 (l_size L)) by lia.
  split; [|exact Eva].
  set (L' := mkLayout _ _ _ _ _ _ _ _ _).
  assert (Ehs : hashed_secs L' = hashed_secs L) by reflexivity.
  assert (Esum : l_sum L' = l_sum L) by reflexivity.
  assert (Edd : l_dd4 L' = l_dd4 L) by reflexivity.
  unfold wf_layout. rewrite Ehs, Esum, Edd. cbn [l_soo l_soh l_opt l_secs l_certsize l_size l_nrva l_va L'].
  split; [assumption|]. split; [assumption|]. split; [assumption|].
  split. { eapply Forall_impl; [|exact Hsecs]. cbn beta. intros s (H0 & H1 & H2). repeat split; try assumption. lia. }
  split; [assumption|]. split; [lia|]. split; [lia|]. split; [assumption|].
  right. repeat split; assumption.
Qed.

Lemma sub_all t : sub 0 (blen t) t = t.
Proof.
  unfold sub. destruct (N.leb_spec (blen t) 0) as [H|H].
  - destruct t; [reflexivity | unfold blen in H; cbn in H; lia].
  - cbn [N.to_nat skipn]. rewrite N.sub_0_r, N.min_id. unfold blen. rewrite Nat2N.id. apply firstn_all.
Qed.

(* what Parse makes of a stream, spelled out *)
Lemma parse_fields ok img st : pe_parse ok img = Ret st ->
  pe_img st = img /\ read_layout img = Some (pe_L st) /\ pe_va st = l_va (pe_L st) /\ pe_ddsize st = l_certsize (pe_L st) /\
  pe_optdd st = sub (l_dd4 (pe_L st)) 8 img /\ pe_table st = sub (l_va (pe_L st)) (l_certsize (pe_L st)) img.
Proof.
  unfold pe_parse. destruct (negb ok); [discriminate|].
  destruct (read_layout img) as [L|]; [|discriminate].
  repeat match goal with |- (if ?c then _ else _) = _ -> _ => destruct c; [discriminate|] end.
  intros H. injection H as <-. cbn. repeat split.
Qed.

(* Parse never keeps a truncated certificate table: what it holds has exactly the
   size the directory entry gives (a table that cannot be read in full is an error) *)
Theorem parse_table_complete ok img st : pe_parse ok img = Ret st -> blen (pe_table st) = pe_ddsize st.
Proof.
  unfold pe_parse. destruct (negb ok); [discriminate|].
  destruct (read_layout img) as [L|] eqn:HL; [|discriminate].
  destruct (read_layout_basic _ _ HL) as (Hsz & _).
  destruct (l_soo L =? 0); [discriminate|].
  destruct (l_soh L <? l_dd4 L + 8); [discriminate|].
  destruct (existsb _ _); [discriminate|].
  destruct (l_size L <? l_sum L); [discriminate|].
  destruct (l_size L - l_sum L <? l_certsize L); [discriminate|].
  destruct (N.eqb_spec (l_certsize L) 0) as [Hz|Hnz]; cbn [negb andb].
  - intros H. injection H as <-. cbn [pe_table pe_ddsize]. rewrite Hz.
    unfold sub. destruct (blen img <=? l_va L); [reflexivity|].
    rewrite N.min_0_l. cbn [N.to_nat firstn]. reflexivity.
  - destruct (N.ltb_spec (l_size L) (l_va L + l_certsize L)) as [|Hfit]; [discriminate|].
    intros H. injection H as <-. cbn [pe_table pe_ddsize]. apply sub_length. lia.
Qed.

(* the zero padding between the image proper and the table *)
Lemma out_padding st q :
  let L := pe_L st in
  wf_layout L -> l_size L = blen (pe_img st) -> blen (pe_optdd st) = 8 ->
  l_size L - l_certsize L <= q < l_size L - l_certsize L + pad8 (l_size L) ->
  nth (N.to_nat q) (pe_bytes st) x00 = x00.
Proof.
  intros L (Hsoo & Hdd & Htbl & Hsecs & Hnd & Hsum & Hcert & Hnrva & Htab) Hsz Ho Hq.
  assert (Hss : l_soh L <= l_sum L) by (unfold l_sum; lia).
  unfold pe_bytes. fold L.
  assert (LA : blen (sub 0 (l_dd4 L) (pe_img st)) = l_dd4 L) by (apply sub_length; lia).
  assert (LB : blen (sub (l_dd4 L + 8) (l_size L - l_certsize L - (l_dd4 L + 8)) (pe_img st)) = l_size L - l_certsize L - (l_dd4 L + 8))
    by (apply sub_length; lia).
  unfold blen in LA, LB, Ho.
  rewrite app_nth2 by lia. rewrite app_nth2 by lia. rewrite app_nth2 by lia.
  rewrite app_nth1 by (unfold zeros; rewrite repeat_length; lia).
  unfold zeros. apply nth_repeat.
Qed.

(* Parse of the emitted bytes: the state it yields lists the same table under the
   same directory entry and hashes the content of the image that was signed *)
Theorem reparse st :
  let L := pe_L st in let out := pe_bytes st in
  wf_layout L -> read_layout (pe_img st) = Some L -> dd_inv st -> blen out < 4294967296 ->
  l_dd4 L + 8 <= l_opt L + l_soo L -> l_certsize L <= blen (pe_table st) ->
  exists st', pe_parse true out = Ret st' /\
    pe_va st' = pe_va st /\ pe_ddsize st' = pe_ddsize st /\ pe_optdd st' = pe_optdd st /\ pe_table st' = pe_table st /\
    hash_content st' = Some (spec_content L (pe_img st)) /\ wf_layout (pe_L st').
Proof.
  intros L out Hw HL Hinv Hbound Hfit Htl.
  destruct (read_layout_basic _ _ HL) as (Hsize & _).
  pose proof (reparse_layout st Hw HL Hinv Hbound Hfit Htl) as HL'. fold L out in HL'.
  destruct (reparse_wf st Hw Hsize Hinv) as [Hw' Eva]. fold L out in Hw', Eva.
  set (L' := mkLayout _ _ _ _ _ _ _ _ _) in *.
  destruct (parse_wf out L' (conj HL' Hw')) as (st' & Hp & EL & Eimg & Hh).
  destruct (parse_fields _ _ _ Hp) as (_ & _ & Eva' & Esz' & Eopt' & Etab').
  rewrite EL in *. cbn [l_va l_certsize L'] in Eva', Esz', Etab'.
  destruct Hinv as (Hva & Hsz0 & Hspan & Hva8 & Hsz8 & Hopt & Htab).
  pose proof Hw as (Hsoo & Hdd & Htbl & Hsecs & Hnd & Hsum & Hcert & Hnrva & Htabw).
  assert (Ho : blen (pe_optdd st) = 8) by (rewrite Hopt; apply optdd_len).
  assert (Hss : l_soh L <= l_sum L) by (unfold l_sum; lia).
  assert (LA : blen (sub 0 (l_dd4 L) (pe_img st)) = l_dd4 L) by (apply sub_length; lia).
  assert (LB : blen (sub (l_dd4 L + 8) (l_size L - l_certsize L - (l_dd4 L + 8)) (pe_img st)) = l_size L - l_certsize L - (l_dd4 L + 8))
    by (apply sub_length; lia).
  exists st'. split; [exact Hp|]. split; [exact Eva'|]. split; [exact Esz'|]. split; [|split; [|split]].
  - (* the directory entry bytes *)
    rewrite Eopt'. change (l_dd4 L') with (l_dd4 L). unfold out, pe_bytes. fold L.
    rewrite <- LA at 1. replace (blen (sub 0 (l_dd4 L) (pe_img st))) with (blen (sub 0 (l_dd4 L) (pe_img st)) + 0) by lia.
    rewrite sub_app_r. rewrite sub_app_l by lia. unfold blen in Ho.
    apply firstn_all2. lia.
  - (* the table *)
    rewrite Etab'. unfold out, pe_bytes. fold L.
    rewrite !app_assoc.
    set (pre := ((sub 0 (l_dd4 L) (pe_img st) ++ pe_optdd st) ++ _) ++ _).
    assert (Hpre : blen pre = pe_va st).
    { unfold pre. rewrite !blen_app, blen_zeros, N2Nat.id, LA, LB, Ho. lia. }
    rewrite <- Hpre. replace (blen pre) with (blen pre + 0) by lia. rewrite sub_app_r.
    rewrite Htab. apply sub_all.
  - rewrite Hh. f_equal.
    apply (digest_invariant L (pe_img st) L' out Hw Hsize); try reflexivity.
    + cbn [l_certsize l_size L']. fold out in Hspan. lia.
    + cbn [l_certsize l_size L']. fold out in Hspan.
      destruct (N.eqb_spec (l_certsize L) 0) as [Hz|Hnz]; [lia|].
      destruct Htabw as [?|(Hv & Hv8 & Hc8)]; [contradiction|]. unfold pad8 in *. lia.
    + cbn [l_size L']. fold out in Hspan. lia.
    + intros q Hq Hn. apply (prefix_kept_thm st q Hw Hsize Ho); [fold L; exact Hq | exact Hn].
    + intros q Hq. apply (out_padding st q Hw Hsize Ho). fold L.
      destruct (N.eqb_spec (l_certsize L) 0) as [Hz|Hnz]; lia.
  - rewrite EL. exact Hw'.
Qed.

(* ---- end to end: parse, sign any number of times, serialise, parse again ---- *)
Lemma sub_len0 off img : sub off 0 img = [].
Proof. unfold sub. destruct (blen img <=? off); [reflexivity|]. rewrite N.min_0_l. reflexivity. Qed.

(* the state Parse yields for a well-formed image *)
Lemma parsed_state img L st0 : wf_image img L -> pe_parse true img = Ret st0 ->
  pe_L st0 = L /\ pe_img st0 = img /\ blen (pe_optdd st0) = 8 /\ pe_ddsize st0 = l_certsize L /\ pe_va st0 = l_va L /\
  blen (pe_table st0) = l_certsize L /\ l_size L = blen img /\
  pe_optdd st0 = sub (l_dd4 L) 8 img /\ hash_content st0 = Some (spec_content L img).
Proof.
  intros [HL Hw] Hp. destruct (parse_fields _ _ _ Hp) as (Ei & EL & Eva & Esz & Eo & Et).
  rewrite HL in EL. injection EL as EL. rewrite <- EL in *.
  pose proof Hw as (Hsoo & Hdd & Htbl & Hsecs & Hnd & Hsum & Hcert & Hnrva & Htab).
  destruct (read_layout_basic _ _ HL) as (Hsize & _).
  assert (Hss : l_soh L <= l_sum L) by (unfold l_sum; lia).
  destruct (parse_wf img L (conj HL Hw)) as (st1 & Hp1 & _ & _ & Hh). rewrite Hp in Hp1. injection Hp1 as <-.
  repeat split; try assumption; try reflexivity.
  - rewrite Eo. apply sub_length. lia.
  - rewrite Et. destruct Htab as [Hz|(Hv & _)]; [rewrite Hz, sub_len0; reflexivity | apply sub_length; lia].
Qed.

Lemma blen_flat_entries l : blen (flat_map entry_of l) = total_entries l.
Proof.
  induction l as [|x l IH]; [reflexivity|]. cbn [flat_map]. rewrite blen_app, IH.
  unfold total_entries. reflexivity.
Qed.

(* an image without signatures, signed once or more: the serialisation parses to
   an image that lists exactly the new entries behind the padded end of the old
   file and whose digest content is that of the image that was signed *)
Theorem resign_unsigned img L st0 b blobs :
  wf_image img L -> l_certsize L = 0 -> pe_parse true img = Ret st0 ->
  l_dd4 L + 8 <= l_opt L + l_soo L ->
  l_size L + 8 + total_entries (b :: blobs) < 4294967296 ->
  Forall (fun x => 8 + blen x < 4294967296) (b :: blobs) ->
  let st := fold_left append_signature (b :: blobs) st0 in
  exists st', pe_parse true (pe_bytes st) = Ret st' /\
    pe_table st' = flat_map entry_of (b :: blobs) /\
    pe_va st' = l_size L + pad8 (l_size L) /\ pe_ddsize st' = blen (flat_map entry_of (b :: blobs)) /\
    hash_content st' = hash_content st0 /\ wf_layout (pe_L st').
Proof.
  intros Hwf Hc0 Hp Hfit Hb Hall st.
  destruct (parsed_state img L st0 Hwf Hp) as (EL & Ei & Ho & Esz & Eva & Etl & Hsize & _ & Hh).
  destruct Hwf as [HL Hw].
  assert (Ht0 : pe_table st0 = []) by (destruct (pe_table st0); [reflexivity | unfold blen in Etl; cbn in Etl; lia]).
  destruct (signed_from_unsigned st0 b blobs) as (Hinv & Hva & Htab & H8); try (rewrite EL; assumption); try assumption.
  { rewrite EL, Ei. exact Hsize. }
  { rewrite Esz. exact Hc0. }
  fold st in Hinv, Hva, Htab, H8. rewrite EL in Hva.
  destruct (table_after (b :: blobs) st0) as (TL & TI & _). fold st in TL, TI.
  assert (Hlen : blen (pe_bytes st) < 4294967296).
  { destruct Hinv as (_ & _ & Hspan & _ & _ & _ & Hts). rewrite <- Hspan, Hva, Hts, Htab.
    clear -Hb. pose proof (pad8_lt (l_size L)).
    rewrite blen_flat_entries. lia. }
  destruct (reparse st) as (st' & Hp' & E1 & E2 & E3 & E4 & E5 & E6).
  - rewrite TL, EL. exact Hw.
  - rewrite TL, TI, EL, Ei. exact HL.
  - exact Hinv.
  - exact Hlen.
  - rewrite TL, EL. exact Hfit.
  - rewrite TL, EL, Hc0. lia.
  - exists st'. split; [exact Hp'|]. split; [rewrite E4; exact Htab|]. split; [rewrite E1; exact Hva|].
    split. { rewrite E2. destruct Hinv as (_ & _ & _ & _ & _ & _ & Hts). rewrite Hts, Htab. reflexivity. }
    split; [|exact E6]. rewrite E5, TL, TI, EL, Ei, Hh. reflexivity.
Qed.

(* an image that already carries a table (as Parse reads it) satisfies the directory invariant *)
Lemma sub_split off a b img : off + a + b <= blen img -> sub off (a + b) img = sub off a img ++ sub (off + a) b img.
Proof.
  intros H. rewrite !sub_gather by lia. rewrite nseq_app, gather_app. reflexivity.
Qed.
Lemma parsed_dd_inv img L st0 : wf_image img L -> l_certsize L <> 0 -> pe_parse true img = Ret st0 ->
  l_dd4 L + 8 <= l_opt L + l_soo L -> 5 <= l_nrva L ->
  l_va L = u32 (l_dd4 L) img -> l_certsize L = u32 (l_dd4 L + 4) img ->
  dd_inv st0.
Proof.
  intros Hwf Hnz Hp Hfit Hn Hrva Hrsz.
  destruct (parsed_state img L st0 Hwf Hp) as (EL & Ei & Ho & Esz & Eva & Etl & Hsize & Eo & _).
  destruct Hwf as [HL Hw]. pose proof Hw as (Hsoo & Hdd & Htbl & Hsecs & Hnd & Hsum & Hcert & Hnrva & Htab).
  destruct Htab as [?|(Hv & Hv8 & Hc8)]; [contradiction|].
  assert (Hss : l_soh L <= l_sum L) by (unfold l_sum; lia).
  unfold dd_inv. rewrite Eva, Esz.
  assert (Hlen : blen (pe_bytes st0) = l_size L).
  { rewrite pe_bytes_length by (rewrite ?EL, ?Ei; assumption). rewrite EL, Etl. unfold pad8. lia. }
  split; [lia|]. split; [exact Hnz|]. split; [rewrite Hlen; exact Hv|]. split; [exact Hv8|]. split; [exact Hc8|].
  split; [|symmetry; exact Etl].
  rewrite Eo. change 8 with (4 + 4). rewrite sub_split by lia.
  rewrite Hrva, Hrsz. unfold u32. f_equal; symmetry; apply le_unle_k.
  - pose proof (sub_length (l_dd4 L) 4 img ltac:(lia)) as H. unfold blen in H. lia.
  - pose proof (sub_length (l_dd4 L + 4) 4 img ltac:(lia)) as H. unfold blen in H. lia.
Qed.

(* the directory entry of the layout is what the header holds *)
Lemma read_layout_dd img L : read_layout img = Some L -> l_soo L <> 0 -> 5 <= l_nrva L -> l_dd4 L + 8 <= l_opt L + l_soo L ->
  l_va L = u32 (l_dd4 L) img /\ l_certsize L = u32 (l_dd4 L + 4) img.
Proof.
  unfold read_layout.
  destruct (N.ltb_spec (blen img) 96) as [|H96]; [discriminate|].
  set (e := u32 60 img).
  destruct (negb (u16 0 img =? 23117)); [discriminate|].
  destruct (N.ltb_spec (blen img) (e + 24)) as [|He]; [discriminate|].
  destruct (negb (u32 e img =? 17744)); [discriminate|].
  set (nsec := u16 (e + 6) img). set (soo := u16 (e + 20) img).
  destruct (N.ltb_spec (blen img) (e + 24 + soo + 40 * nsec)) as [|Hend]; [discriminate|].
  destruct (N.eqb_spec soo 0) as [Hz|Hnz].
  { intros H. injection H as <-. cbn [l_soo]. intros X. contradiction. }
  destruct (negb _); [discriminate|].
  set (plus := u16 (e + 24) img =? 523). set (ddoff := if plus then 112 else 96).
  destruct (N.ltb_spec soo ddoff) as [|Hdd]; [discriminate|].
  intros H. injection H as <-. unfold l_dd4. cbn [l_soo l_nrva l_opt l_plus l_va l_certsize].
  intros _ Hn Hfit.
  assert (Edd4 : e + 24 + (if plus then 144 else 128) = e + 24 + ddoff + 32) by (unfold ddoff; destruct plus; lia).
  rewrite Edd4 in *.
  assert (Eh : (5 <=? u32 (e + 24 + ddoff - 4) img) && (ddoff + 40 <=? soo) = true).
  { apply andb_true_iff. split; apply N.leb_le; lia. }
  rewrite Eh. split; reflexivity.
Qed.

(* an image that already carries signatures, signed again any number of times *)
Theorem resign_signed img L st0 blobs :
  wf_image img L -> l_certsize L <> 0 -> pe_parse true img = Ret st0 ->
  l_dd4 L + 8 <= l_opt L + l_soo L ->
  blen img + total_entries blobs < 4294967296 ->
  Forall (fun x => 8 + blen x < 4294967296) blobs ->
  let st := fold_left append_signature blobs st0 in
  exists st', pe_parse true (pe_bytes st) = Ret st' /\
    pe_table st' = pe_table st0 ++ flat_map entry_of blobs /\ pe_va st' = l_va L /\
    hash_content st' = hash_content st0 /\ wf_layout (pe_L st').
Proof.
  intros Hwf Hnz Hp Hfit Hb Hall st.
  destruct (parsed_state img L st0 Hwf Hp) as (EL & Ei & Ho & Esz & Eva & Etl & Hsize & _ & Hh).
  pose proof Hwf as [HL Hw]. pose proof Hw as (Hsoo & _ & _ & _ & _ & _ & _ & Hnrva & Htabw).
  destruct (read_layout_dd img L HL Hsoo Hnrva Hfit) as [Rva Rsz].
  pose proof (parsed_dd_inv img L st0 Hwf Hnz Hp Hfit Hnrva Rva Rsz) as Hinv0.
  assert (Hlen0 : blen (pe_bytes st0) = blen img).
  { destruct Hinv0 as (_ & _ & Hspan & _). rewrite <- Hspan, Eva, Esz.
    destruct Htabw as [?|(Hv & _)]; [contradiction | lia]. }
  destruct (history_inv blobs st0) as [Hinv Hva]; try assumption.
  { rewrite EL. exact Hw. } { rewrite EL, Ei. exact Hsize. } { rewrite Hlen0. exact Hb. }
  fold st in Hinv, Hva.
  destruct (table_after blobs st0) as (TL & TI & TT). fold st in TL, TI, TT.
  assert (Hlen : blen (pe_bytes st) < 4294967296).
  { destruct Hinv as (_ & _ & Hspan & _ & _ & _ & Hts). rewrite <- Hspan, Hva, Hts, TT, blen_app, blen_flat_entries, Eva, Etl.
    destruct Htabw as [?|(Hv & _)]; [contradiction | lia]. }
  destruct (reparse st) as (st' & Hp' & E1 & E2 & E3 & E4 & E5 & E6).
  - rewrite TL, EL. exact Hw.
  - rewrite TL, TI, EL, Ei. exact HL.
  - exact Hinv.
  - exact Hlen.
  - rewrite TL, EL. exact Hfit.
  - rewrite TL, EL, TT, blen_app, Etl. lia.
  - exists st'. split; [exact Hp'|]. split; [rewrite E4; exact TT|]. split; [rewrite E1, Hva; exact Eva|].
    split; [|exact E6]. rewrite E5, TL, TI, EL, Ei, Hh. reflexivity.
Qed.

(* ---- Bytes() of a freshly parsed image ---- *)
(* the image itself, followed by zero padding to a multiple of 8 when it carries no table *)
Theorem bytes_of_parsed img L st0 : wf_image img L -> pe_parse true img = Ret st0 ->
  pe_bytes st0 = img ++ zeros (N.to_nat (if l_certsize L =? 0 then pad8 (l_size L) else 0)).
Proof.
  intros Hwf Hp. destruct (parsed_state img L st0 Hwf Hp) as (EL & Ei & Ho & Esz & Eva & Etl & Hsize & Eo & _).
  destruct (parse_fields _ _ _ Hp) as (_ & _ & _ & _ & _ & Et). rewrite EL in Et.
  destruct Hwf as [HL Hw]. pose proof Hw as (Hsoo & Hdd & Htbl & Hsecs & Hnd & Hsum & Hcert & Hnrva & Htab).
  assert (Hss : l_soh L <= l_sum L) by (unfold l_sum; lia).
  unfold pe_bytes. rewrite EL, Ei, Eo, Et.
  set (body := l_size L - l_certsize L).
  assert (Himg : img = sub 0 (l_dd4 L) img ++ sub (l_dd4 L) 8 img ++ sub (l_dd4 L + 8) (body - (l_dd4 L + 8)) img ++ sub body (l_certsize L) img).
  { rewrite <- (sub_all img) at 1. rewrite <- Hsize.
    replace (l_size L) with (l_dd4 L + (8 + ((body - (l_dd4 L + 8)) + l_certsize L))) by (subst body; lia).
    rewrite sub_split by (subst body; lia). f_equal.
    rewrite N.add_0_l. rewrite sub_split by (subst body; lia). f_equal.
    rewrite sub_split by (subst body; lia). f_equal. f_equal. subst body. lia. }
  destruct (N.eqb_spec (l_certsize L) 0) as [Hz|Hnz].
  - rewrite Hz, !sub_len0, app_nil_r in *. rewrite Himg at 4. rewrite <- !app_assoc.
    subst body. rewrite Hz, N.sub_0_r. reflexivity.
  - destruct Htab as [?|(Hv & Hv8 & Hc8)]; [contradiction|].
    assert (Epad : pad8 (l_size L) = 0) by (unfold pad8; lia).
    rewrite Epad. cbn [N.to_nat zeros repeat app]. rewrite app_nil_r.
    replace (l_va L) with body by (subst body; lia). symmetry. exact Himg.
Qed.
