(* Proofs/P7Safety.v -- C13: parsing and verifying untrusted signatures and
   images always ends in a value or an error; loops are bounded by the input. *)
From Coq Require Import Bool List NArith ZArith Lia Arith.
From Coq.Strings Require Import Byte.
From GoUefi Require Import Base.Bytes Base.Outcome Base.Reader Base.Der Base.Sha256 Model.WinCert Model.Pkcs7
  Model.PE Model.PEVerify Proofs.DerProofs Proofs.P7Proofs Proofs.SafetyProofs.
Import ListNotations.
Local Open Scope N_scope.

Lemma E_returns {A} n (o : option A) : returns (E n o) = true.
Proof. destruct o; reflexivity. Qed.

Ltac ret_step :=
  match goal with
  | |- returns (bind _ _) = true => apply bind_returns; [|intros]
  | |- returns (E _ _) = true => apply E_returns
  | |- returns (Ret _) = true => reflexivity
  | |- returns (Err _) = true => reflexivity
  | |- returns (match ?x with (_, _) => _ end) = true => destruct x
  | |- returns (if ?c then _ else _) = true => destruct c
  | |- returns (match ?x with Some _ => _ | None => _ end) = true => destruct x
  end.

Section S.
Variable utctime_ok : bytes -> bool.
Variable x509_ok : bytes -> bool.
Variable rsa_ok : N -> bytes -> bytes -> bool.

Lemma parse_alg_id_returns s : returns (parse_alg_id s) = true.
Proof. unfold parse_alg_id. repeat ret_step. Qed.
Lemma has_content_info_returns s : returns (has_content_info s) = true.
Proof. unfold has_content_info. repeat ret_step. Qed.
Lemma parse_content_info_returns s : returns (parse_content_info s) = true.
Proof. unfold parse_content_info. repeat ret_step. Qed.
Lemma attr_step_returns a s : returns (attr_step utctime_ok a s) = true.
Proof. unfold attr_step. repeat ret_step. Qed.
Lemma attrs_loop_returns f : forall a s, returns (attrs_loop utctime_ok f a s) = true.
Proof.
  induction f as [|f IH]; intros a s; cbn [attrs_loop]; destruct (is_nilb s); try reflexivity.
  apply bind_returns; [apply attr_step_returns|]. intros [a' r]. apply IH.
Qed.
Lemma parse_attributes_returns s : returns (parse_attributes utctime_ok s) = true.
Proof.
  unfold parse_attributes. apply bind_returns; [apply E_returns|]. intros [[raw|] rest]; [|reflexivity].
  apply bind_returns; [apply attrs_loop_returns|]. reflexivity.
Qed.
Lemma parse_signer_returns s : returns (parse_signer utctime_ok s) = true.
Proof.
  unfold parse_signer.
  repeat first [apply parse_alg_id_returns | apply parse_attributes_returns | ret_step].
Qed.
Lemma signers_loop_returns f : forall s, returns (signers_loop utctime_ok f s) = true.
Proof.
  induction f as [|f IH]; intros s; cbn [signers_loop]; destruct (is_nilb s); try reflexivity.
  apply bind_returns; [apply parse_signer_returns|]. intros [si r].
  apply bind_returns; [apply IH|]. reflexivity.
Qed.
Lemma parse_signed_data_returns s : returns (parse_signed_data utctime_ok x509_ok s) = true.
Proof.
  unfold parse_signed_data.
  repeat first [apply parse_alg_id_returns | apply parse_content_info_returns | apply signers_loop_returns | ret_step].
Qed.
Theorem parse_pkcs7_returns b : returns (parse_pkcs7 utctime_ok x509_ok b) = true.
Proof.
  unfold parse_pkcs7. apply bind_returns; [apply has_content_info_returns|]. intros hci.
  apply bind_returns; [|intros; apply parse_signed_data_returns].
  destruct hci; [|reflexivity]. apply bind_returns; [apply parse_content_info_returns|reflexivity].
Qed.
Theorem parse_authenticode_returns b : returns (parse_authenticode utctime_ok x509_ok b) = true.
Proof.
  unfold parse_authenticode. apply bind_returns; [apply parse_pkcs7_returns|]. intros p.
  repeat first [apply parse_alg_id_returns | ret_step].
Qed.
Theorem authenticode_verify_returns a c d : returns (authenticode_verify rsa_ok a c d) = true.
Proof. unfold authenticode_verify. repeat ret_step. apply verify_returns. Qed.

(* the loops never run out of fuel: iterations are bounded by the input length *)
Lemma read_asn1_shorter tag s v rest : read_asn1 tag s = Some (v, rest) -> (length rest < length s)%nat.
Proof.
  intros H. apply read_asn1_canonical in H. subst. unfold add_asn1. cbn [app length]. rewrite !app_length. lia.
Qed.

Lemma attr_step_shorter a s a' r : attr_step utctime_ok a s = Ret (a', r) -> (length r < length s)%nat.
Proof.
  unfold attr_step. intros H. apply bind_ret_inv in H as ([body rest] & H1 & H). apply E_inv in H1.
  apply read_asn1_shorter in H1.
  apply bind_ret_inv in H as ([o body'] & _ & H). apply bind_ret_inv in H as ([v x] & _ & H).
  destruct (oid_eqb o OID_attr_messageDigest).
  { apply bind_ret_inv in H as ([d y] & _ & H). injection H as _ <-. exact H1. }
  destruct (oid_eqb o OID_attr_contentType).
  { apply bind_ret_inv in H as ([d y] & _ & H). injection H as _ <-. exact H1. }
  destruct (oid_eqb o OID_attr_signingTime).
  { apply bind_ret_inv in H as ([d y] & _ & H). destruct (utctime_ok d); [|discriminate]. injection H as _ <-. exact H1. }
  injection H as _ <-. exact H1.
Qed.

Theorem attrs_loop_fuel f : forall a s, (length s <= f)%nat -> attrs_loop utctime_ok f a s <> Err 97.
Proof.
  induction f as [|f IH]; intros a s Hf; cbn [attrs_loop].
  - destruct s; [discriminate|cbn in Hf; lia].
  - destruct (is_nilb s); [discriminate|].
    destruct (attr_step utctime_ok a s) as [[a' r]|e| |] eqn:E; cbn [bind]; try discriminate.
    + apply IH. apply attr_step_shorter in E. lia.
    + intros HH. injection HH as ->. revert E. unfold attr_step.
      repeat match goal with
      | |- context [E ?n ?o] => destruct o as [[? ?]|]; cbn [E of_option bind]; try discriminate
      | |- context [if ?c then _ else _] => destruct c; try discriminate
      end.
Qed.

Lemma parse_signer_shorter s si rest : parse_signer utctime_ok s = Ret (si, rest) -> (length rest < length s)%nat.
Proof.
  unfold parse_signer. intros H. apply bind_ret_inv in H as ([body r0] & H0 & H). apply E_inv in H0.
  apply read_asn1_shorter in H0.
  repeat (apply bind_ret_inv in H as ([? ?] & _ & H)). injection H as _ <-. exact H0.
Qed.
End S.

(* ---- the image side ---- *)
Theorem pe_parse_returns pe_ok img : returns (pe_parse pe_ok img) = true.
Proof. unfold pe_parse. repeat ret_step. Qed.

Lemma signatures_loop_returns f : forall t, returns (signatures_loop f t) = true.
Proof.
  induction f as [|f IH]; intros t; cbn [signatures_loop]; destruct (blen t <=? 8); try reflexivity.
  apply bind_returns; [apply read_wincert_returns|]. intros [w rest].
  apply bind_returns; [apply IH|]. reflexivity.
Qed.
Theorem pe_signatures_returns st : returns (pe_signatures st) = true.
Proof. apply signatures_loop_returns. Qed.

(* every WIN_CERTIFICATE consumes at least its 8-byte header: the walk terminates *)
Theorem signatures_loop_fuel f : forall t, (length t <= f)%nat -> signatures_loop f t <> Err 98.
Proof.
  induction f as [|f IH]; intros t Hf; cbn [signatures_loop].
  - destruct (N.leb_spec (blen t) 8); [discriminate|]. unfold blen in *. lia.
  - destruct (N.leb_spec (blen t) 8); [discriminate|].
    destruct (read_wincert t) as [[w rest]|e| |] eqn:E; cbn [bind]; try discriminate.
    + apply WinCertProofs.read_wincert_inv in E as [-> (H1 & _)].
      assert (Hl : (length (skipn (N.to_nat (pad8 (wc_length w))) rest) <= f)%nat).
      { rewrite skipn_length. unfold write_wincert in Hf. rewrite !app_length, !le_length in Hf. lia. }
      specialize (IH _ Hl). destruct (signatures_loop f _); cbn; congruence.
    + intros HH. injection HH as ->. revert E. unfold read_wincert.
      repeat match goal with
      | |- context [match takeN ?n ?x with _ => _ end] => destruct (takeN n x) as [[? ?]|]; try discriminate
      | |- context [if ?c then _ else _] => destruct c; try discriminate
      end.
Qed.

Theorem pe_verify_returns utctime_ok x509_ok rsa_ok st c :
  returns (pe_verify utctime_ok x509_ok rsa_ok st c) = true.
Proof.
  unfold pe_verify. apply bind_returns; [apply pe_signatures_returns|]. intros [|s sigs]; [reflexivity|].
  destruct (hash_content st); [|reflexivity].
  generalize (s :: sigs). intros l. induction l as [|w r IH]; [reflexivity|]. cbn [verify_sigs].
  apply bind_returns; [apply parse_authenticode_returns|]. intros a.
  apply bind_returns; [apply authenticode_verify_returns|]. intros [|]; [reflexivity|exact IH].
Qed.
