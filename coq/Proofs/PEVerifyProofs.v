(* Proofs/PEVerifyProofs.v -- C02: image verification succeeds only for a
   signature by that key over these bytes. *)
From Coq Require Import Bool List NArith ZArith Lia.
From Coq.Strings Require Import Byte.
From GoUefi Require Import Base.Bytes Base.Outcome Base.Reader Base.Der Base.Sha256 Model.WinCert Model.Pkcs7
  Model.PE Model.PEVerify Spec.P7Check Spec.PESignCheck Proofs.P7Proofs Proofs.PEProofs.
Import ListNotations.
Local Open Scope N_scope.

Section V.
Variable utctime_ok : bytes -> bool.
Variable x509_ok : bytes -> bool.
Variable rsa_ok : N -> bytes -> bytes -> bool.
Notation verify_sigs := (verify_sigs utctime_ok x509_ok rsa_ok).
Notation pe_verify := (pe_verify utctime_ok x509_ok rsa_ok).
Notation entry_valid := (entry_valid utctime_ok x509_ok rsa_ok).

Lemma authenticode_verify_true a c d :
  authenticode_verify rsa_ok a c d = Ret true ->
  oid_eqb (ac_alg a) OID_sha256 = true /\ ac_digest a = d /\ pkcs7_verify rsa_ok (ac_p7 a) c = Ret true.
Proof.
  unfold authenticode_verify. destruct (oid_eqb (ac_alg a) OID_sha256); [|discriminate]. cbn [negb].
  destruct (blen (ac_digest a) =? 32); [|discriminate]. cbn [negb].
  destruct (bytes_eqb d (ac_digest a)) eqn:B; [|discriminate]. cbn [negb].
  apply bytes_eqb_eq in B. subst. auto.
Qed.

Lemma verify_sigs_sound sigs c d :
  verify_sigs sigs c d = Ret true -> existsb (fun w => entry_valid w c d) sigs = true.
Proof.
  induction sigs as [|w r IH]; [discriminate|]. cbn [PEVerify.verify_sigs existsb]. intros H.
  apply bind_ret_inv in H as (a & Ha & H). apply bind_ret_inv in H as (ok & Hok & H).
  destruct ok.
  - apply orb_true_iff. left. unfold PESignCheck.entry_valid. rewrite Ha.
    apply authenticode_verify_true in Hok as (E1 & E2 & E3).
    rewrite E1, E2, bytes_eqb_refl. cbn [andb]. apply verify_sound. exact E3.
  - apply orb_true_iff. right. apply IH. exact H.
Qed.

(* success only if some certificate-table entry is an Authenticode signature
   whose embedded digest is the SHA-256 of exactly the bytes Hash covers, and
   whose SignedData is valid for the certificate in the sense of C04 *)
Theorem pe_verify_sound st c :
  pe_verify st c = Ret true ->
  exists sigs pre w a,
    pe_signatures st = Ret sigs /\ hash_content st = Some pre /\ In w sigs /\
    parse_authenticode utctime_ok x509_ok (wc_cert w) = Ret a /\
    oid_eqb (ac_alg a) OID_sha256 = true /\ ac_digest a = sha256 pre /\ spec_valid rsa_ok (ac_p7 a) c = true.
Proof.
  unfold PEVerify.pe_verify. intros H. apply bind_ret_inv in H as (sigs & Hs & H).
  destruct sigs as [|s sigs]; [discriminate|].
  destruct (hash_content st) as [pre|] eqn:Eh; [|discriminate].
  apply verify_sigs_sound in H. apply existsb_exists in H as (w & Hin & Hv).
  unfold PESignCheck.entry_valid in Hv.
  destruct (parse_authenticode utctime_ok x509_ok (wc_cert w)) as [a| | |] eqn:Ea; try discriminate.
  apply andb_true_iff in Hv as [Hv H3]. apply andb_true_iff in Hv as [H1 H2]. apply bytes_eqb_eq in H2.
  exists (s :: sigs), pre, w, a. repeat split; assumption.
Qed.

(* for a well-formed image the committed digest is that of the specification content *)
Theorem pe_verify_sound_wf img L st c :
  wf_image img L -> pe_parse true img = Ret st -> pe_verify st c = Ret true ->
  exists w a, parse_authenticode utctime_ok x509_ok (wc_cert w) = Ret a /\
              ac_digest a = sha256 (spec_content L img) /\ spec_valid rsa_ok (ac_p7 a) c = true.
Proof.
  intros Hw Hp Hv. destruct (parse_wf img L Hw) as (st' & Hp' & _ & _ & Hh).
  rewrite Hp in Hp'. injection Hp' as <-.
  apply pe_verify_sound in Hv as (sigs & pre & w & a & _ & Hpre & _ & Ha & _ & Hd & Hs).
  rewrite Hh in Hpre. injection Hpre as <-. eauto.
Qed.

End V.
