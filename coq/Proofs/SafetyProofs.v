(* Proofs/SafetyProofs.v -- C14 (and the decoder half of C13): every decoder
   model returns a value or an error for every input, never exhausts its fuel
   (iterations are bounded by the input length), and produces values no larger
   than its input. *)
From Coq Require Import Bool List NArith ZArith Lia Arith ZifyN ZifyNat ZifyBool.
From Coq.Strings Require Import Byte.
From GoUefi Require Import Base.Bytes Base.Outcome Base.Reader Model.Util Model.WinCert Model.SigList
  Model.Device Proofs.UtilProofs Proofs.WinCertProofs Proofs.SigListProofs.
Import ListNotations.
Ltac Zify.zify_post_hook ::= Z.div_mod_to_equations.
Local Open Scope N_scope.

Ltac crush_returns :=
  repeat match goal with
  | |- context [match ?x with _ => _ end] => destruct x
  | |- context [if ?c then _ else _] => destruct c
  end; try reflexivity.

(* ---------- totality ---------- *)
Lemma read_wincert_returns bs : returns (read_wincert bs) = true.
Proof. unfold read_wincert. crush_returns. Qed.

Lemma read_wincert_guid_returns bs : returns (read_wincert_guid bs) = true.
Proof.
  unfold read_wincert_guid. apply bind_returns; [apply read_wincert_returns|].
  intros [w r]. crush_returns.
Qed.

Lemma read_auth2_returns bs : returns (read_auth2 bs) = true.
Proof.
  unfold read_auth2. destruct (takeN 16 bs) as [[t r]|]; [|reflexivity].
  apply bind_returns; [apply read_wincert_guid_returns|]. intros [w r']. crush_returns.
Qed.

Lemma read_signature_database_returns bs : returns (read_signature_database bs) = true.
Proof. apply read_db_returns. Qed.

Lemma parse_utf16_returns bs : returns (parse_utf16 bs) = true.
Proof. unfold parse_utf16. crush_returns. Qed.

Lemma efistring_returns bs : returns (efistring_unmarshal bs) = true.
Proof. apply parse_utf16_returns. Qed.

Lemma parse_nodes_returns f : forall bs, returns (parse_nodes f bs) = true.
Proof.
  induction f as [|f IH]; intros bs; cbn [parse_nodes]; [reflexivity|].
  destruct (takeN 4 bs) as [[hb r]|]; [|reflexivity].
  destruct (parse_sub _ r); try reflexivity; [|apply IH].
  apply bind_returns; [apply IH|reflexivity].
Qed.

Lemma parse_load_option_returns bs : returns (parse_load_option bs) = true.
Proof.
  unfold parse_load_option. destruct (takeN 4 bs) as [[a r1]|]; [|reflexivity].
  destruct (takeN 2 r1) as [[l r2]|]; [|reflexivity].
  destruct (read_null_string r2) as [s r3].
  apply bind_returns; [apply parse_utf16_returns|]. intros d.
  apply bind_returns; [apply parse_nodes_returns|]. reflexivity.
Qed.

(* ---------- fuel is never exhausted: iterations <= input length ---------- *)
Lemma read_null_string_rest bs : (length (snd (read_null_string bs)) <= length bs)%nat.
Proof.
  assert (H : forall n bs0, (length bs0 <= n)%nat -> (length (snd (read_null_string bs0)) <= length bs0)%nat).
  { induction n as [|n IH]; intros [|a [|b r]] Hl; cbn [read_null_string snd length] in *; try lia.
    destruct (byte_eqb a x00 && byte_eqb b x00); cbn [snd]; [lia|].
    specialize (IH r ltac:(lia)). destruct (read_null_string r) as [o rest]. cbn [snd] in *. lia. }
  apply (H (length bs)). lia.
Qed.

Lemma takeN_rest n bs a r : takeN n bs = Some (a, r) -> (length r <= length bs)%nat /\ N.of_nat (length bs) = n + N.of_nat (length r).
Proof.
  intros H. apply takeN_inv in H as [-> L]. unfold blen in L. rewrite app_length. lia.
Qed.

Lemma parse_sub_rest h r :
  match parse_sub h r with
  | SNode _ r' | SSkip r' => (length r' <= length r)%nat
  | _ => True
  end.
Proof.
  unfold parse_sub, drained.
  repeat match goal with
  | |- context [if ?c then _ else _] => destruct c
  end;
  try match goal with
  | |- context [takeN ?n r] => destruct (takeN n r) as [[x r']|] eqn:E; [apply takeN_rest in E|]
  end; cbn [length]; try lia; try exact I.
  pose proof (read_null_string_rest r) as H. destruct (read_null_string r) as [s r']. cbn [snd] in H.
  destruct (parse_utf16 s); try exact I. exact H.
Qed.

Lemma parse_nodes_fuel f : forall bs, (length bs < f)%nat -> parse_nodes f bs <> Err 98.
Proof.
  induction f as [|f IH]; intros bs Hf; [lia|]. cbn [parse_nodes].
  destruct (takeN 4 bs) as [[hb r]|] eqn:E; [|discriminate].
  apply takeN_rest in E as [E1 E2].
  pose proof (parse_sub_rest (mkHdr (unle (slice 0 1 hb)) (unle (slice 1 1 hb)) (unle (slice 2 1 hb)) (unle (slice 3 1 hb))) r) as R.
  destruct (parse_sub _ r) as [n r'|r'| |]; try discriminate.
  - specialize (IH r' ltac:(lia)). destruct (parse_nodes f r'); cbn; congruence.
  - apply IH. lia.
Qed.

Theorem parse_device_path_fuel bs : parse_device_path bs <> Err 98.
Proof. apply parse_nodes_fuel. lia. Qed.

Lemma read_db_fuel f : forall bs, (length bs <= f)%nat -> read_db f bs <> Err 99.
Proof.
  induction f as [|f IH]; intros bs Hf; cbn [read_db].
  - destruct (read_list bs) as [|e|l rest] eqn:E; try discriminate.
    + intros H. injection H as ->. revert E. unfold read_list.
      destruct bs; [discriminate|cbn in Hf; lia].
    + apply read_list_inv in E as [-> (Ht & _)]. pose proof (enc_list_length l Ht) as L.
      unfold blen in L. rewrite app_length in Hf. lia.
  - destruct (read_list bs) as [|e|l rest] eqn:E; try discriminate.
    + intros H. injection H as ->. revert E. unfold read_list. destruct (is_nil bs); [discriminate|].
      repeat match goal with
      | |- context [match takeN ?n ?x with _ => _ end] => destruct (takeN n x) as [[? ?]|]; try discriminate
      | |- context [if ?c then _ else _] => destruct c; try discriminate
      end.
      destruct (split_sigs _ _ _) as [[? ?]|]; discriminate.
    + apply read_list_inv in E as [-> (Ht & _)]. pose proof (enc_list_length l Ht) as L.
      unfold blen in L. rewrite app_length in Hf.
      specialize (IH rest ltac:(lia)). destruct (read_db f rest); cbn; congruence.
Qed.

Theorem read_signature_database_fuel bs : read_signature_database bs <> Err 99.
Proof. apply read_db_fuel. lia. Qed.

(* ---------- decoded values are no larger than the input ---------- *)
Theorem sigdb_size bs db : read_signature_database bs = Ret db -> blen (enc_db db) = blen bs.
Proof. intros H. apply decode_strict in H as [-> _]. reflexivity. Qed.

Theorem auth2_size bs a rest : read_auth2 bs = Ret (a, rest) -> blen (write_auth2 a) + blen rest = blen bs.
Proof. intros H. apply read_auth2_inv in H as [-> _]. rewrite blen_app. reflexivity. Qed.

Lemma to_units_length bs : (length (to_units bs) <= length bs)%nat.
Proof.
  assert (H : forall n bs0, (length bs0 <= n)%nat -> (length (to_units bs0) <= length bs0)%nat).
  { induction n as [|n IH]; intros [|a [|b r]] Hl; cbn [to_units length] in *; try lia.
    specialize (IH r ltac:(lia)). lia. }
  apply (H (length bs)). lia.
Qed.

Lemma decode_units_length us : (length (utf16_decode_units us) <= length us)%nat.
Proof.
  assert (H : forall n us0, (length us0 <= n)%nat -> (length (utf16_decode_units us0) <= length us0)%nat).
  { induction n as [|n IH]; intros us0 Hl; destruct us0 as [|[x|] r]; cbn [utf16_decode_units length] in *; try lia.
    - destruct (is_surrogate x).
      + destruct r as [|[y|] r'].
        * cbn. lia.
        * destruct (is_low y); cbn [length].
          -- specialize (IH r' ltac:(cbn in Hl; lia)). cbn [length] in *. lia.
          -- specialize (IH (Some y :: r') ltac:(cbn in *; lia)). cbn [length] in *. lia.
        * specialize (IH (None :: r') ltac:(cbn in *; lia)). cbn [length] in *. lia.
      + specialize (IH r ltac:(lia)). cbn [length]. lia.
    - specialize (IH r ltac:(lia)). lia. }
  apply (H (length us)). lia.
Qed.

Theorem utf16_size bs : (length (utf16le_decode bs) <= length bs)%nat.
Proof. unfold utf16le_decode. pose proof (decode_units_length (to_units bs)). pose proof (to_units_length bs). lia. Qed.

Theorem boot_order_size bs : (length (decode_boot_order bs) <= length bs)%nat.
Proof.
  unfold decode_boot_order. rewrite map_length.
  assert (H : forall n bs0, (length bs0 <= n)%nat -> (length (boot_order_values bs0) <= length bs0)%nat).
  { induction n as [|n IH]; intros [|a [|b r]] Hl; cbn [boot_order_values length] in *; try lia.
    specialize (IH r ltac:(lia)). lia. }
  apply (H (length bs)). lia.
Qed.

Lemma parse_nodes_size f : forall bs ns, parse_nodes f bs = Ret ns -> (4 * length ns <= length bs)%nat.
Proof.
  induction f as [|f IH]; intros bs ns H; [discriminate|]. cbn [parse_nodes] in H.
  destruct (takeN 4 bs) as [[hb r]|] eqn:E; [|discriminate].
  apply takeN_rest in E as [E1 E2].
  pose proof (parse_sub_rest (mkHdr (unle (slice 0 1 hb)) (unle (slice 1 1 hb)) (unle (slice 2 1 hb)) (unle (slice 3 1 hb))) r) as R.
  destruct (parse_sub _ r) as [n r'|r'| |]; try discriminate.
  - apply bind_ret_inv in H as (ns' & H1 & H2). injection H2 as <-. apply IH in H1. cbn [length]. lia.
  - apply IH in H. lia.
  - injection H as <-. cbn. lia.
Qed.

Theorem device_path_size bs ns : parse_device_path bs = Ret ns -> (4 * length ns <= length bs)%nat.
Proof. apply parse_nodes_size. Qed.

Theorem supported_signatures_size bs : (16 * length (supported_signatures bs) <= length bs)%nat.
Proof.
  unfold supported_signatures.
  assert (H : forall n b, length (chunks16 n b) = n) by (induction n; intros; cbn; auto).
  rewrite H. pose proof (Nat.div_mod (length bs) 16). lia.
Qed.
