(* Proofs/DerProofs.v -- the reader and the builder of Base/Der.v are inverse:
   what the builder emits is read back, and whatever the reader accepts is the
   builder's (canonical) encoding of the value it returns. *)
From Coq Require Import Bool List NArith ZArith Lia Arith ZifyN ZifyNat ZifyBool.
From Coq.Strings Require Import Byte.
From GoUefi Require Import Base.Bytes Base.Reader Base.Der.
Import ListNotations.
Ltac Zify.zify_post_hook ::= Z.div_mod_to_equations.
Local Open Scope N_scope.

Lemma nbytes_range n : (1 <= nbytes n <= 4)%nat.
Proof. unfold nbytes. destruct (n <? 256), (n <? 65536), (n <? 16777216); lia. Qed.

Lemma nbytes_bound n : n < 4294967296 -> n < 256 ^ N.of_nat (nbytes n).
Proof.
  intros H. unfold nbytes.
  destruct (N.ltb_spec n 256); [|destruct (N.ltb_spec n 65536); [|destruct (N.ltb_spec n 16777216)]];
    cbn [N.of_nat Pos.of_succ_nat Pos.succ];
    [change (256 ^ 1) with 256 | change (256 ^ 2) with 65536 | change (256 ^ 3) with 16777216
    | change (256 ^ 4) with 4294967296]; lia.
Qed.

Lemma nbytes_minimal n : 128 <= n -> N.shiftr n ((N.of_nat (nbytes n) - 1) * 8) <> 0.
Proof.
  intros H. rewrite N.shiftr_div_pow2. unfold nbytes.
  destruct (N.ltb_spec n 256); [|destruct (N.ltb_spec n 65536); [|destruct (N.ltb_spec n 16777216)]];
    cbn [N.of_nat Pos.of_succ_nat Pos.succ];
    [change (2 ^ ((1 - 1) * 8)) with 1 | change (2 ^ ((2 - 1) * 8)) with 256
    | change (2 ^ ((3 - 1) * 8)) with 65536 | change (2 ^ ((4 - 1) * 8)) with 16777216]; lia.
Qed.

(* reading what the builder wrote *)
Theorem der_read_add tag body rest :
  tag < 256 -> N.land tag 31 <> 31 -> blen body < 4294967290 ->
  der_read (add_asn1 tag body ++ rest) = Some (mkElem tag body (add_asn1 tag body) rest).
Proof.
  intros Ht Hlow Hb. unfold add_asn1, enc_len. set (n := blen body) in *.
  destruct (N.ltb_spec n 128) as [Hs|Hs].
  - cbn [app der_read]. rewrite !b2n_n2b, !N.mod_small by lia.
    destruct (N.eqb_spec (N.land tag 31) 31); [contradiction|].
    destruct (N.ltb_spec n 128); [|lia].
    rewrite takeN_app by reflexivity. reflexivity.
  - pose proof (nbytes_range n) as Hr. pose proof (nbytes_bound n ltac:(lia)) as Hbd.
    pose proof (nbytes_minimal n Hs) as Hmin.
    cbn [app der_read]. rewrite !b2n_n2b, !N.mod_small by lia.
    destruct (N.eqb_spec (N.land tag 31) 31); [contradiction|].
    destruct (N.ltb_spec (128 + N.of_nat (nbytes n)) 128); [lia|].
    replace (128 + N.of_nat (nbytes n) - 128) with (N.of_nat (nbytes n)) by lia.
    destruct (N.eqb_spec (N.of_nat (nbytes n)) 0); [lia|].
    destruct (N.ltb_spec 4 (N.of_nat (nbytes n))); [lia|]. cbn [orb].
    rewrite <- (app_assoc (be (nbytes n) n) body rest).
    rewrite takeN_app by (unfold blen; rewrite be_length; reflexivity).
    rewrite unbe_be_small by exact Hbd.
    destruct (N.ltb_spec n 128); [lia|].
    destruct (N.eqb_spec (N.shiftr n ((N.of_nat (nbytes n) - 1) * 8)) 0); [contradiction|].
    destruct (N.leb_spec 4294967296 (2 + N.of_nat (nbytes n) + n)); [lia|].
    rewrite takeN_app by reflexivity. reflexivity.
Qed.

Corollary read_asn1_add tag body rest :
  tag < 256 -> N.land tag 31 <> 31 -> blen body < 4294967290 ->
  read_asn1 tag (add_asn1 tag body ++ rest) = Some (body, rest).
Proof.
  intros. unfold read_asn1. rewrite der_read_add by assumption. cbn [e_tag e_val e_rest].
  rewrite N.eqb_refl. reflexivity.
Qed.

Corollary read_asn1_element_add tag body rest :
  tag < 256 -> N.land tag 31 <> 31 -> blen body < 4294967290 ->
  read_asn1_element tag (add_asn1 tag body ++ rest) = Some (add_asn1 tag body, rest).
Proof.
  intros. unfold read_asn1_element. rewrite der_read_add by assumption. cbn [e_tag e_raw e_rest].
  rewrite N.eqb_refl. reflexivity.
Qed.

Lemma read_asn1_other tag tag' body rest :
  tag' < 256 -> N.land tag' 31 <> 31 -> blen body < 4294967290 -> tag <> tag' ->
  read_asn1 tag (add_asn1 tag' body ++ rest) = None.
Proof.
  intros. unfold read_asn1. rewrite der_read_add by assumption. cbn [e_tag].
  destruct (N.eqb_spec tag' tag); [congruence|reflexivity].
Qed.

Lemma peek_tag_add tag tag' body rest : tag' < 256 ->
  peek_tag tag (add_asn1 tag' body ++ rest) = (tag' =? tag).
Proof. intros H. unfold peek_tag, add_asn1. cbn [app]. rewrite b2n_n2b, N.mod_small by lia. reflexivity. Qed.

(* ---- whatever the reader accepts is canonical ---- *)
(* the value read back determines the length octets: by the number of length octets *)
Lemma be1_unbe a : be 1 (unbe [a]) = [a].
Proof. apply (be_unbe [a]). Qed.

Lemma long_len_canonical lb :
  (1 <= length lb <= 4)%nat -> 128 <= unbe lb ->
  N.shiftr (unbe lb) ((N.of_nat (length lb) - 1) * 8) <> 0 ->
  nbytes (unbe lb) = length lb.
Proof.
  intros Hl H128 Hsh. rewrite N.shiftr_div_pow2 in Hsh.
  pose proof (unbe_lt lb) as Hlt.
  destruct lb as [|a [|b [|c [|d [|e r]]]]]; cbn [length] in *; try lia.
  - (* 1 *) unfold nbytes. change (256 ^ N.of_nat 1) with 256 in Hlt.
    destruct (N.ltb_spec (unbe [a]) 256); [reflexivity|lia].
  - (* 2 *) change (256 ^ N.of_nat 2) with 65536 in Hlt.
    change (2 ^ ((N.of_nat 2 - 1) * 8)) with 256 in Hsh. unfold nbytes.
    destruct (N.ltb_spec (unbe [a; b]) 256); [lia|].
    destruct (N.ltb_spec (unbe [a; b]) 65536); [reflexivity|lia].
  - (* 3 *) change (256 ^ N.of_nat 3) with 16777216 in Hlt.
    change (2 ^ ((N.of_nat 3 - 1) * 8)) with 65536 in Hsh. unfold nbytes.
    destruct (N.ltb_spec (unbe [a; b; c]) 256); [lia|].
    destruct (N.ltb_spec (unbe [a; b; c]) 65536); [lia|].
    destruct (N.ltb_spec (unbe [a; b; c]) 16777216); [reflexivity|lia].
  - (* 4 *) change (256 ^ N.of_nat 4) with 4294967296 in Hlt.
    change (2 ^ ((N.of_nat 4 - 1) * 8)) with 16777216 in Hsh. unfold nbytes.
    destruct (N.ltb_spec (unbe [a; b; c; d]) 256); [lia|].
    destruct (N.ltb_spec (unbe [a; b; c; d]) 65536); [lia|].
    destruct (N.ltb_spec (unbe [a; b; c; d]) 16777216); [lia|reflexivity].
Qed.

Theorem der_read_canonical s e :
  der_read s = Some e ->
  s = e_raw e ++ e_rest e /\ e_raw e = add_asn1 (e_tag e) (e_val e) /\ e_tag e < 256.
Proof.
  unfold der_read. destruct s as [|t [|l r]]; try discriminate.
  destruct (N.land (b2n t) 31 =? 31); [discriminate|].
  pose proof (b2n_lt t) as Ht. pose proof (b2n_lt l) as Hl.
  destruct (N.ltb_spec (b2n l) 128) as [Hs|Hs].
  - destruct (takeN (b2n l) r) as [[v rest]|] eqn:E; [|discriminate].
    intros HH. injection HH as <-. apply takeN_inv in E as [-> L].
    cbn [e_raw e_rest e_tag e_val]. split; [reflexivity|]. split; [|exact Ht].
    unfold add_asn1, enc_len. rewrite L. destruct (N.ltb_spec (b2n l) 128); [|lia].
    rewrite !n2b_b2n. reflexivity.
  - set (ll := b2n l - 128) in *.
    destruct (N.eqb_spec ll 0) as [|Hll0]; [discriminate|].
    destruct (N.ltb_spec 4 ll) as [|Hll4]; [discriminate|]. cbn [orb].
    destruct (takeN ll r) as [[lb r2]|] eqn:E1; [|discriminate].
    apply takeN_inv in E1 as [-> L1].
    destruct (N.ltb_spec (unbe lb) 128) as [|H128]; [discriminate|].
    destruct (N.eqb_spec (N.shiftr (unbe lb) ((ll - 1) * 8)) 0) as [|Hsh]; [discriminate|].
    destruct (N.leb_spec 4294967296 (2 + ll + unbe lb)); [discriminate|].
    destruct (takeN (unbe lb) r2) as [[v rest]|] eqn:E2; [|discriminate].
    intros HH. injection HH as <-. apply takeN_inv in E2 as [-> L2].
    cbn [e_raw e_rest e_tag e_val]. split; [cbn [app]; rewrite <- ?app_assoc; reflexivity|]. split; [|exact Ht].
    unfold add_asn1, enc_len. rewrite L2.
    destruct (N.ltb_spec (unbe lb) 128); [lia|].
    assert (Hlen : (1 <= length lb <= 4)%nat) by (unfold blen in L1; lia).
    assert (Hnb : nbytes (unbe lb) = length lb).
    { apply long_len_canonical; [exact Hlen|exact H128|].
      replace (N.of_nat (length lb)) with ll by (unfold blen in L1; lia). exact Hsh. }
    rewrite Hnb. rewrite be_unbe.
    replace (128 + N.of_nat (length lb)) with (b2n l) by (unfold blen in L1; lia).
    rewrite !n2b_b2n. reflexivity.
Qed.

Corollary read_asn1_canonical tag s v rest :
  read_asn1 tag s = Some (v, rest) -> s = add_asn1 tag v ++ rest.
Proof.
  unfold read_asn1. destruct (der_read s) as [e|] eqn:E; [|discriminate].
  destruct (N.eqb_spec (e_tag e) tag) as [<-|]; [|discriminate].
  intros H. injection H as <- <-. apply der_read_canonical in E as (-> & -> & _). reflexivity.
Qed.

(* the element read is never longer than the input: allocations are bounded *)
Corollary der_read_size s e : der_read s = Some e -> blen (e_val e) + blen (e_rest e) < blen s.
Proof.
  intros H. apply der_read_canonical in H as (-> & E & _). rewrite E. unfold add_asn1.
  rewrite blen_app, blen_cons, blen_app.
  assert (1 <= blen (enc_len (blen (e_val e)))).
  { unfold enc_len. destruct (_ <? _); rewrite ?blen_cons; lia. }
  lia.
Qed.
