(* Proofs/SharedProofs.v -- C19: programs whose accesses never change the shared
   state return, under every interleaving with any number of other such
   programs, what they return alone; the operations of the three objects are
   such programs and compute the functions the other properties are about. *)
From Coq Require Import Bool List NArith Lia Arith.
From Coq.Strings Require Import Byte.
From GoUefi Require Import Base.Bytes Base.Outcome Base.Reader Base.Sha256 Model.Util Model.WinCert Model.SigList Model.SigDb
     Model.Pkcs7 Model.PE Model.PEVerify Model.Shared.
Import ListNotations.
Local Open Scope N_scope.

Section T.
Context {S R : Type}.
Implicit Types (t : tprog S R) (s : S).

Lemma tstep_ro t s : RO t -> fst (tstep s t) = s /\ RO (snd (tstep s t)).
Proof.
  intros H. destruct H as [r | A a k Ha Hk]; cbn.
  - split; [reflexivity | constructor].
  - specialize (Ha s). destruct (a s) as [x s'] eqn:E. cbn in *. subst s'. split; [reflexivity | apply Hk].
Qed.

Lemma exec_ro t : RO t -> forall s, snd (exec t s) = s.
Proof.
  induction 1 as [r | A a k Ha Hk IH]; intros s; cbn; [reflexivity|].
  specialize (Ha s). destruct (a s) as [x s'] eqn:E. cbn in Ha. subst s'. apply IH.
Qed.

Lemma exec_tstep t s : exec (snd (tstep s t)) (fst (tstep s t)) = exec t s.
Proof. destruct t as [r | A a k]; cbn; [reflexivity|]. destruct (a s) as [x s']. reflexivity. Qed.

Lemma solo_exec n : forall t s, exec (snd (solo n s t)) (fst (solo n s t)) = exec t s.
Proof.
  induction n as [|n IH]; intros t s; cbn; [reflexivity|].
  destruct (tstep s t) as [s' t'] eqn:E. rewrite IH.
  rewrite <- (exec_tstep t s), E. reflexivity.
Qed.

Lemma solo_ro n : forall t s, RO t -> fst (solo n s t) = s /\ RO (snd (solo n s t)).
Proof.
  induction n as [|n IH]; intros t s H; cbn; [split; [reflexivity | exact H]|].
  destruct (tstep_ro t s H) as [H1 H2]. destruct (tstep s t) as [s' t']. cbn in *. subst s'. apply IH, H2.
Qed.

(* whatever a goroutine's program has become after some of its accesses, if it
   holds a result then that is the result of the call made alone *)
Lemma solo_result n t s r : RO t -> result (snd (solo n s t)) = Some r -> r = fst (exec t s).
Proof.
  intros H Hr. pose proof (solo_exec n t s) as E. destruct (solo_ro n t s H) as [E1 _].
  rewrite E1 in E. destruct (snd (solo n s t)) as [r' | A a k]; cbn in Hr; [|discriminate].
  injection Hr as ->. rewrite <- E. reflexivity.
Qed.

(* given enough turns a call finishes, with the result and state of running alone *)
Lemma solo_finishes t : forall s, exists n, forall m, (n <= m)%nat ->
  solo m s t = (snd (exec t s), TDone (fst (exec t s))).
Proof.
  induction t as [r | A a k IH]; intros s.
  - exists O. intros m _. induction m as [|m IHm]; cbn; [reflexivity | exact IHm].
  - cbn [exec]. destruct (a s) as [x s'] eqn:E. destruct (IH x s') as [n Hn].
    exists (Datatypes.S n). intros m Hm. destruct m as [|m]; [lia|].
    cbn [solo tstep]. rewrite E. apply Hn. lia.
Qed.

Lemma nth_error_upd_same {X} (l : list X) : forall i x y, nth_error l i = Some y -> nth_error (upd i x l) i = Some x.
Proof. induction l as [|z l IH]; intros [|i] x y H; cbn in *; try discriminate; [reflexivity | eapply IH, H]. Qed.
Lemma nth_error_upd_other {X} (l : list X) : forall i j x, i <> j -> nth_error (upd i x l) j = nth_error l j.
Proof.
  induction l as [|z l IH]; intros [|i] [|j] x H; cbn; try reflexivity; try congruence.
  apply IH. congruence.
Qed.
Lemma Forall_upd {X} (P : X -> Prop) (l : list X) : forall i x, Forall P l -> P x -> Forall P (upd i x l).
Proof.
  induction l as [|z l IH]; intros [|i] x Hl Hx; cbn; try constructor; inversion Hl; subst; auto.
Qed.

(* the schedule theorem: any number of goroutines, any interleaving of accesses *)
Theorem sched_ro sigma : forall s (p : list (tprog S R)), Forall RO p ->
  fst (sched sigma s p) = s /\
  forall i t, nth_error p i = Some t ->
    nth_error (snd (sched sigma s p)) i = Some (snd (solo (count_occ Nat.eq_dec sigma i) s t)).
Proof.
  induction sigma as [|i0 rest IH]; intros s p Hp.
  - cbn. split; [reflexivity | intros i t H; exact H].
  - cbn [sched]. destruct (nth_error p i0) as [t0|] eqn:E0.
    + assert (H0 : RO t0) by (eapply Forall_forall; [exact Hp | eapply nth_error_In, E0]).
      destruct (tstep_ro t0 s H0) as [H1 H2]. destruct (tstep s t0) as [s' t0'] eqn:Et. cbn in H1, H2. subst s'.
      destruct (IH s (upd i0 t0' p) (Forall_upd _ _ _ _ Hp H2)) as [IH1 IH2].
      split; [exact IH1|]. intros i t Hi. cbn [count_occ].
      destruct (Nat.eq_dec i0 i) as [->|Hne].
      * rewrite E0 in Hi. injection Hi as <-. cbn [solo]. rewrite Et.
        apply IH2. eapply nth_error_upd_same, E0.
      * apply IH2. rewrite nth_error_upd_other by exact Hne. exact Hi.
    + destruct (IH s p Hp) as [IH1 IH2]. split; [exact IH1|]. intros i t Hi. cbn [count_occ].
      destruct (Nat.eq_dec i0 i) as [->|Hne]; [congruence | apply IH2, Hi].
Qed.

Theorem sched_results sigma s (p : list (tprog S R)) i t t' r :
  Forall RO p -> nth_error p i = Some t ->
  nth_error (snd (sched sigma s p)) i = Some t' -> result t' = Some r ->
  r = fst (exec t s).
Proof.
  intros Hp Hi Hi' Hr. destruct (sched_ro sigma s p Hp) as [_ H]. rewrite (H i t Hi) in Hi'.
  injection Hi' as <-. eapply solo_result; [|exact Hr].
  eapply Forall_forall; [exact Hp | eapply nth_error_In, Hi].
Qed.

(* any sequence of calls on one goroutine *)
Theorem run_seq_ro (ops : list (tprog S R)) : Forall RO ops -> forall s,
  run_seq ops s = (map (fun t => fst (exec t s)) ops, s).
Proof.
  induction 1 as [|t ops Ht _ IH]; intros s; cbn; [reflexivity|].
  pose proof (exec_ro t Ht s) as E. destruct (exec t s) as [r s']. cbn in E. subst s'.
  rewrite IH. reflexivity.
Qed.
End T.

(* ---- the operations are read-only ---- *)
Ltac ro := repeat (first [ apply RO_done | apply RO_act; [intros ?; reflexivity | intros ?] ]).

Section Img.
Variable utctime_ok : bytes -> bool.
Variable x509_ok : bytes -> bool.
Variable rsa_ok : N -> bytes -> bytes -> bool.

Lemma ro_bytes : RO op_bytes.  Proof. unfold op_bytes. ro. Qed.
Lemma ro_hash : RO op_hash.  Proof. unfold op_hash. ro. Qed.
Lemma ro_sigs : RO op_sigs.  Proof. unfold op_sigs. ro. Qed.
Lemma ro_verify c : RO (op_verify utctime_ok x509_ok rsa_ok c).
Proof.
  unfold op_verify. apply RO_act; [intros ?; reflexivity | intros t].
  destruct (signatures_loop (length t) t) as [[|w l]|e|e|e]; ro.
Qed.

Lemma image_op_ro t : image_op utctime_ok x509_ok rsa_ok t -> RO t.
Proof. intros [| | |c]; [apply ro_bytes | apply ro_hash | apply ro_sigs | apply ro_verify]. Qed.

(* ... and compute, on the state as the calls see it, the functions of Model/PE *)
Lemma exec_bytes s : exec op_bytes s = (IBytes (pe_bytes (view s)), s).
Proof. reflexivity. Qed.
Lemma exec_hash s : exec op_hash s = (IHash (option_map sha256 (hash_content (view s))), s).
Proof. reflexivity. Qed.
Lemma exec_sigs s : exec op_sigs s = (ISigs (pe_signatures (view s)), s).
Proof. reflexivity. Qed.
Lemma exec_verify c s :
  exec (op_verify utctime_ok x509_ok rsa_ok c) s = (IVerify (pe_verify utctime_ok x509_ok rsa_ok (view s) c), s).
Proof.
  unfold op_verify, pe_verify, pe_signatures. cbn [exec tbl_bytes view pe_table].
  destruct (signatures_loop (length (table_now s)) (table_now s)) as [[|w l]|e|e|e];
    cbn [exec bind hash_readat]; try reflexivity.
Qed.

(* a state a fresh Parse produces: cursors at 0, nothing consumed *)
Definition fresh (st : pestate) : istate := mkI st 0 0 0 0.
Lemma view_fresh st : view (fresh st) = st.
Proof. destruct st; reflexivity. Qed.
End Img.

Lemma ro_db_bytes : RO op_db_bytes.  Proof. unfold op_db_bytes. ro. Qed.
Lemma ro_db_sig_exists t sg : RO (op_db_sig_exists t sg).  Proof. unfold op_db_sig_exists. ro. Qed.
Lemma ro_db_list_exists l : RO (op_db_list_exists l).  Proof. unfold op_db_list_exists. ro. Qed.
Lemma ro_val_marshal : RO op_val_marshal.  Proof. unfold op_val_marshal. ro. Qed.
Lemma db_op_ro t : db_op t -> RO t.
Proof. intros [|a b|l]; [apply ro_db_bytes | apply ro_db_sig_exists | apply ro_db_list_exists]. Qed.
Lemma exec_db_bytes d : exec op_db_bytes d = (DBytes (enc_db d), d).  Proof. reflexivity. Qed.
Lemma exec_val_marshal b : exec op_val_marshal b = (buf_now b, b).  Proof. reflexivity. Qed.

Lemma ro_repeat_marshal n : Forall RO (repeat op_val_marshal n).
Proof. apply Forall_forall. intros x Hx. apply repeat_spec in Hx. subst. exact ro_val_marshal. Qed.
Lemma repeat_value n b : run_seq (repeat op_val_marshal n) b = (repeat (buf_now b) n, b).
Proof.
  rewrite run_seq_ro by apply ro_repeat_marshal. f_equal.
  induction n as [|n IH]; cbn [repeat map]; [reflexivity | rewrite IH; reflexivity].
Qed.
Lemma schedules_value sigma b n :
  let p := repeat op_val_marshal n in
  fst (sched sigma b p) = b /\
  forall i t' r, (i < n)%nat -> nth_error (snd (sched sigma b p)) i = Some t' -> result t' = Some r -> r = buf_now b.
Proof.
  intros p. pose proof (ro_repeat_marshal n) as Hp.
  split; [exact (proj1 (sched_ro sigma b p Hp))|].
  intros i t' r Hi Hi' Hr.
  assert (Hn : nth_error p i = Some op_val_marshal).
  { unfold p. clear -Hi. revert i Hi. induction n as [|n IH]; intros [|i] Hi; cbn; try lia; [reflexivity | apply IH; lia]. }
  exact (sched_results sigma b p i _ t' r Hp Hn Hi' Hr).
Qed.
Section ImgS.
Variable utctime_ok : bytes -> bool.
Variable x509_ok : bytes -> bool.
Variable rsa_ok : N -> bytes -> bytes -> bool.
Lemma schedules_image sigma s p : Forall (image_op utctime_ok x509_ok rsa_ok) p ->
  fst (sched sigma s p) = s /\
  forall i t t' r, nth_error p i = Some t -> nth_error (snd (sched sigma s p)) i = Some t' ->
    result t' = Some r -> r = fst (exec t s).
Proof.
  intros H.
  assert (Hp : Forall RO p) by (eapply Forall_impl; [|exact H]; exact (image_op_ro _ _ _)).
  split; [exact (proj1 (sched_ro sigma s p Hp))|].
  intros i t t' r Hi Hi' Hr. exact (sched_results sigma s p i t t' r Hp Hi Hi' Hr).
Qed.
Lemma repeat_image ops s : Forall (image_op utctime_ok x509_ok rsa_ok) ops ->
  run_seq ops s = (map (fun t => fst (exec t s)) ops, s).
Proof. intros H. apply run_seq_ro. eapply Forall_impl; [|exact H]. exact (image_op_ro _ _ _). Qed.
Lemma results_image s c :
  fst (exec op_bytes s) = IBytes (pe_bytes (view s)) /\
  fst (exec op_hash s) = IHash (option_map sha256 (hash_content (view s))) /\
  fst (exec op_sigs s) = ISigs (pe_signatures (view s)) /\
  fst (exec (op_verify utctime_ok x509_ok rsa_ok c) s) = IVerify (pe_verify utctime_ok x509_ok rsa_ok (view s) c).
Proof. rewrite exec_bytes, exec_hash, exec_sigs, exec_verify. repeat split. Qed.
End ImgS.
Lemma schedules_database sigma d p : Forall db_op p ->
  fst (sched sigma d p) = d /\
  forall i t t' r, nth_error p i = Some t -> nth_error (snd (sched sigma d p)) i = Some t' ->
    result t' = Some r -> r = fst (exec t d).
Proof.
  intros H.
  assert (Hp : Forall RO p) by (eapply Forall_impl; [|exact H]; exact db_op_ro).
  split; [exact (proj1 (sched_ro sigma d p Hp))|].
  intros i t t' r Hi Hi' Hr. exact (sched_results sigma d p i t t' r Hp Hi Hi' Hr).
Qed.
Lemma repeat_database ops d : Forall db_op ops -> run_seq ops d = (map (fun t => fst (exec t d)) ops, d).
Proof. intros H. apply run_seq_ro. eapply Forall_impl; [|exact H]. exact db_op_ro. Qed.

(* a parsed PKCS#7 object: verifying one certificate leaves the object as it was, so the
   verdict for another certificate cannot depend on it *)
Section P7S.
Variable rsa_ok : N -> bytes -> bytes -> bool.
Lemma p7_op_ro t : p7_op rsa_ok t -> RO t.
Proof. intros [c|c]; (apply RO_act; [intros ?; reflexivity | intros ?; apply RO_done]). Qed.
Lemma repeat_p7 ops p : Forall (p7_op rsa_ok) ops -> run_seq ops p = (map (fun t => fst (exec t p)) ops, p).
Proof. intros H. apply run_seq_ro. eapply Forall_impl; [|exact H]. exact p7_op_ro. Qed.
Lemma schedules_p7 sigma p pool : Forall (p7_op rsa_ok) pool ->
  fst (sched sigma p pool) = p /\
  forall i t t' r, nth_error pool i = Some t -> nth_error (snd (sched sigma p pool)) i = Some t' ->
    result t' = Some r -> r = fst (exec t p).
Proof.
  intros H.
  assert (Hp : Forall RO pool) by (eapply Forall_impl; [|exact H]; exact p7_op_ro).
  split; [exact (proj1 (sched_ro sigma p pool Hp))|].
  intros i t t' r Hi Hi' Hr. exact (sched_results sigma p pool i t t' r Hp Hi Hi' Hr).
Qed.
Lemma exec_p7_verify c p : exec (op_p7_verify rsa_ok c) p = (PVerify (pkcs7_verify rsa_ok p c), p).
Proof. reflexivity. Qed.
End P7S.

(* ---- the accidents the property names are visible in this model ---- *)
Definition toyL : layout := mkLayout 0 224 false 136 16 0 0 [] 200.
Definition toy : istate :=
  mkI (mkPE toyL (repeat x01 200) 0 0 (repeat x00 8) (repeat x02 16)) 0 0 0 0.

Lemma shared_readers_not_repeatable :
  let r := fst (run_seq [op_bytes_shared_readers; op_bytes_shared_readers] toy) in
  nth_error r 0 <> nth_error r 1.
Proof. vm_compute. discriminate. Qed.
Lemma consuming_signatures_not_repeatable :
  let r := fst (run_seq [op_sigs_consuming; op_sigs_consuming] toy) in
  nth_error r 0 <> nth_error r 1.
Proof. vm_compute. discriminate. Qed.
Lemma draining_encoder_not_repeatable :
  let d := [mkList CERT_SHA256 28 0 48 [] [mkSig CERT_SHA256 (repeat x01 32)]] in
  let r := fst (run_seq [op_db_bytes_draining; op_db_bytes_draining] d) in
  nth_error r 0 <> nth_error r 1.
Proof. vm_compute. discriminate. Qed.
Lemma pointer_receiver_not_repeatable :
  let r := fst (run_seq [op_val_marshal_ptr; op_val_marshal_ptr] (mkB (repeat x01 4) 0)) in
  nth_error r 0 <> nth_error r 1.
Proof. vm_compute. discriminate. Qed.
(* and two goroutines sharing the stored readers disagree with the sequential results *)
(* and two goroutines sharing the stored readers get results that depend on the schedule *)
Lemma shared_readers_schedule_dependent :
  let p := [op_bytes_shared_readers; op_bytes_shared_readers] in
  map result (snd (sched [0; 0; 0; 0; 0; 1; 1; 1; 1; 1]%nat toy p)) <>
  map result (snd (sched [1; 0; 0; 0; 0; 0; 1; 1; 1; 1]%nat toy p)).
Proof. vm_compute. discriminate. Qed.
