(* Proofs/SitesProofs.v -- accounting for the termination call sites that the
   translator regenerates from /repo's source (Generated/Sites.v). *)
From Coq Require Import Bool List String.
From GoUefi Require Import Generated.Sites.
Import ListNotations.
Local Open Scope string_scope.

Definition test_support (s : site) : bool := String.eqb (s_pkg s) "asntest".
Definition site_ok (s : site) : bool :=
  test_support s            (* test helper package, not library code *)
  || s_bufonly s            (* runs only if a write to a bytes.Buffer fails, which it never does *)
  || negb (s_reach s).      (* not reachable from any decoding entry point *)

Lemma sites_accounted : forallb site_ok generated_sites = true.
Proof. vm_compute. reflexivity. Qed.

Lemma sites_nonempty : (8 <= List.length generated_sites) /\ existsb s_reach generated_sites = true.
Proof. split; vm_compute; [repeat constructor|reflexivity]. Qed.

(* the signer's failure path (C15): SignPKCS7 contains no termination site *)
Definition in_fn (pkg fn : string) (s : site) : bool := String.eqb (s_pkg s) pkg && String.eqb (s_fn s) fn.
Lemma sign_pkcs7_no_site : existsb (in_fn "pkcs7" "SignPKCS7") generated_sites = false.
Proof. vm_compute. reflexivity. Qed.
