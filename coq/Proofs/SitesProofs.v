(* Proofs/SitesProofs.v -- accounting for the termination call sites that the
   translator regenerates from /repo's source (Generated/Sites.v). *)
From Coq Require Import Bool List String.
From GoUefi Require Import Generated.Sites.
Import ListNotations.
Local Open Scope string_scope.

Definition test_support (s : site) : bool := String.eqb (s_pkg s) "asntest".
Definition site_ok (s : site) : bool :=
  test_support s            (* test helper package, not library code *)
  || s_bufonly s            (* runs only if a write to a bytes.Buffer fails, which it never does *)
  || negb (s_reach s).      (* not reachable from any decoding entry point *)

Lemma sites_accounted : forallb site_ok generated_sites = true.
Proof. vm_compute. reflexivity. Qed.

Lemma sites_nonempty : (8 <= List.length generated_sites) /\ existsb s_reach generated_sites = true.
Proof. split; vm_compute; [repeat constructor|reflexivity]. Qed.

(* the signer's failure path (C15): SignPKCS7 contains no termination site *)
Definition in_fn (pkg fn : string) (s : site) : bool := String.eqb (s_pkg s) pkg && String.eqb (s_fn s) fn.
Definition sign_path_has_site : bool :=
  existsb (in_fn "pkcs7" "SignPKCS7") generated_sites ||
  existsb (in_fn "authenticode" "SignAuthenticode") generated_sites ||
  existsb (in_fn "authenticode" "PECOFFBinary.Sign") generated_sites ||
  existsb (in_fn "efivarfs" "Efivarfs.WriteSignedUpdate") generated_sites ||
  existsb (in_fn "efivarfs/fswrapper" "FSWrapper.WriteEfivarsWithGuid") generated_sites ||
  existsb (in_fn "efi/attributes" "WriteEfivarsWithGuid") generated_sites.
Lemma sign_path_no_site : sign_path_has_site = false.
Proof. vm_compute. reflexivity. Qed.
