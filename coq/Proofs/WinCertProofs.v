(* Proofs/WinCertProofs.v -- C10: descriptor and WIN_CERTIFICATE codecs. *)
From Coq Require Import Bool List NArith ZArith Lia Arith ZifyN ZifyNat ZifyBool.
From Coq.Strings Require Import Byte.
From GoUefi Require Import Base.Bytes Base.Outcome Base.Reader Model.Util Model.WinCert Proofs.UtilProofs.
Import ListNotations.
Ltac Zify.zify_post_hook ::= Z.div_mod_to_equations.
Local Open Scope N_scope.

(* ---------- EFI_TIME ---------- *)
Lemma write_time_length t : length (write_time t) = 16%nat.
Proof. unfold write_time. rewrite !app_length, !le_length. reflexivity. Qed.

Lemma write_read_time s : length s = 16%nat -> write_time (read_time s) = s.
Proof.
  intros H. do 16 (destruct s as [|? s]; [discriminate|]). destruct s; [|discriminate].
  unfold read_time, write_time, slice. cbn [skipn firstn t_year t_month t_day t_hour t_minute
    t_second t_pad1 t_nanosecond t_timezone t_daylight t_pad2].
  rewrite !le_unle_k by reflexivity. reflexivity.
Qed.

Lemma read_write_time t : wf_time t -> read_time (write_time t) = t.
Proof.
  intros (H1 & H2 & H3 & H4 & H5 & H6 & H7 & H8 & H9 & H10 & H11).
  unfold write_time.
  assert (forall k n, exists l, le k n = l /\ length l = k) as X
    by (intros; eexists; split; [reflexivity|apply le_length]).
  destruct (X 2%nat (t_year t)) as (a & Ea & La). destruct (X 1%nat (t_month t)) as (b & Eb & Lb).
  destruct (X 1%nat (t_day t)) as (c & Ec & Lc). destruct (X 1%nat (t_hour t)) as (d & Ed & Ld).
  destruct (X 1%nat (t_minute t)) as (e & Ee & Le). destruct (X 1%nat (t_second t)) as (f & Ef & Lf).
  destruct (X 1%nat (t_pad1 t)) as (g & Eg & Lg). destruct (X 4%nat (t_nanosecond t)) as (h & Eh & Lh).
  destruct (X 2%nat (t_timezone t)) as (i & Ei & Li). destruct (X 1%nat (t_daylight t)) as (j & Ej & Lj).
  destruct (X 1%nat (t_pad2 t)) as (k & Ek & Lk).
  rewrite Ea, Eb, Ec, Ed, Ee, Ef, Eg, Eh, Ei, Ej, Ek.
  do 2 (destruct a as [|? a]; [discriminate|]). destruct a; [|discriminate].
  do 1 (destruct b as [|? b]; [discriminate|]). destruct b; [|discriminate].
  do 1 (destruct c as [|? c]; [discriminate|]). destruct c; [|discriminate].
  do 1 (destruct d as [|? d]; [discriminate|]). destruct d; [|discriminate].
  do 1 (destruct e as [|? e]; [discriminate|]). destruct e; [|discriminate].
  do 1 (destruct f as [|? f]; [discriminate|]). destruct f; [|discriminate].
  do 1 (destruct g as [|? g]; [discriminate|]). destruct g; [|discriminate].
  do 4 (destruct h as [|? h]; [discriminate|]). destruct h; [|discriminate].
  do 2 (destruct i as [|? i]; [discriminate|]). destruct i; [|discriminate].
  do 1 (destruct j as [|? j]; [discriminate|]). destruct j; [|discriminate].
  do 1 (destruct k as [|? k]; [discriminate|]). destruct k; [|discriminate].
  unfold read_time, slice. cbn [app skipn firstn].
  rewrite <- Ea, <- Eb, <- Ec, <- Ed, <- Ee, <- Ef, <- Eg, <- Eh, <- Ei, <- Ej, <- Ek.
  rewrite !unle_le_small by (first [rewrite pow256_1 | rewrite pow256_2 | rewrite pow256_4]; assumption).
  destruct t; reflexivity.
Qed.

(* ---------- WIN_CERTIFICATE ---------- *)
Lemma read_wincert_inv bs w rest :
  read_wincert bs = Ret (w, rest) -> bs = write_wincert w ++ rest /\ wf_wincert w.
Proof.
  unfold read_wincert. intros H.
  inv_take H. inv_take H. inv_take H.
  destruct (N.eqb_spec (unle f0) WIN_CERT_REVISION) as [Hr|Hr]; [|discriminate H]. cbn [negb] in H.
  destruct (N.ltb_spec (unle f) 8) as [Hl|Hl]; [discriminate H|].
  inv_take H. injection H as <- <-.
  unfold write_wincert, wf_wincert. cbn [wc_length wc_revision wc_type wc_cert].
  assert (Lf : length f = 4%nat) by (unfold blen in L; lia).
  assert (Lf0 : length f0 = 2%nat) by (unfold blen in L0; lia).
  assert (Lf1 : length f1 = 2%nat) by (unfold blen in L1; lia).
  rewrite !le_unle_k by (symmetry; assumption).
  split; [rewrite <- !app_assoc; reflexivity|].
  pose proof (unle_lt f) as B. rewrite Lf, pow256_4 in B.
  pose proof (unle_lt f1) as B1. rewrite Lf1, pow256_2 in B1.
  repeat split; try assumption. lia.
Qed.

Lemma read_wincert_write w p : wf_wincert w -> read_wincert (write_wincert w ++ p) = Ret (w, p).
Proof.
  intros (H1 & H2 & H3 & H4). unfold read_wincert, write_wincert.
  rewrite <- !app_assoc.
  rewrite takeN_app by (rewrite blen_le; reflexivity).
  rewrite takeN_app by (rewrite blen_le; reflexivity).
  rewrite takeN_app by (rewrite blen_le; reflexivity).
  rewrite !unle_le_small by (first [rewrite pow256_2 | rewrite pow256_4]; unfold WIN_CERT_REVISION in *; lia).
  rewrite H3, N.eqb_refl. cbn [negb].
  destruct (N.ltb_spec (wc_length w) 8); [lia|].
  rewrite takeN_app by lia. destruct w; cbn in *; subst; reflexivity.
Qed.

Lemma write_wincert_length w : blen (write_wincert w) = 8 + blen (wc_cert w).
Proof. unfold write_wincert. rewrite !blen_app, !blen_le. lia. Qed.

(* ---------- WIN_CERTIFICATE_UEFI_GUID ---------- *)
Lemma read_wincert_guid_inv bs w rest :
  read_wincert_guid bs = Ret (w, rest) -> bs = write_wincert_guid w ++ rest /\ wf_wincert_guid w.
Proof.
  unfold read_wincert_guid. intros H. apply bind_ret_inv in H as ([w0 r0] & H0 & H).
  apply read_wincert_inv in H0 as (-> & Hw0 & Hw1 & Hw2 & Hw3).
  destruct (takeN 16 (wc_cert w0)) as [[g d]|] eqn:E; [|discriminate H].
  apply takeN_inv in E as [E L]. injection H as <- <-.
  unfold write_wincert_guid, write_wincert, wf_wincert_guid.
  cbn [wg_length wg_revision wg_type wg_guid wg_data].
  assert (Lg : length g = 16%nat) by (unfold blen in L; lia).
  rewrite guid_wire_of_wire by exact Lg. rewrite E, <- !app_assoc. split; [reflexivity|].
  rewrite E, blen_app in Hw0. repeat split; try assumption; try lia.
  all: apply (guid_of_wire_wf g); lia.
Qed.

Lemma read_wincert_guid_write w p :
  wf_wincert_guid w -> read_wincert_guid (write_wincert_guid w ++ p) = Ret (w, p).
Proof.
  intros (H1 & H2 & H3 & H4 & H5). unfold read_wincert_guid, write_wincert_guid.
  pose proof (guid_wire_length _ H5) as LG.
  replace ((le 4 (wg_length w) ++ le 2 (wg_revision w) ++ le 2 (wg_type w) ++
            guid_wire (wg_guid w) ++ wg_data w) ++ p)
    with (write_wincert (mkWinCert (wg_length w) (wg_revision w) (wg_type w)
            (guid_wire (wg_guid w) ++ wg_data w)) ++ p)
    by (unfold write_wincert; cbn; rewrite <- !app_assoc; reflexivity).
  rewrite read_wincert_write.
  - cbn [bind wc_cert wc_length wc_revision wc_type].
    rewrite takeN_app by (unfold blen; rewrite LG; reflexivity).
    rewrite guid_of_wire_wire by exact H5. destruct w; reflexivity.
  - unfold wf_wincert. cbn [wc_length wc_cert wc_revision wc_type]. rewrite blen_app.
    assert (blen (guid_wire (wg_guid w)) = 16) as -> by (unfold blen; rewrite LG; reflexivity).
    repeat split; try assumption. lia.
Qed.

(* ---------- EFI_VARIABLE_AUTHENTICATION_2 ---------- *)
Lemma read_auth2_inv bs a rest :
  read_auth2 bs = Ret (a, rest) -> bs = write_auth2 a ++ rest /\ wf_auth2 a.
Proof.
  unfold read_auth2. intros H.
  destruct (takeN 16 bs) as [[t r]|] eqn:E; [|discriminate H].
  apply takeN_inv in E as [-> L].
  apply bind_ret_inv in H as ([w r0] & H0 & H).
  apply read_wincert_guid_inv in H0 as (-> & Hw).
  destruct (N.eqb_spec (wg_type w) WIN_CERT_TYPE_EFI_GUID) as [Ht|Ht]; [|discriminate H].
  injection H as <- <-. unfold write_auth2, wf_auth2. cbn [a_time a_info].
  assert (Lt : length t = 16%nat) by (unfold blen in L; lia).
  rewrite write_read_time by exact Lt. rewrite <- app_assoc. split; [reflexivity|].
  split; [|split; [exact Hw|exact Ht]].
  unfold wf_time, read_time; cbn [t_year t_month t_day t_hour t_minute
    t_second t_pad1 t_nanosecond t_timezone t_daylight t_pad2].
  repeat split.
  all: match goal with |- unle (slice ?o ?k ?tt) < _ =>
      let X := fresh in pose proof (unle_lt (slice o k tt)) as X;
      rewrite slice_length in X by lia; exact X end.
Qed.

Lemma read_auth2_write a p : wf_auth2 a -> read_auth2 (write_auth2 a ++ p) = Ret (a, p).
Proof.
  intros (Ht & Hw & Hty). unfold read_auth2, write_auth2. rewrite <- app_assoc.
  rewrite takeN_app by (unfold blen; rewrite write_time_length; reflexivity).
  rewrite read_wincert_guid_write by exact Hw. cbn [bind].
  rewrite Hty, N.eqb_refl, read_write_time by exact Ht. destruct a; reflexivity.
Qed.

Lemma write_auth2_length a : wf_auth2 a -> blen (write_auth2 a) = 16 + wg_length (a_info a).
Proof.
  intros (Ht & (H1 & H2 & H3 & H4 & H5) & Hty). unfold write_auth2, write_wincert_guid.
  rewrite !blen_app, !blen_le. unfold blen at 1 2. rewrite write_time_length, guid_wire_length by exact H5.
  rewrite H1. lia.
Qed.

(* consumed exactly 16 + dwLength bytes, payload untouched *)
Lemma read_auth2_consumes bs a rest :
  read_auth2 bs = Ret (a, rest) ->
  exists consumed, bs = consumed ++ rest /\ blen consumed = 16 + wg_length (a_info a) /\
                   consumed = write_auth2 a.
Proof.
  intros H. apply read_auth2_inv in H as [-> Hw]. exists (write_auth2 a).
  split; [reflexivity|]. split; [apply write_auth2_length; exact Hw|reflexivity].
Qed.

Lemma read_wincert_consumes bs w rest :
  read_wincert bs = Ret (w, rest) ->
  exists consumed, bs = consumed ++ rest /\ blen consumed = wc_length w /\ consumed = write_wincert w.
Proof.
  intros H. apply read_wincert_inv in H as [-> (H1 & _)]. exists (write_wincert w).
  split; [reflexivity|]. split; [rewrite write_wincert_length; lia|reflexivity].
Qed.
