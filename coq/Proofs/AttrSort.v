(* Proofs/AttrSort.v -- the order Attributes.Marshal gives the signed attributes is
   DER's SET OF order: sorted by encoding, nothing lost or added. *)
From Coq Require Import Bool List NArith Lia Permutation.
From Coq.Strings Require Import Byte.
From GoUefi Require Import Base.Bytes Model.Pkcs7.
Import ListNotations.
Local Open Scope N_scope.

(* the order is DER's: no element is followed by a smaller one, and nothing is lost or added *)
Inductive sorted_b : list bytes -> Prop :=
| sorted_nil : sorted_b []
| sorted_one x : sorted_b [x]
| sorted_cons x y l : bytes_ltb y x = false -> sorted_b (y :: l) -> sorted_b (x :: y :: l).

Lemma bytes_ltb_asym a : forall b, bytes_ltb a b = true -> bytes_ltb b a = false.
Proof.
  induction a as [|x a IH]; intros [|y b] H; cbn in *; try discriminate; try reflexivity.
  destruct (N.ltb_spec (b2n x) (b2n y)) as [Hxy|Hxy].
  - destruct (N.ltb_spec (b2n y) (b2n x)); [lia|]. reflexivity.
  - destruct (N.ltb_spec (b2n y) (b2n x)) as [Hyx|Hyx]; [discriminate|]. apply IH. exact H.
Qed.

Lemma insert_sorted x l : sorted_b l -> sorted_b (insert_b x l).
Proof.
  induction 1 as [|y|y z l Hzy Hs IH]; cbn [insert_b].
  - constructor.
  - destruct (bytes_ltb y x) eqn:E; constructor; try constructor; [apply bytes_ltb_asym; exact E | exact E].
  - destruct (bytes_ltb y x) eqn:E.
    + cbn [insert_b] in IH. destruct (bytes_ltb z x) eqn:E2.
      * constructor; [exact Hzy | exact IH].
      * constructor; [apply bytes_ltb_asym; exact E | exact IH].
    + constructor; [exact E | constructor; assumption].
Qed.
Lemma sort_sorted l : sorted_b (sort_b l).
Proof. induction l as [|x l IH]; [constructor | apply insert_sorted; exact IH]. Qed.

Lemma insert_perm x l : Permutation (insert_b x l) (x :: l).
Proof.
  induction l as [|y r IH]; cbn [insert_b]; [apply Permutation_refl|].
  destruct (bytes_ltb y x); [|apply Permutation_refl].
  eapply Permutation_trans; [apply perm_skip; exact IH | apply perm_swap].
Qed.
Lemma sort_perm l : Permutation (sort_b l) l.
Proof.
  induction l as [|x l IH]; [apply Permutation_refl|]. unfold sort_b in *. cbn [fold_right].
  eapply Permutation_trans; [apply insert_perm | apply perm_skip; exact IH].
Qed.


(* ---- for the content types in use (data, SpcIndirectDataContent, any OID of at
   most 12 encoded octets), a 13-character UTCTime and a SHA-256 digest the
   order is contentType, signingTime, messageDigest ---- *)
From GoUefi Require Import Base.Reader Base.Der.
From Coq Require Import ZArith ZifyN ZifyNat ZifyBool.

Lemma seq_head body : blen body < 128 -> der_seq body = x30 :: n2b (blen body) :: body.
Proof.
  intros H. unfold der_seq, add_asn1, enc_len. destruct (N.ltb_spec (blen body) 128); [reflexivity | lia].
Qed.
Lemma ltb_second a b ra rb : a < 256 -> b < 256 ->
  bytes_ltb (x30 :: n2b a :: ra) (x30 :: n2b b :: rb) = if a <? b then true else if b <? a then false else bytes_ltb ra rb.
Proof.
  intros Ha Hb. cbn [bytes_ltb]. rewrite N.ltb_irrefl. rewrite !b2n_n2b. rewrite !N.mod_small by assumption. reflexivity.
Qed.

Lemma blen_attr_exact o v : blen (oid_encode o) < 128 -> blen v < 128 ->
  attr o v = der_seq (der_oid o ++ der_set v) /\ blen (der_oid o ++ der_set v) = blen (oid_encode o) + blen v + 4.
Proof.
  intros Ho Hv. split; [reflexivity|].
  unfold der_oid, der_set, add_asn1, enc_len. rewrite blen_app.
  destruct (N.ltb_spec (blen (oid_encode o)) 128); [|lia]. destruct (N.ltb_spec (blen v) 128); [|lia].
  cbn [app]. repeat first [rewrite blen_cons | rewrite blen_app | rewrite blen_nil]. lia.
Qed.

Theorem usual_order oid t md :
  1 <= blen (oid_encode oid) <= 12 -> blen t = 13 -> blen md = 32 ->
  sort_b [attr OID_attr_contentType (der_oid oid); attr OID_attr_signingTime (add_asn1 T_UTCTIME t);
          attr OID_attr_messageDigest (der_octets md)] =
  [attr OID_attr_contentType (der_oid oid); attr OID_attr_signingTime (add_asn1 T_UTCTIME t);
   attr OID_attr_messageDigest (der_octets md)].
Proof.
  intros Ho Ht Hm.
  assert (E9 : forall o, o = OID_attr_contentType \/ o = OID_attr_signingTime \/ o = OID_attr_messageDigest -> blen (oid_encode o) = 9)
    by (intros o [ -> | [ -> | -> ] ]; reflexivity).
  assert (Lo : blen (der_oid oid) = blen (oid_encode oid) + 2).
  { unfold der_oid, add_asn1, enc_len. destruct (N.ltb_spec (blen (oid_encode oid)) 128); [|lia]. cbn [app]. repeat first [rewrite blen_cons | rewrite blen_app | rewrite blen_nil]. lia. }
  assert (Lt : blen (add_asn1 T_UTCTIME t) = 15).
  { unfold add_asn1, enc_len. rewrite Ht. change (13 <? 128) with true. cbn [app]. repeat first [rewrite blen_cons | rewrite blen_app | rewrite blen_nil]. lia. }
  assert (Lm : blen (der_octets md) = 34).
  { unfold der_octets, add_asn1, enc_len. rewrite Hm. change (32 <? 128) with true. cbn [app]. repeat first [rewrite blen_cons | rewrite blen_app | rewrite blen_nil]. lia. }
  destruct (blen_attr_exact OID_attr_contentType (der_oid oid)) as [A1 B1]; [rewrite E9 by tauto; lia | lia |].
  destruct (blen_attr_exact OID_attr_signingTime (add_asn1 T_UTCTIME t)) as [A2 B2]; [rewrite E9 by tauto; lia | lia |].
  destruct (blen_attr_exact OID_attr_messageDigest (der_octets md)) as [A3 B3]; [rewrite E9 by tauto; lia | lia |].
  rewrite E9 in B1, B2, B3 by tauto.
  rewrite A1, A2, A3. rewrite !seq_head by lia. rewrite B1, B2, B3, Lo, Lt, Lm.
  unfold sort_b. cbn [fold_right insert_b].
  (* messageDigest (47) after signingTime (28) after contentType (<= 27) *)
  rewrite (ltb_second (9 + 34 + 4) (9 + 15 + 4)) by lia.
  change (9 + 34 + 4 <? 9 + 15 + 4) with false. change (9 + 15 + 4 <? 9 + 34 + 4) with true. cbn iota.
  cbn [insert_b].
  rewrite (ltb_second (9 + 15 + 4) (9 + (blen (oid_encode oid) + 2) + 4)) by lia.
  destruct (N.ltb_spec (9 + 15 + 4) (9 + (blen (oid_encode oid) + 2) + 4)); [lia|].
  destruct (N.ltb_spec (9 + (blen (oid_encode oid) + 2) + 4) (9 + 15 + 4)); [|lia].
  reflexivity.
Qed.
