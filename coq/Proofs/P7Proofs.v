(* Proofs/P7Proofs.v -- C04: what a successful PKCS#7 verification implies. *)
From Coq Require Import Bool List NArith ZArith Lia Arith.
From Coq.Strings Require Import Byte.
From GoUefi Require Import Base.Bytes Base.Outcome Base.Reader Base.Der Base.Sha256 Model.Pkcs7
  Spec.P7Check Proofs.DerProofs.
Import ListNotations.
Local Open Scope N_scope.

Section P7.
Variable utctime_ok : bytes -> bool.
Variable x509_ok : bytes -> bool.
Variable rsa_ok : N -> bytes -> bytes -> bool.
Notation verify_signer := (verify_signer rsa_ok).
Notation verify_loop := (verify_loop rsa_ok).
Notation pkcs7_verify := (pkcs7_verify rsa_ok).
Notation signer_valid := (signer_valid rsa_ok).
Notation spec_valid := (spec_valid rsa_ok).
Notation first_named_valid := (first_named_valid rsa_ok).
Notation parse_pkcs7 := (parse_pkcs7 utctime_ok x509_ok).
Notation parse_signer := (parse_signer utctime_ok).
Notation parse_attributes := (parse_attributes utctime_ok).
Notation attrs_loop := (attrs_loop utctime_ok).
Notation attr_step := (attr_step utctime_ok).

(* ---------- the decision ---------- *)
Lemma verify_signer_true si c content :
  names si c = true -> (verify_signer si c content = Ret true <-> signer_valid si c content = true).
Proof.
  intros Hn. unfold Pkcs7.verify_signer, P7Check.signer_valid, content_digest. rewrite Hn. cbn [andb].
  destruct (si_attrs si) as [a|]; [|split; discriminate].
  destruct (is_nilb content).
  - cbn [negb]. destruct (rsa_ok _ _ _); split; intros H; try reflexivity; discriminate.
  - destruct (der_read content) as [e|].
    + destruct (bytes_eqb (sha256 (e_val e)) (at_md a)); cbn [negb].
      * destruct (rsa_ok _ _ _); split; intros H; try reflexivity; discriminate.
      * rewrite andb_false_r. split; discriminate.
    + cbn [negb]. rewrite andb_false_r. split; discriminate.
Qed.

Lemma verify_signer_returns si c content : returns (verify_signer si c content) = true.
Proof.
  unfold Pkcs7.verify_signer. destruct (si_attrs si); [|reflexivity].
  destruct (negb _); [reflexivity|]. destruct (rsa_ok _ _ _); reflexivity.
Qed.

Lemma verify_loop_find l c content :
  verify_loop l c content =
  match find (fun si => names si c) l with
  | Some si => verify_signer si c content
  | None => Ret false
  end.
Proof. induction l as [|si l IH]; cbn [Pkcs7.verify_loop find]; [reflexivity|]. destruct (names si c); [reflexivity|exact IH]. Qed.

(* success <-> the first signer entry naming the certificate is valid *)
Theorem verify_exact p c : pkcs7_verify p c = Ret true <-> first_named_valid p c = true.
Proof.
  unfold Pkcs7.pkcs7_verify, P7Check.first_named_valid. rewrite verify_loop_find.
  destruct (find (fun si => names si c) (p_signers p)) as [si|] eqn:E.
  - apply find_some in E as [_ Hn]. apply verify_signer_true. exact Hn.
  - split; discriminate.
Qed.

(* success only for a signature bound to the blob: some signer entry names the
   certificate's issuer and serial, carries an RSA-SHA256 signature valid under
   the certificate's key over SET || attributes-as-in-the-blob, and its
   messageDigest is the SHA-256 of the encapsulated content (when there is one) *)
Theorem verify_sound p c : pkcs7_verify p c = Ret true -> spec_valid p c = true.
Proof.
  intros H. apply verify_exact in H. unfold P7Check.first_named_valid in H. unfold P7Check.spec_valid.
  destruct (find (fun si => names si c) (p_signers p)) as [si|] eqn:E; [|discriminate].
  apply find_some in E as [Hin _]. apply existsb_exists. exists si. split; assumption.
Qed.

Theorem verify_sound_explicit p c : pkcs7_verify p c = Ret true ->
  exists si a, In si (p_signers p) /\ si_attrs si = Some a /\
    c_issuer c = si_issuer si /\ c_serial c = si_serial si /\
    rsa_ok (c_key c) (add_asn1 T_SET (at_raw a)) (si_sig si) = true /\
    (p_content p <> [] -> exists e, der_read (p_content p) = Some e /\ at_md a = sha256 (e_val e)).
Proof.
  intros H. apply verify_sound in H. unfold P7Check.spec_valid in H. apply existsb_exists in H as (si & Hin & Hv).
  unfold P7Check.signer_valid in Hv. apply andb_true_iff in Hv as [Hn Hv].
  destruct (si_attrs si) as [a|] eqn:Ea; [|discriminate]. apply andb_true_iff in Hv as [Hr Hd].
  unfold names in Hn. apply andb_true_iff in Hn as [Hi Hs]. apply bytes_eqb_eq in Hi. apply Z.eqb_eq in Hs.
  exists si, a. repeat split; try assumption.
  intros Hne. unfold content_digest in Hd. destruct (p_content p) as [|x r] eqn:Ec; [congruence|].
  cbn [is_nilb] in Hd. destruct (der_read (x :: r)) as [e|]; [|discriminate].
  exists e. split; [reflexivity|]. apply bytes_eqb_eq in Hd. symmetry. exact Hd.
Qed.

(* never a panic or an exit *)
Theorem verify_returns p c : returns (pkcs7_verify p c) = true.
Proof.
  unfold Pkcs7.pkcs7_verify. rewrite verify_loop_find.
  destruct (find _ _); [apply verify_signer_returns|reflexivity].
Qed.

(* with another key -- even under the same issuer and serial -- success means
   the signature is RSA-valid under THAT key *)
Theorem verify_key_bound p c : pkcs7_verify p c = Ret true ->
  exists msg sig, rsa_ok (c_key c) msg sig = true.
Proof. intros H. apply verify_sound_explicit in H as (si & a & _ & _ & _ & _ & Hr & _). eauto. Qed.

(* ---------- "as they appear in the blob" ---------- *)
Definition infix (b s : bytes) : Prop := exists pre post, s = pre ++ b ++ post.
Definition suffix (r s : bytes) : Prop := exists pre, s = pre ++ r.

Lemma infix_refl s : infix s s.
Proof. exists [], []. rewrite app_nil_r. reflexivity. Qed.
Lemma infix_trans a b c : infix a b -> infix b c -> infix a c.
Proof.
  intros (p1 & q1 & ->) (p2 & q2 & ->). exists (p2 ++ p1), (q1 ++ q2). rewrite <- !app_assoc. reflexivity.
Qed.
Lemma suffix_infix r s : suffix r s -> infix r s.
Proof. intros (p & ->). exists p, []. rewrite app_nil_r. reflexivity. Qed.
Lemma suffix_refl s : suffix s s.
Proof. exists []. reflexivity. Qed.
Lemma suffix_trans a b c : suffix a b -> suffix b c -> suffix a c.
Proof. intros (p1 & ->) (p2 & ->). exists (p2 ++ p1). rewrite <- app_assoc. reflexivity. Qed.

Lemma read_asn1_parts tag s v rest :
  read_asn1 tag s = Some (v, rest) -> infix v s /\ suffix rest s /\ s = add_asn1 tag v ++ rest.
Proof.
  intros H. apply read_asn1_canonical in H. subst s. split; [|split; [|reflexivity]].
  - unfold add_asn1. exists (n2b tag :: enc_len (blen v)), rest. cbn [app]. rewrite <- app_assoc. reflexivity.
  - exists (add_asn1 tag v). reflexivity.
Qed.

Lemma E_inv {A} n (o : option A) x : E n o = Ret x -> o = Some x.
Proof. destruct o; cbn; intros H; [injection H as ->; reflexivity|discriminate]. Qed.

Lemma read_oid_suffix s o r : read_oid s = Some (o, r) -> suffix r s.
Proof.
  unfold read_oid. destruct (read_asn1 T_OID s) as [[b rest]|] eqn:E; [|discriminate].
  destruct (oid_decode b); [|discriminate]. intros H. injection H as <- <-.
  apply read_asn1_parts in E as (_ & S & _). exact S.
Qed.
Lemma read_int64_suffix s z r : read_int64 s = Some (z, r) -> suffix r s.
Proof.
  unfold read_int64. destruct (read_asn1 T_INTEGER s) as [[b rest]|] eqn:E; [|discriminate].
  destruct (int64_decode b); [|discriminate]. intros H. injection H as <- <-.
  apply read_asn1_parts in E as (_ & S & _). exact S.
Qed.

Lemma parse_alg_id_suffix s o r : parse_alg_id s = Ret (o, r) -> suffix r s.
Proof.
  unfold parse_alg_id. intros H.
  apply bind_ret_inv in H as ([b rest] & H1 & H). apply E_inv in H1.
  apply bind_ret_inv in H as ([o' b'] & H2 & H).
  apply read_asn1_parts in H1 as (_ & S & _).
  destruct (is_nilb b'); [injection H as <- <-; exact S|].
  destruct (read_asn1 T_NULL b'); [injection H as <- <-; exact S|discriminate].
Qed.

Lemma attr_step_raw a s a' r : attr_step a s = Ret (a', r) -> at_raw a' = at_raw a.
Proof.
  unfold Pkcs7.attr_step. intros H.
  apply bind_ret_inv in H as ([body rest] & _ & H).
  apply bind_ret_inv in H as ([o body'] & _ & H).
  apply bind_ret_inv in H as ([v x] & _ & H).
  destruct (oid_eqb o OID_attr_messageDigest).
  { apply bind_ret_inv in H as ([d y] & _ & H). injection H as <- <-. reflexivity. }
  destruct (oid_eqb o OID_attr_contentType).
  { apply bind_ret_inv in H as ([d y] & _ & H). injection H as <- <-. reflexivity. }
  destruct (oid_eqb o OID_attr_signingTime).
  { apply bind_ret_inv in H as ([d y] & _ & H). destruct (utctime_ok d); [|discriminate].
    injection H as <- <-. reflexivity. }
  injection H as <- <-. reflexivity.
Qed.

Lemma attrs_loop_raw f : forall a s a', attrs_loop f a s = Ret a' -> at_raw a' = at_raw a.
Proof.
  induction f as [|f IH]; intros a s a' H; cbn [Pkcs7.attrs_loop] in H.
  - destruct (is_nilb s); [injection H as <-; reflexivity|discriminate].
  - destruct (is_nilb s); [injection H as <-; reflexivity|].
    apply bind_ret_inv in H as ([a1 r] & H1 & H). apply attr_step_raw in H1.
    apply IH in H. congruence.
Qed.

Lemma parse_attributes_blob s oa rest : parse_attributes s = Ret (oa, rest) ->
  match oa with
  | Some a => s = add_asn1 T_CTX0 (at_raw a) ++ rest
  | None => True
  end.
Proof.
  unfold Pkcs7.parse_attributes. intros H.
  apply bind_ret_inv in H as ([r rest'] & H1 & H). apply E_inv in H1.
  destruct r as [raw|]; [|injection H as <- <-; exact I].
  apply bind_ret_inv in H as (a & H2 & H). injection H as <- <-.
  apply attrs_loop_raw in H2. cbn [at_raw] in H2. rewrite H2.
  unfold read_optional in H1. destruct (peek_tag T_CTX0 s); [|discriminate].
  destruct (read_asn1 T_CTX0 s) as [[v r]|] eqn:E; [|discriminate].
  injection H1 as <- <-. apply read_asn1_canonical in E. exact E.
Qed.

(* the signed attributes of a parsed signer are literally a piece of its encoding *)
Theorem signer_attrs_in_blob s si rest a :
  parse_signer s = Ret (si, rest) -> si_attrs si = Some a -> infix (add_asn1 T_CTX0 (at_raw a)) s.
Proof.
  unfold Pkcs7.parse_signer. intros H Ha.
  apply bind_ret_inv in H as ([body r0] & H0 & H). apply E_inv in H0.
  apply bind_ret_inv in H as ([ver s1] & H1 & H). apply E_inv in H1.
  apply bind_ret_inv in H as ([ias s2] & H2 & H). apply E_inv in H2.
  apply bind_ret_inv in H as ([issuer ias'] & _ & H).
  apply bind_ret_inv in H as ([serial x] & _ & H).
  apply bind_ret_inv in H as ([dalg s3] & H3 & H).
  apply bind_ret_inv in H as ([att s4] & H4 & H).
  apply bind_ret_inv in H as ([ealg s5] & _ & H).
  apply bind_ret_inv in H as ([sg y] & _ & H).
  injection H as <- <-. cbn [si_attrs] in Ha. subst att.
  apply parse_attributes_blob in H4.
  apply read_asn1_parts in H0 as (I0 & _ & _).
  apply read_int64_suffix in H1. apply read_asn1_parts in H2 as (_ & S2 & _).
  apply parse_alg_id_suffix in H3.
  eapply infix_trans; [|exact I0].
  apply suffix_infix in H1. eapply infix_trans; [|exact H1].
  apply suffix_infix in S2. eapply infix_trans; [|exact S2].
  apply suffix_infix in H3. eapply infix_trans; [|exact H3].
  rewrite H4. exists [], s4. reflexivity.
Qed.

Lemma parse_signer_suffix s si rest : parse_signer s = Ret (si, rest) -> suffix rest s.
Proof.
  unfold Pkcs7.parse_signer. intros H.
  apply bind_ret_inv in H as ([body r0] & H0 & H). apply E_inv in H0.
  apply read_asn1_parts in H0 as (_ & S & _).
  repeat (apply bind_ret_inv in H as ([? ?] & _ & H)). injection H as _ <-. exact S.
Qed.

Lemma signers_loop_in f : forall s l si, signers_loop utctime_ok f s = Ret l -> In si l ->
  exists s' rest, suffix s' s /\ parse_signer s' = Ret (si, rest).
Proof.
  induction f as [|f IH]; intros s l si H Hin; cbn [Pkcs7.signers_loop] in H.
  - destruct (is_nilb s); [injection H as <-; destruct Hin|discriminate].
  - destruct (is_nilb s); [injection H as <-; destruct Hin|].
    apply bind_ret_inv in H as ([si0 rest] & H1 & H).
    apply bind_ret_inv in H as (l' & H2 & H). injection H as <-.
    destruct Hin as [<-|Hin].
    + exists s, rest. split; [apply suffix_refl|exact H1].
    + destruct (IH rest l' si H2 Hin) as (s' & r' & S & P). exists s', r'. split; [|exact P].
      eapply suffix_trans; [exact S|]. eapply parse_signer_suffix. exact H1.
Qed.

Lemma parse_content_info_parts s o c rest :
  parse_content_info s = Ret (o, c, rest) -> suffix rest s /\ infix c s.
Proof.
  unfold parse_content_info. intros H.
  apply bind_ret_inv in H as ([b r0] & H0 & H). apply E_inv in H0.
  apply bind_ret_inv in H as ([o' b'] & H1 & H). apply E_inv in H1.
  apply bind_ret_inv in H as ([cc x] & H2 & H). apply E_inv in H2.
  injection H as <- <- <-. apply read_asn1_parts in H0 as (I0 & S0 & _). split; [exact S0|].
  apply read_oid_suffix in H1.
  unfold read_optional in H2. destruct (peek_tag T_CTX0 b').
  - destruct (read_asn1 T_CTX0 b') as [[v r]|] eqn:E; [|discriminate]. injection H2 as <- <-.
    apply read_asn1_parts in E as (I & _ & _).
    eapply infix_trans; [exact I|]. eapply infix_trans; [apply suffix_infix; exact H1|exact I0].
  - injection H2 as <- <-. exists s, []. rewrite app_nil_r. reflexivity.
Qed.

(* ... and therefore of the blob that was verified *)
Theorem attrs_in_blob blob p si a :
  parse_pkcs7 blob = Ret p -> In si (p_signers p) -> si_attrs si = Some a ->
  infix (add_asn1 T_CTX0 (at_raw a)) blob.
Proof.
  unfold Pkcs7.parse_pkcs7. intros H Hin Ha.
  apply bind_ret_inv in H as (hci & _ & H).
  apply bind_ret_inv in H as (ci & Hci & H).
  assert (Ici : infix ci blob).
  { destruct hci.
    - apply bind_ret_inv in Hci as ([[o c] r] & Hp & Hc). injection Hc as <-. cbn [fst snd].
      apply parse_content_info_parts in Hp as [_ I]. exact I.
    - injection Hci as <-. apply infix_refl. }
  unfold Pkcs7.parse_signed_data in H.
  apply bind_ret_inv in H as ([sd x0] & H0 & H). apply E_inv in H0.
  apply bind_ret_inv in H as ([v sd1] & H1 & H). apply E_inv in H1.
  apply bind_ret_inv in H as ([dig sd2] & H2 & H). apply E_inv in H2.
  apply bind_ret_inv in H as ([alg x1] & _ & H).
  apply bind_ret_inv in H as ([[o content] sd3] & H3 & H).
  apply bind_ret_inv in H as ([certs sd4] & H4 & H). apply E_inv in H4.
  destruct (negb (x509_ok _)); [discriminate|].
  apply bind_ret_inv in H as ([sis x2] & H5 & H). apply E_inv in H5.
  apply bind_ret_inv in H as (l & H6 & H). injection H as <-. cbn [p_signers] in Hin.
  destruct (signers_loop_in _ _ _ _ H6 Hin) as (s' & rest & S & P).
  pose proof (signer_attrs_in_blob _ _ _ _ P Ha) as I.
  apply read_asn1_parts in H0 as (I0 & _ & _).
  apply read_int64_suffix in H1. apply read_asn1_parts in H2 as (_ & S2 & _).
  apply parse_content_info_parts in H3 as [S3 _].
  assert (S4 : suffix sd4 sd3).
  { unfold read_optional in H4. destruct (peek_tag T_CTX0 sd3).
    - destruct (read_asn1 T_CTX0 sd3) as [[vv r]|] eqn:E; [|discriminate]. injection H4 as _ <-.
      apply read_asn1_parts in E as (_ & SS & _). exact SS.
    - injection H4 as _ <-. apply suffix_refl. }
  apply read_asn1_parts in H5 as (I5 & _ & _).
  eapply infix_trans; [exact I|]. eapply infix_trans; [apply suffix_infix; exact S|].
  eapply infix_trans; [exact I5|]. eapply infix_trans; [apply suffix_infix; exact S4|].
  eapply infix_trans; [apply suffix_infix; exact S3|]. eapply infix_trans; [apply suffix_infix; exact S2|].
  eapply infix_trans; [apply suffix_infix; exact H1|]. eapply infix_trans; [exact I0|exact Ici].
Qed.
End P7.

(* ---- what the verdict depends on: of a signer entry only the name, the signed
   attributes as they stand in the blob with the digest they carry, and the
   signature; of the SignedData only the content. Version numbers, the digest
   and encryption algorithm identifiers, the certificates and the other parsed
   attribute fields -- everything an attacker can rewrite without touching a
   signature -- cannot change it. ---- *)
Definition signed_view (si : signer) : bytes * Z * option (bytes * bytes) * bytes :=
  (si_issuer si, si_serial si,
   match si_attrs si with Some a => Some (at_raw a, at_md a) | None => None end, si_sig si).

Lemma verify_signer_view rsa_ok si si' c content :
  signed_view si = signed_view si' -> verify_signer rsa_ok si c content = verify_signer rsa_ok si' c content.
Proof.
  unfold signed_view, verify_signer. intros H. injection H as Hi Hs Ha Hg.
  destruct (si_attrs si) as [a|], (si_attrs si') as [a'|]; try discriminate; [|reflexivity].
  injection Ha as Hr Hm. rewrite Hr, Hm, Hg. reflexivity.
Qed.

Lemma names_view si si' c : signed_view si = signed_view si' -> names si c = names si' c.
Proof. unfold signed_view, names. intros H. injection H as Hi Hs Ha Hg. rewrite Hi, Hs. reflexivity. Qed.

Theorem verify_depends_only_on rsa_ok p p' c :
  p_content p = p_content p' -> map signed_view (p_signers p) = map signed_view (p_signers p') ->
  pkcs7_verify rsa_ok p c = pkcs7_verify rsa_ok p' c.
Proof.
  unfold pkcs7_verify. intros Hc. rewrite Hc. generalize (p_content p'). intros content.
  generalize (p_signers p') as l'. induction (p_signers p) as [|si l IH]; intros [|si' l'] H; try discriminate; [reflexivity|].
  cbn [map] in H.
  assert (Hv : signed_view si = signed_view si') by exact (f_equal (fun x => hd (signed_view si) x) H).
  assert (Hl : map signed_view l = map signed_view l') by exact (f_equal (@tl _) H).
  cbn [verify_loop].
  rewrite (names_view si si' c Hv). destruct (names si' c); [apply verify_signer_view; exact Hv | apply IH; exact Hl].
Qed.
