(* Proofs/UtilProofs.v -- lemmas about Model/Util.v (C17). *)
From Coq Require Import Bool List NArith ZArith Lia Arith ZifyN ZifyNat ZifyBool.
From Coq.Strings Require Import Byte.
From GoUefi Require Import Base.Bytes Base.Hex Base.Outcome Model.Util.
Import ListNotations.
Ltac Zify.zify_post_hook ::= Z.div_mod_to_equations.
Local Open Scope N_scope.

(* ---------- slices of concatenations ---------- *)
Lemma slice_0_app {A} (a r : list A) k : k = length a -> slice 0 k (a ++ r) = a.
Proof. intros H. unfold slice. cbn [skipn]. apply firstn_app_exact. exact H. Qed.

Lemma slice_skip_app {A} (a r : list A) off k :
  (length a <= off)%nat -> slice off k (a ++ r) = slice (off - length a) k r.
Proof.
  intros H. unfold slice. rewrite skipn_app.
  rewrite (skipn_all2 a) by lia. reflexivity.
Qed.

(* ---------- GUID <-> 16 bytes ---------- *)
Lemma guid_to_bytes_length g : wf_guid g -> length (guid_to_bytes g) = 16%nat.
Proof.
  intros (_ & _ & _ & H4). unfold guid_to_bytes.
  rewrite !app_length, !be_length, H4. reflexivity.
Qed.

Lemma slices_of_app (a b c d : bytes) :
  length a = 4%nat -> length b = 2%nat -> length c = 2%nat -> length d = 8%nat ->
  slice 0 4 (a ++ b ++ c ++ d) = a /\ slice 4 2 (a ++ b ++ c ++ d) = b /\
  slice 6 2 (a ++ b ++ c ++ d) = c /\ slice 8 8 (a ++ b ++ c ++ d) = d.
Proof.
  intros Ha Hb Hc Hd.
  do 4 (destruct a as [|? a]; [discriminate|]). destruct a; [|discriminate].
  do 2 (destruct b as [|? b]; [discriminate|]). destruct b; [|discriminate].
  do 2 (destruct c as [|? c]; [discriminate|]). destruct c; [|discriminate].
  do 8 (destruct d as [|? d]; [discriminate|]). destruct d; [|discriminate].
  repeat split; reflexivity.
Qed.

Lemma bytes_to_guid_to_bytes g : wf_guid g -> bytes_to_guid (guid_to_bytes g) = g.
Proof.
  intros Hw. pose proof (guid_to_bytes_length g Hw) as HL.
  destruct Hw as (H1 & H2 & H3 & H4).
  unfold bytes_to_guid. rewrite HL. cbn [Nat.ltb Nat.leb].
  unfold guid_to_bytes.
  destruct (slices_of_app (be 4 (d1 g)) (be 2 (d2 g)) (be 2 (d3 g)) (d4 g))
    as (E1 & E2 & E3 & E4); try apply be_length; try exact H4.
  rewrite E1, E2, E3, E4.
  rewrite !unbe_be_small by (first [rewrite pow256_4 | rewrite pow256_2]; assumption).
  destruct g; reflexivity.
Qed.

Lemma slice_length {A} (l : list A) off k : (off + k <= length l)%nat -> length (slice off k l) = k.
Proof. intros H. unfold slice. rewrite firstn_length, skipn_length. lia. Qed.

Lemma slices_16 (s : bytes) : length s = 16%nat ->
  s = slice 0 4 s ++ slice 4 2 s ++ slice 6 2 s ++ slice 8 8 s.
Proof.
  intros H. do 16 (destruct s as [|? s]; [discriminate|]). destruct s; [|discriminate]. reflexivity.
Qed.

Lemma guid_to_bytes_to_guid s : length s = 16%nat -> guid_to_bytes (bytes_to_guid s) = s.
Proof.
  intros H. unfold bytes_to_guid. rewrite H. cbn [Nat.ltb Nat.leb].
  unfold guid_to_bytes. cbn [d1 d2 d3 d4].
  rewrite (slices_16 s H) at 5.
  assert (L4 : length (slice 0 4 s) = 4%nat) by (apply slice_length; lia).
  assert (L2 : length (slice 4 2 s) = 2%nat) by (apply slice_length; lia).
  assert (L3 : length (slice 6 2 s) = 2%nat) by (apply slice_length; lia).
  rewrite !be_unbe_k by (symmetry; assumption). reflexivity.
Qed.

Lemma bytes_to_guid_wf s : wf_guid (bytes_to_guid s).
Proof.
  unfold bytes_to_guid. destruct (Nat.ltb_spec (length s) 16) as [H|H].
  - repeat split; cbn; try lia.
  - assert (L4 : length (slice 0 4 s) = 4%nat) by (apply slice_length; lia).
    assert (L2 : length (slice 4 2 s) = 2%nat) by (apply slice_length; lia).
    assert (L3 : length (slice 6 2 s) = 2%nat) by (apply slice_length; lia).
    unfold wf_guid; cbn [d1 d2 d3 d4]. repeat split.
    + pose proof (unbe_lt (slice 0 4 s)) as X. rewrite L4, pow256_4 in X. exact X.
    + pose proof (unbe_lt (slice 4 2 s)) as X. rewrite L2, pow256_2 in X. exact X.
    + pose proof (unbe_lt (slice 6 2 s)) as X. rewrite L3, pow256_2 in X. exact X.
    + apply slice_length. lia.
Qed.

(* wire (little-endian in-structure) form *)
Lemma guid_wire_length g : wf_guid g -> length (guid_wire g) = 16%nat.
Proof.
  intros (_ & _ & _ & H4). unfold guid_wire. rewrite !app_length, !le_length, H4. reflexivity.
Qed.

Lemma guid_of_wire_wire g : wf_guid g -> guid_of_wire (guid_wire g) = g.
Proof.
  intros (H1 & H2 & H3 & H4). unfold guid_of_wire, guid_wire.
  destruct (slices_of_app (le 4 (d1 g)) (le 2 (d2 g)) (le 2 (d3 g)) (d4 g))
    as (E1 & E2 & E3 & E4); try apply le_length; try exact H4.
  rewrite E1, E2, E3, E4.
  rewrite !unle_le_small by (first [rewrite pow256_4 | rewrite pow256_2]; assumption).
  destruct g; reflexivity.
Qed.

Lemma guid_wire_of_wire s : length s = 16%nat -> guid_wire (guid_of_wire s) = s.
Proof.
  intros H. unfold guid_wire, guid_of_wire. cbn [d1 d2 d3 d4].
  rewrite (slices_16 s H) at 5.
  assert (L4 : length (slice 0 4 s) = 4%nat) by (apply slice_length; lia).
  assert (L2 : length (slice 4 2 s) = 2%nat) by (apply slice_length; lia).
  assert (L3 : length (slice 6 2 s) = 2%nat) by (apply slice_length; lia).
  rewrite !le_unle_k by (symmetry; assumption). reflexivity.
Qed.

Lemma guid_of_wire_wf s : (16 <= length s)%nat -> wf_guid (guid_of_wire s).
Proof.
  intros H.
  assert (L4 : length (slice 0 4 s) = 4%nat) by (apply slice_length; lia).
  assert (L2 : length (slice 4 2 s) = 2%nat) by (apply slice_length; lia).
  assert (L3 : length (slice 6 2 s) = 2%nat) by (apply slice_length; lia).
  unfold wf_guid, guid_of_wire; cbn [d1 d2 d3 d4]. repeat split.
  + pose proof (unle_lt (slice 0 4 s)) as X. rewrite L4, pow256_4 in X. exact X.
  + pose proof (unle_lt (slice 4 2 s)) as X. rewrite L2, pow256_2 in X. exact X.
  + pose proof (unle_lt (slice 6 2 s)) as X. rewrite L3, pow256_2 in X. exact X.
  + apply slice_length. lia.
Qed.

(* ---------- text form ---------- *)
Lemma hex_lower_app a b : hex_lower (a ++ b) = hex_lower a ++ hex_lower b.
Proof. unfold hex_lower. apply flat_map_app. Qed.
Lemma hex_upper_app a b : hex_upper (a ++ b) = hex_upper a ++ hex_upper b.
Proof. unfold hex_upper. apply flat_map_app. Qed.

Definition not_dash (c : byte) : bool := negb (byte_eqb c dash).

Lemma hexbyte_lower_nodash b : forallb not_dash (hexbyte_lower b) = true.
Proof. revert b. apply forall_bytes. vm_compute. reflexivity. Qed.
Lemma hexbyte_upper_nodash b : forallb not_dash (hexbyte_upper b) = true.
Proof. revert b. apply forall_bytes. vm_compute. reflexivity. Qed.

Lemma filter_all_true {A} (f : A -> bool) l : forallb f l = true -> filter f l = l.
Proof.
  induction l as [|x l IH]; cbn; [reflexivity|]. intros H. apply andb_true_iff in H as [H1 H2].
  rewrite H1, IH by exact H2. reflexivity.
Qed.

Lemma hex_lower_nodash l : forallb not_dash (hex_lower l) = true.
Proof.
  induction l as [|b l IH]; [reflexivity|]. unfold hex_lower in *. cbn [flat_map].
  rewrite forallb_app, hexbyte_lower_nodash, IH. reflexivity.
Qed.
Lemma hex_upper_nodash l : forallb not_dash (hex_upper l) = true.
Proof.
  induction l as [|b l IH]; [reflexivity|]. unfold hex_upper in *. cbn [flat_map].
  rewrite forallb_app, hexbyte_upper_nodash, IH. reflexivity.
Qed.

Lemma remove_dashes_hex_lower l : remove_dashes (hex_lower l) = hex_lower l.
Proof. apply filter_all_true. apply hex_lower_nodash. Qed.
Lemma remove_dashes_hex_upper l : remove_dashes (hex_upper l) = hex_upper l.
Proof. apply filter_all_true. apply hex_upper_nodash. Qed.
Lemma remove_dashes_app a b : remove_dashes (a ++ b) = remove_dashes a ++ remove_dashes b.
Proof. apply filter_app. Qed.
Lemma remove_dashes_dash : remove_dashes [dash] = [].
Proof. reflexivity. Qed.

Lemma remove_dashes_format g :
  remove_dashes (guid_format g) = hex_lower (guid_to_bytes g).
Proof.
  unfold guid_format, guid_to_bytes.
  rewrite !remove_dashes_app, !remove_dashes_hex_lower, !remove_dashes_dash.
  cbn [app]. rewrite !hex_lower_app.
  rewrite <- (firstn_skipn 2 (d4 g)) at 3. rewrite hex_lower_app. reflexivity.
Qed.

Lemma parse_format g : wf_guid g -> string_to_guid (guid_format g) = g.
Proof.
  intros H. unfold string_to_guid. rewrite remove_dashes_format, hex_decode_lower.
  cbn [fst]. apply bytes_to_guid_to_bytes. exact H.
Qed.

Lemma to_upper_dash : to_upper dash = dash.
Proof. reflexivity. Qed.

Lemma parse_format_upper g : wf_guid g -> string_to_guid (map to_upper (guid_format g)) = g.
Proof.
  intros H. unfold string_to_guid, guid_format.
  rewrite !map_app, !map_upper_hex. cbn [map]. rewrite to_upper_dash.
  rewrite !remove_dashes_app, !remove_dashes_hex_upper, !remove_dashes_dash. cbn [app].
  rewrite <- !hex_upper_app. rewrite firstn_skipn.
  change (be 4 (d1 g) ++ be 2 (d2 g) ++ be 2 (d3 g) ++ d4 g) with (guid_to_bytes g).
  rewrite hex_decode_upper. cbn [fst]. apply bytes_to_guid_to_bytes. exact H.
Qed.

Lemma format_length g : wf_guid g -> length (guid_format g) = 36%nat.
Proof.
  intros (_ & _ & _ & H4). unfold guid_format.
  rewrite !app_length, !hex_lower_length, !be_length, firstn_length, skipn_length, H4. reflexivity.
Qed.

(* shape: 8-4-4-4-12 lower-case hex digits separated by dashes, i.e. dashes
   exactly at offsets 8, 13, 18, 23 and [0-9a-f] elsewhere *)
Definition guid_text_shape (s : bytes) : Prop :=
  exists a b c d e,
    s = a ++ [dash] ++ b ++ [dash] ++ c ++ [dash] ++ d ++ [dash] ++ e /\
    length a = 8%nat /\ length b = 4%nat /\ length c = 4%nat /\ length d = 4%nat /\
    length e = 12%nat /\ forallb is_lower_hex (a ++ b ++ c ++ d ++ e) = true.

Lemma format_shape g : wf_guid g -> guid_text_shape (guid_format g).
Proof.
  intros (H1 & H2 & H3 & H4). unfold guid_text_shape, guid_format.
  exists (hex_lower (be 4 (d1 g))), (hex_lower (be 2 (d2 g))), (hex_lower (be 2 (d3 g))),
    (hex_lower (firstn 2 (d4 g))), (hex_lower (skipn 2 (d4 g))).
  split; [reflexivity|].
  rewrite !hex_lower_length, !be_length, firstn_length, skipn_length, H4.
  repeat split; try reflexivity.
  rewrite <- !hex_lower_app. apply hex_lower_is_lower.
Qed.

(* equality is field-wise *)
Lemma guid_eqb_eq a b : guid_eqb a b = true <-> a = b.
Proof.
  unfold guid_eqb. split.
  - intros H. apply andb_true_iff in H as [H H4]. apply andb_true_iff in H as [H H3].
    apply andb_true_iff in H as [H1 H2].
    apply N.eqb_eq in H1, H2, H3. apply bytes_eqb_eq in H4.
    destruct a, b; cbn in *; subst; reflexivity.
  - intros ->. rewrite !N.eqb_refl, bytes_eqb_refl. reflexivity.
Qed.

(* ---------- UTF-16 ---------- *)
Lemma to_units_le2 u r : u < 65536 -> to_units (le 2 u ++ r) = Some u :: to_units r.
Proof.
  intros H. cbn [le app to_units]. rewrite !b2n_n2b. f_equal. f_equal. lia.
Qed.

Lemma trim_left_no_zero s : ~ In 0 s -> trim_left s = s.
Proof. destruct s as [|c s]; cbn; [reflexivity|]. intros H. destruct c; [tauto|reflexivity]. Qed.

Lemma decode_encode_units s r :
  forallb valid_scalar s = true ->
  utf16_decode_units (to_units (utf16le_encode s ++ r)) = s ++ utf16_decode_units (to_units r).
Proof.
  induction s as [|c s IH]; intros Hv; [reflexivity|].
  cbn [forallb] in Hv. apply andb_true_iff in Hv as [Hc Hs].
  unfold utf16le_encode in *. cbn [flat_map]. rewrite <- app_assoc.
  unfold valid_scalar, is_surrogate in Hc.
  unfold utf16_units. destruct (N.ltb_spec c 65536) as [Hb|Hb].
  - cbn [flat_map]. rewrite app_nil_r. rewrite to_units_le2 by exact Hb.
    cbn [utf16_decode_units]. unfold is_surrogate.
    destruct ((55296 <=? c) && (c <=? 57343)) eqn:E.
    + exfalso. lia.
    + cbn [app]. f_equal. apply IH. exact Hs.
  - cbn [flat_map]. rewrite app_nil_r, <- app_assoc.
    assert (Hc' : c < 1114112) by lia.
    set (v := c - 65536) in *.
    assert (Hv1 : v / 1024 < 1024) by lia.
    rewrite to_units_le2 by lia. rewrite to_units_le2 by lia.
    cbn [utf16_decode_units]. unfold is_surrogate, is_low, is_high.
    replace ((55296 <=? 55296 + v / 1024) && (55296 + v / 1024 <=? 57343)) with true by lia.
    replace ((56320 <=? 56320 + v mod 1024) && (56320 + v mod 1024 <=? 57343)) with true by lia.
    replace ((55296 <=? 55296 + v / 1024) && (55296 + v / 1024 <=? 56319)) with true by lia.
    cbn [app]. f_equal; [lia|]. apply IH. exact Hs.
Qed.

Lemma utf16_decode_marshal s :
  forallb valid_scalar s = true -> utf16le_decode (marshal_utf16 s) = s ++ [0].
Proof.
  intros H. unfold utf16le_decode, marshal_utf16. rewrite decode_encode_units by exact H.
  reflexivity.
Qed.

Lemma trim_zeros_snoc s : ~ In 0 s -> trim_zeros (s ++ [0]) = s.
Proof.
  intros H. unfold trim_zeros. rewrite !frev_rev.
  assert (E : trim_left (s ++ [0]) = s ++ [0] \/ s = []).
  { destruct s as [|c s]; [right; reflexivity|left]. cbn. destruct c; [cbn in H; tauto|reflexivity]. }
  destruct E as [E| ->]; [|reflexivity].
  rewrite E, rev_app_distr. cbn [rev app trim_left].
  rewrite trim_left_no_zero by (rewrite <- in_rev; exact H). apply rev_involutive.
Qed.

Lemma utf16_roundtrip s :
  forallb valid_scalar s = true -> ~ In 0 s -> parse_utf16 (marshal_utf16 s) = Ret s.
Proof.
  intros Hv H0. unfold parse_utf16. rewrite frev_rev. rewrite utf16_decode_marshal by exact Hv.
  rewrite rev_app_distr. cbn [rev app]. rewrite trim_zeros_snoc by exact H0. reflexivity.
Qed.

(* input whose decoded form does not end in NUL (in particular the empty input) is an error *)
Lemma utf16_no_terminator bs :
  (forall s, utf16le_decode bs <> s ++ [0]) -> exists e, parse_utf16 bs = Err e.
Proof.
  intros H. unfold parse_utf16. rewrite frev_rev. destruct (rev (utf16le_decode bs)) as [|c r] eqn:E.
  - eexists; reflexivity.
  - destruct c; [|eexists; reflexivity].
    exfalso. apply (H (rev r)). rewrite <- (rev_involutive (utf16le_decode bs)), E. reflexivity.
Qed.

Lemma parse_utf16_empty : exists e, parse_utf16 [] = Err e.
Proof. eexists; reflexivity. Qed.

(* encoded form is UTF-16LE plus exactly one NUL terminator *)
Lemma marshal_utf16_shape s : marshal_utf16 s = utf16le_encode s ++ le 2 0.
Proof. reflexivity. Qed.
