(* Proofs/SigDbProofs.v -- C09: append / remove edit an ordered entry
   collection and keep every list well-formed. *)
From Coq Require Import Bool List NArith ZArith Lia Arith ZifyN ZifyNat ZifyBool.
From Coq.Strings Require Import Byte.
From GoUefi Require Import Base.Bytes Base.Outcome Base.Reader Model.Util Model.SigList Model.SigDb
  Proofs.UtilProofs Proofs.SigListProofs.
Import ListNotations.
Local Open Scope N_scope.

Section Db.
Variable pem_decode : bytes -> option bytes.
Notation normalize := (normalize pem_decode).
Notation list_append := (list_append pem_decode).
Notation db_append := (db_append pem_decode).
Notation append_first := (append_first pem_decode).

Lemma sig_eqb_eq a b : sig_eqb a b = true <-> a = b.
Proof.
  unfold sig_eqb. split.
  - intros H. apply andb_true_iff in H as [H1 H2]. apply guid_eqb_eq in H1. apply bytes_eqb_eq in H2.
    destruct a, b; cbn in *; subst; reflexivity.
  - intros ->. apply andb_true_iff. split; [apply guid_eqb_eq|apply bytes_eqb_eq]; reflexivity.
Qed.

Lemma list_has_in l s : list_has l s = true <-> In s (sl_sigs l).
Proof.
  unfold list_has. rewrite existsb_exists. split.
  - intros (x & Hx & E). apply sig_eqb_eq in E. subst. exact Hx.
  - intros H. exists s. split; [exact H|apply sig_eqb_eq; reflexivity].
Qed.

Lemma in_view db t s : In (t, s) (view db) <-> exists l, In l db /\ sl_type l = t /\ In s (sl_sigs l).
Proof.
  unfold view. rewrite in_flat_map. split.
  - intros (l & Hl & Hin). unfold list_view in Hin. apply in_map_iff in Hin as (x & E & Hx).
    injection E as <- <-. eauto.
  - intros (l & Hl & <- & Hs). exists l. split; [exact Hl|]. unfold list_view.
    apply in_map_iff. eauto.
Qed.

(* membership queries agree with the view *)
Lemma db_has_view db t s : db_has db t s = true <-> In (t, s) (view db).
Proof.
  unfold db_has. rewrite existsb_exists, in_view. split.
  - intros (l & Hl & H). apply andb_true_iff in H as [H1 H2]. apply guid_eqb_eq in H1.
    apply list_has_in in H2. eauto.
  - intros (l & Hl & Ht & Hs). exists l. split; [exact Hl|]. apply andb_true_iff.
    split; [apply guid_eqb_eq; exact Ht|apply list_has_in; exact Hs].
Qed.

Lemma db_list_exists_view db l :
  db_list_exists db l = true <-> forall s, In s (sl_sigs l) -> In (sl_type l, s) (view db).
Proof.
  unfold db_list_exists. rewrite forallb_forall. split; intros H s Hs.
  - apply db_has_view. apply H. exact Hs.
  - apply db_has_view. apply H. exact Hs.
Qed.

(* ---------- append ---------- *)
Lemma view_app a b : view (a ++ b) = view a ++ view b.
Proof. unfold view. apply flat_map_app. Qed.

Lemma list_append_view l o d l' :
  list_append l o d = Ret l' ->
  sl_type l' = sl_type l /\ list_view l' = list_view l ++ [(sl_type l, mkSig o (normalize (sl_type l) d))].
Proof.
  unfold list_append. destruct (list_has l _); [discriminate|].
  destruct (_ && _); [discriminate|]. destruct (_ && _); [discriminate|].
  intros E. injection E as <-. split; [reflexivity|].
  unfold list_view. cbn [sl_type sl_sigs]. rewrite map_app. reflexivity.
Qed.

Lemma append_first_view db t size o d x db' :
  append_first db t size o d = Some x -> x = Ret db' ->
  exists pre post, view db = pre ++ post /\ view db' = pre ++ [(t, mkSig o (normalize t d))] ++ post.
Proof.
  revert x db'. induction db as [|l r IH]; intros x db' H Hx; [discriminate|].
  cbn [append_first] in H.
  destruct (guid_eqb (sl_type l) t && (sl_size l =? size)) eqn:C.
  - injection H as <-. apply bind_ret_inv in Hx as (l' & Hl & E). injection E as <-.
    apply andb_true_iff in C as [Ct _]. apply guid_eqb_eq in Ct.
    apply list_append_view in Hl as [_ Hv]. rewrite Ct in Hv.
    exists (list_view l), (view r). split; [reflexivity|].
    cbn [view flat_map]. fold (view r). rewrite Hv, <- app_assoc. reflexivity.
  - destruct (append_first r t size o d) as [y|] eqn:E; [|discriminate].
    injection H as <-. apply bind_ret_inv in Hx as (r' & Hr & E'). injection E' as <-.
    destruct (IH y r' eq_refl Hr) as (pre & post & V1 & V2).
    exists (list_view l ++ pre), post. cbn [view flat_map]. fold (view r) (view r').
    rewrite V1, V2, <- !app_assoc. split; reflexivity.
Qed.

(* a successful append adds exactly one entry, everything else keeps content and order *)
Theorem append_view db t o data db' :
  db_append db t o data = Ret db' ->
  exists pre post, view db = pre ++ post /\
    view db' = pre ++ [(t, mkSig o (normalize t (normalize t data)))] ++ post.
Proof.
  unfold db_append. destruct (valid_scheme t); [|discriminate]. cbn [negb].
  destruct (db_has db t _); [discriminate|].
  destruct (append_first db t _ o (normalize t data)) as [x|] eqn:E.
  - intros Hx. eapply append_first_view; eassumption.
  - intros H. apply bind_ret_inv in H as (l' & Hl & E'). injection E' as <-.
    apply list_append_view in Hl as [_ Hv]. cbn [empty_list sl_type] in Hv.
    exists (view db), []. rewrite app_nil_r, view_app. split; [reflexivity|].
    cbn [view flat_map]. rewrite app_nil_r, Hv. reflexivity.
Qed.

(* ... and only for a known type and an entry that is not there yet *)
Theorem append_pre db t o data db' :
  db_append db t o data = Ret db' ->
  valid_scheme t = true /\ ~ In (t, mkSig o (normalize t data)) (view db).
Proof.
  unfold db_append. destruct (valid_scheme t); [|discriminate]. cbn [negb].
  destruct (db_has db t _) eqn:E; [discriminate|]. intros _. split; [reflexivity|].
  intros H. apply db_has_view in H. congruence.
Qed.

Theorem append_dup_err db t o data :
  In (t, mkSig o (normalize t data)) (view db) -> exists e, db_append db t o data = Err e.
Proof.
  intros H. apply db_has_view in H. unfold db_append. destruct (valid_scheme t); cbn [negb]; [|eauto].
  rewrite H. eauto.
Qed.

Theorem append_unknown_err db t o data :
  valid_scheme t = false -> exists e, db_append db t o data = Err e.
Proof. intros H. unfold db_append. rewrite H. cbn. eauto. Qed.

(* ---------- remove ---------- *)
Lemma remove_first_split sigs s :
  In s sigs -> exists a b, sigs = a ++ [s] ++ b /\ remove_first sigs s = a ++ b.
Proof.
  induction sigs as [|x r IH]; intros H; [destruct H|].
  cbn [remove_first]. destruct (sig_eqb s x) eqn:E.
  - apply sig_eqb_eq in E. subst. exists [], r. split; reflexivity.
  - destruct H as [->|H]; [rewrite (proj2 (sig_eqb_eq s s) eq_refl) in E; discriminate|].
    destruct (IH H) as (a & b & -> & R). exists (x :: a), b. rewrite R. split; reflexivity.
Qed.

Lemma remove_go_view db t size s db' :
  db_remove_go db t size s = Some db' ->
  exists pre post, view db = pre ++ [(t, s)] ++ post /\ view db' = pre ++ post.
Proof.
  revert db'. induction db as [|l r IH]; intros db' H; [discriminate|].
  cbn [db_remove_go] in H.
  destruct (guid_eqb (sl_type l) t && (sl_size l =? size) && list_has l s) eqn:C.
  - apply andb_true_iff in C as [C Hh]. apply andb_true_iff in C as [Ct _].
    apply guid_eqb_eq in Ct. apply list_has_in in Hh.
    destruct (remove_first_split _ _ Hh) as (a & b & Es & Er).
    cbn [view flat_map]. fold (view r). unfold list_view at 1. rewrite Ct.
    remember (sl_sigs l) as sg eqn:Esig.
    remember (remove_first sg s) as rf eqn:Erf.
    destruct sg as [|x [|y tl]].
    + destruct a; discriminate.
    + injection H as <-. destruct a as [|? a]; [|destruct a; discriminate].
      cbn in Es. injection Es as -> <-. exists [], (view r). split; reflexivity.
    + injection H as <-. rewrite Es. exists (map (fun s0 => (t, s0)) a), (map (fun s0 => (t, s0)) b ++ view r).
      split.
      * rewrite !map_app, <- !app_assoc. reflexivity.
      * rewrite Er. cbn [view flat_map]. fold (view r). unfold list_view. cbn [sl_type sl_sigs].
        rewrite Ct, map_app, <- app_assoc. reflexivity.
  - destruct (db_remove_go r t size s) as [r'|] eqn:E; [|discriminate].
    injection H as <-. destruct (IH r' eq_refl) as (pre & post & V1 & V2).
    exists (list_view l ++ pre), post. cbn [view flat_map]. fold (view r) (view r').
    rewrite V1, V2, <- !app_assoc. split; reflexivity.
Qed.

(* a successful remove deletes exactly one matching entry; the others keep content and order *)
Theorem remove_view db t o data db' :
  db_remove db t o data = Ret db' ->
  exists pre post, view db = pre ++ [(t, mkSig o data)] ++ post /\ view db' = pre ++ post.
Proof.
  unfold db_remove. destruct (db_remove_go db t _ _) as [d|] eqn:E; [|discriminate].
  intros H. injection H as <-. eapply remove_go_view. exact E.
Qed.

(* ---------- invariants ---------- *)
Definition list_inv (l : siglist) : Prop :=
  sl_headersize l = 0 /\ sl_header l = [] /\ sl_sigs l <> [] /\
  sl_listsize l = 28 + sl_headersize l + N.of_nat (length (sl_sigs l)) * sl_size l /\
  Forall (fun s => blen (sd_data s) + 16 = sl_size l) (sl_sigs l) /\
  NoDup (sl_sigs l).
Definition db_inv (db : list siglist) : Prop := Forall list_inv db.

(* removing an absent entry is an error *)
Lemma remove_go_none db t size s :
  db_remove_go db t size s = None ->
  forall l, In l db -> sl_type l = t -> sl_size l = size -> ~ In s (sl_sigs l).
Proof.
  induction db as [|l r IH]; intros H l0 Hin Ht Hs Hc; [destruct Hin|].
  cbn [db_remove_go] in H.
  destruct (guid_eqb (sl_type l) t && (sl_size l =? size) && list_has l s) eqn:C.
  - destruct (sl_sigs l) as [|? [|? ?]]; discriminate.
  - destruct (db_remove_go r t size s) eqn:E; [discriminate|].
    destruct Hin as [->|Hin]; [|eapply IH; eauto].
    rewrite (proj2 (guid_eqb_eq _ _) Ht), (proj2 (N.eqb_eq _ _) Hs), (proj2 (list_has_in _ _) Hc) in C.
    discriminate.
Qed.

Theorem remove_absent db t o data :
  db_inv db -> (exists e, db_remove db t o data = Err e) <-> ~ In (t, mkSig o data) (view db).
Proof.
  intros Hinv. unfold db_remove. split.
  - intros [e H]. destruct (db_remove_go db t _ _) eqn:E; [discriminate|].
    intros Hv. apply in_view in Hv as (l & Hl & Ht & Hs).
    refine (remove_go_none _ _ _ _ E l Hl Ht _ Hs).
    pose proof (proj1 (Forall_forall _ _) Hinv l Hl) as (_ & _ & _ & _ & Hd & _).
    rewrite Forall_forall in Hd. symmetry. apply (Hd _ Hs).
  - intros Hn. destruct (db_remove_go db t _ _) eqn:E; [|eauto].
    apply remove_go_view in E as (pre & post & V & _). exfalso. apply Hn. rewrite V.
    apply in_or_app. right. left. reflexivity.
Qed.

Lemma nodup_snoc {A} (l : list A) x : NoDup l -> ~ In x l -> NoDup (l ++ [x]).
Proof.
  intros H Hx. induction H as [|y l Hy Hl IH]; cbn; [constructor; [tauto|constructor]|].
  constructor.
  - rewrite in_app_iff. cbn. intros [?|[?|[]]]; [tauto|subst; apply Hx; left; reflexivity].
  - apply IH. intros ?. apply Hx. right. assumption.
Qed.

Lemma list_append_inv l o d l' :
  (sl_sigs l = [] \/ (list_inv l /\ sl_size l = blen (normalize (sl_type l) d) + 16)) ->
  sl_headersize l = 0 -> sl_header l = [] -> sl_listsize l = 28 + N.of_nat (length (sl_sigs l)) * sl_size l ->
  list_append l o d = Ret l' -> list_inv l'.
Proof.
  intros Hcase Hh0 Hh1 Hls. unfold list_append.
  destruct (list_has l _) eqn:Ehas; [discriminate|].
  destruct (_ && _); [discriminate|]. destruct (_ && _); [discriminate|]. intros E. injection E as <-.
  unfold list_inv. cbn [sl_headersize sl_header sl_sigs sl_listsize sl_size sl_type].
  assert (Hni : ~ In (mkSig o (normalize (sl_type l) d)) (sl_sigs l)).
  { intros Hc. apply list_has_in in Hc. congruence. }
  split; [exact Hh0|]. split; [exact Hh1|]. split; [destruct (sl_sigs l); discriminate|].
  rewrite app_length. cbn [length].
  destruct Hcase as [Hnil|[(_ & _ & _ & _ & Hd & Hnd) Hsz]].
  - rewrite Hnil in *. cbn [length app] in *. split; [lia|]. split; [constructor; [reflexivity|constructor]|].
    constructor; [intros []|constructor].
  - split; [lia|]. split.
    + apply Forall_app. split; [rewrite <- Hsz; exact Hd|constructor; [reflexivity|constructor]].
    + apply nodup_snoc; assumption.
Qed.

Lemma append_first_inv db t size o d x db' :
  db_inv db -> size = blen (normalize t d) + 16 ->
  append_first db t size o d = Some x -> x = Ret db' -> db_inv db'.
Proof.
  intros Hinv Hsz. subst size. revert x db' Hinv.
  induction db as [|l r IH]; intros x db' Hinv H Hx; [discriminate|].
  apply Forall_cons_iff in Hinv as [Hl Hr].
  cbn [append_first] in H.
  destruct (guid_eqb (sl_type l) t && (sl_size l =? blen (normalize t d) + 16)) eqn:C.
  - injection H as <-. apply bind_ret_inv in Hx as (l' & Hl' & E). injection E as <-.
    apply andb_true_iff in C as [Ct Cs]. apply guid_eqb_eq in Ct. apply N.eqb_eq in Cs.
    constructor; [|exact Hr].
    pose proof Hl as (H0 & H1 & _ & H3 & _).
    eapply list_append_inv; [right; split; [exact Hl|rewrite Ct; exact Cs]|exact H0|exact H1| |exact Hl'].
    rewrite H3, H0. lia.
  - destruct (append_first r t _ o d) as [y|] eqn:E; [|discriminate].
    injection H as <-. apply bind_ret_inv in Hx as (r' & Hr' & E'). injection E' as <-.
    constructor; [exact Hl|]. eapply IH; eauto.
Qed.

(* the stored form of the data must be stable under a second normalisation
   (a DER certificate is not itself PEM text) *)
Theorem append_inv db t o data db' :
  normalize t (normalize t data) = normalize t data ->
  db_inv db -> db_append db t o data = Ret db' -> db_inv db'.
Proof.
  intros Hst Hinv. unfold db_append. destruct (valid_scheme t); [|discriminate]. cbn [negb].
  destruct (db_has db t _); [discriminate|].
  destruct (append_first db t _ o (normalize t data)) as [x|] eqn:E.
  - intros Hx. rewrite <- Hst in E at 1. eapply append_first_inv; [exact Hinv| |exact E|exact Hx].
    rewrite Hst. reflexivity.
  - intros H. apply bind_ret_inv in H as (l' & Hl & E'). injection E' as <-.
    apply Forall_app. split; [exact Hinv|]. constructor; [|constructor].
    apply (list_append_inv (empty_list t) o (normalize t data) l'); [left; reflexivity|reflexivity|reflexivity|reflexivity|exact Hl].
Qed.

Lemma remove_first_in sigs s x : In x (remove_first sigs s) -> In x sigs.
Proof.
  induction sigs as [|y r IH]; cbn; [tauto|]. destruct (sig_eqb s y); [tauto|].
  intros [->|H]; [tauto|right; apply IH; exact H].
Qed.

Lemma remove_first_nodup sigs s : NoDup sigs -> NoDup (remove_first sigs s).
Proof.
  induction 1 as [|y r Hy Hr IH]; cbn; [constructor|]. destruct (sig_eqb s y); [exact Hr|].
  constructor; [|exact IH]. intros Hc. apply Hy. eapply remove_first_in. exact Hc.
Qed.

Lemma remove_first_length sigs s : In s sigs -> S (length (remove_first sigs s)) = length sigs.
Proof.
  intros H. destruct (remove_first_split _ _ H) as (a & b & -> & ->).
  rewrite !app_length. cbn. lia.
Qed.

Theorem remove_inv db t o data db' : db_inv db -> db_remove db t o data = Ret db' -> db_inv db'.
Proof.
  unfold db_remove. destruct (db_remove_go db t _ _) as [d|] eqn:E; [|discriminate].
  intros Hinv H. injection H as <-. revert d E.
  induction db as [|l r IH]; intros d E; [discriminate|].
  inversion Hinv as [|? ? Hl Hr]; subst. cbn [db_remove_go] in E.
  destruct (guid_eqb (sl_type l) t && (sl_size l =? blen data + 16) && list_has l (mkSig o data)) eqn:C.
  - apply andb_true_iff in C as [_ Hh]. apply list_has_in in Hh.
    destruct Hl as (H0 & H1 & H2 & H3 & H4 & H5).
    remember (sl_sigs l) as sg eqn:Es in *.
    pose proof (remove_first_length sg _ Hh) as HL.
    pose proof (remove_first_nodup sg (mkSig o data) H5) as HN.
    assert (HF : Forall (fun s => blen (sd_data s) + 16 = sl_size l) (remove_first sg (mkSig o data))).
    { rewrite Forall_forall in *. intros z Hz. apply H4. eapply remove_first_in. exact Hz. }
    remember (remove_first sg (mkSig o data)) as rf eqn:Erf in *.
    destruct sg as [|x [|y tl]]; [contradiction| |].
    + injection E as <-. exact Hr.
    + injection E as <-. constructor; [|exact Hr].
      unfold list_inv. cbn [sl_headersize sl_header sl_sigs sl_listsize sl_size].
      split; [exact H0|]. split; [exact H1|].
      split; [intros Hc; rewrite Hc in HL; cbn in HL; lia|].
      split; [cbn [length] in *; lia|].
      split; [exact HF|exact HN].
  - destruct (db_remove_go r t _ _) as [r'|] eqn:E'; [|discriminate].
    injection E as <-. constructor; [exact Hl|]. apply IH; [exact Hr|reflexivity].
Qed.

Theorem append_list_inv db l : db_inv db -> list_inv l -> db_inv (db_append_list db l).
Proof. intros H Hl. apply Forall_app. split; [exact H|constructor; [exact Hl|constructor]]. Qed.

Theorem append_list_view db l : view (db_append_list db l) = view db ++ list_view l.
Proof. unfold db_append_list. rewrite view_app. cbn [view flat_map]. rewrite app_nil_r. reflexivity. Qed.

(* every database reachable by append / remove / append-list keeps the invariant *)
Definition op_ok (op : dbop) : Prop :=
  match op with
  | OpAppend t o d => normalize t (normalize t d) = normalize t d
  | OpAppendList l => list_inv l
  | OpRemove _ _ _ => True
  | OpRecode => False
  end.

Theorem history_inv ops : forall db,
  db_inv db -> Forall op_ok ops -> db_inv (fold_left (fun d op => fst (db_step pem_decode d op)) ops db).
Proof.
  induction ops as [|op ops IH]; intros db Hinv Hok; [exact Hinv|].
  inversion Hok as [|? ? H1 H2]; subst. cbn [fold_left]. apply IH; [|exact H2].
  destruct op as [t o d|t o d|l|]; cbn [db_step op_ok] in *.
  - destruct (db_append db t o d) eqn:E; cbn [fst]; try exact Hinv. eapply append_inv; eauto.
  - destruct (SigDb.db_remove db t o d) eqn:E; cbn [fst]; try exact Hinv. eapply remove_inv; eauto.
  - cbn [fst]. apply append_list_inv; assumption.
  - contradiction.
Qed.

(* the invariant implies the list equations of C08's grammar *)
Theorem inv_sizes l : list_inv l ->
  sl_listsize l = 28 + sl_headersize l + N.of_nat (length (sl_sigs l)) * sl_size l /\
  16 <= sl_size l /\ Forall (fun s => blen (sd_data s) = sl_size l - 16) (sl_sigs l).
Proof.
  intros (H0 & H1 & H2 & H3 & H4 & H5). split; [exact H3|].
  destruct (sl_sigs l) as [|x tl] eqn:E; [contradiction|].
  inversion H4 as [|? ? Hx Htl]; subst. split; [lia|].
  rewrite Forall_forall in *. intros z Hz. specialize (H4 z Hz). lia.
Qed.

(* ---------- the list-level operations, called directly ---------- *)
(* the invariant of a list a caller holds: as list_inv, but it may be empty *)
Definition list_inv0 (l : siglist) : Prop :=
  sl_headersize l = 0 /\ sl_header l = [] /\
  sl_listsize l = 28 + sl_headersize l + N.of_nat (length (sl_sigs l)) * sl_size l /\
  Forall (fun s => blen (sd_data s) + 16 = sl_size l) (sl_sigs l) /\
  NoDup (sl_sigs l).

Lemma list_inv_inv0 l : list_inv l -> list_inv0 l.
Proof. intros (H0 & H1 & _ & H3 & H4 & H5). repeat split; assumption. Qed.
Lemma list_inv0_inv l : list_inv0 l -> sl_sigs l <> [] -> list_inv l.
Proof. intros (H0 & H1 & H3 & H4 & H5) Hn. repeat split; assumption. Qed.
Lemma empty_list_inv0 t : list_inv0 (empty_list t).
Proof. repeat split; cbn; try reflexivity; constructor. Qed.

(* a successful list-level append adds exactly the entry, in stored form, at the end *)
Theorem list_append_ok l o d l' :
  list_append l o d = Ret l' ->
  sl_type l' = sl_type l /\ sl_sigs l' = sl_sigs l ++ [mkSig o (normalize (sl_type l) d)] /\
  ~ In (mkSig o (normalize (sl_type l) d)) (sl_sigs l).
Proof.
  unfold list_append. destruct (list_has l _) eqn:Ehas; [discriminate|].
  destruct (_ && _); [discriminate|]. destruct (_ && _); [discriminate|].
  intros E. injection E as <-. cbn [sl_type sl_sigs]. split; [reflexivity|]. split; [reflexivity|].
  intros Hc. apply list_has_in in Hc. congruence.
Qed.

(* an entry of another size than the list's entries is refused: the size fields
   of a non-empty list describe every entry *)
Theorem list_append_wrong_size l o d :
  sl_sigs l <> [] -> sl_size l <> blen (normalize (sl_type l) d) + 16 ->
  exists e, list_append l o d = Err e.
Proof.
  intros Hn Hs. unfold list_append. destruct (list_has l _); [eauto|].
  destruct (_ && _); [eauto|].
  destruct (sl_sigs l) as [|x r] eqn:E; [contradiction|]. cbn [is_nil negb andb].
  destruct (N.eqb_spec (sl_size l) (blen (normalize (sl_type l) d) + 16)) as [Heq|_]; [contradiction|].
  cbn [negb]. eauto.
Qed.
Theorem list_append_dup l o d :
  In (mkSig o (normalize (sl_type l) d)) (sl_sigs l) -> exists e, list_append l o d = Err e.
Proof.
  intros H. unfold list_append. rewrite (proj2 (list_has_in _ _) H). eauto.
Qed.
Theorem list_append_sha256_size l o d :
  sl_type l = CERT_SHA256 -> blen d <> 32 -> exists e, list_append l o d = Err e.
Proof.
  intros Ht Hd. unfold list_append, normalize. rewrite Ht. cbn.
  destruct (list_has l _); [eauto|].
  destruct (N.eqb_spec (blen d) 32) as [?|_]; [contradiction|]. cbn. eauto.
Qed.

Theorem list_append_inv0 l o d l' : list_inv0 l -> list_append l o d = Ret l' -> list_inv l'.
Proof.
  intros Hinv H. pose proof Hinv as (H0 & H1 & H3 & H4 & H5).
  destruct (sl_sigs l) as [|x r] eqn:Es.
  - eapply list_append_inv; [left; exact Es|exact H0|exact H1| |exact H].
    rewrite ?Es, H3, H0, ?Es. cbn [length]. lia.
  - assert (Hn : sl_sigs l <> []) by (rewrite Es; discriminate).
    assert (Hsz : sl_size l = blen (normalize (sl_type l) d) + 16).
    { destruct (N.eq_dec (sl_size l) (blen (normalize (sl_type l) d) + 16)) as [e|ne]; [exact e|].
      destruct (list_append_wrong_size l o d Hn ne) as [e He]. rewrite He in H. discriminate. }
    eapply list_append_inv; [right; split; [apply list_inv0_inv; [exact Hinv|rewrite ?Es; first [exact Hn|discriminate]]|exact Hsz]|exact H0|exact H1| |exact H].
    rewrite ?Es, H3, H0, ?Es. lia.
Qed.

(* a successful list-level remove deletes one matching entry *)
Theorem list_remove_ok l o d l' :
  list_remove l o d = Ret l' ->
  sl_type l' = sl_type l /\
  exists pre post, sl_sigs l = pre ++ [mkSig o d] ++ post /\ sl_sigs l' = pre ++ post.
Proof.
  unfold list_remove. destruct (list_has l _) eqn:Ehas; [|discriminate].
  apply list_has_in in Ehas. destruct (remove_first_split _ _ Ehas) as (a & b & Ea & Eb).
  destruct (sl_sigs l) as [|x [|y r]] eqn:Es.
  - destruct Ehas.
  - intros E. injection E as <-. cbn [empty_list sl_type sl_sigs]. split; [reflexivity|].
    exists a, b. split; [exact Ea|].
    destruct a as [|a0 a']; [destruct b; [reflexivity|discriminate]|].
    destruct a'; discriminate.
  - intros E. injection E as <-. cbn [sl_type sl_sigs]. split; [reflexivity|].
    exists a, b. split; assumption.
Qed.

Theorem list_remove_absent l o d :
  (exists e, list_remove l o d = Err e) <-> ~ In (mkSig o d) (sl_sigs l).
Proof.
  unfold list_remove. split.
  - intros [e H] Hin. rewrite (proj2 (list_has_in _ _) Hin) in H.
    destruct (sl_sigs l) as [|? [|? ?]]; discriminate.
  - intros Hn. destruct (list_has l _) eqn:E; [apply list_has_in in E; contradiction|eauto].
Qed.

Lemma remove_first_size sigs s sz :
  In s sigs -> N.of_nat (length sigs) * sz = N.of_nat (length (remove_first sigs s)) * sz + sz.
Proof. intros H. rewrite <- (remove_first_length _ _ H), Nat2N.inj_succ, N.mul_succ_l. lia. Qed.

Theorem list_remove_inv0 l o d l' : list_inv0 l -> list_remove l o d = Ret l' -> list_inv0 l'.
Proof.
  intros (H0 & H1 & H3 & H4 & H5). unfold list_remove.
  destruct (list_has l _) eqn:Ehas; [|discriminate]. apply list_has_in in Ehas.
  destruct (sl_sigs l) as [|x [|y r]] eqn:Es.
  - destruct Ehas.
  - intros E. injection E as <-. apply empty_list_inv0.
  - intros E. injection E as <-. unfold list_inv0. cbn [sl_headersize sl_header sl_listsize sl_size sl_sigs].
    pose proof (remove_first_length _ _ Ehas) as Hlen.
    split; [exact H0|]. split; [exact H1|]. split; [|split].
    + rewrite H3. pose proof (remove_first_size _ _ (sl_size l) Ehas) as Hsz.
      cbn [remove_first] in Hsz |- *. rewrite Hsz. lia.
    + rewrite Forall_forall in *. intros z Hz. apply H4. eapply remove_first_in. exact Hz.
    + exact (remove_first_nodup _ (mkSig o d) H5).
Qed.

(* the index Exists reports is that of the first matching entry *)
Theorem index_of_spec sigs s :
  match index_of sigs s with
  | Some i => exists pre post, sigs = pre ++ [s] ++ post /\ N.of_nat (length pre) = i /\ ~ In s pre
  | None => ~ In s sigs
  end.
Proof.
  induction sigs as [|x r IH]; cbn [index_of]; [intros []|].
  destruct (sig_eqb s x) eqn:E.
  - apply sig_eqb_eq in E. subst. exists [], r. repeat split. intros [].
  - assert (Hne : s <> x) by (intros ->; rewrite (proj2 (sig_eqb_eq x x) eq_refl) in E; discriminate).
    destruct (index_of r s) as [i|].
    + destruct IH as (pre & post & -> & Hl & Hn). exists (x :: pre), post. split; [reflexivity|]. split.
      * cbn [length]. lia.
      * intros [Hc|Hc]; [apply Hne; symmetry; exact Hc|exact (Hn Hc)].
    + intros [Hc|Hc]; [apply Hne; symmetry; exact Hc|exact (IH Hc)].
Qed.

(* every list reachable by direct appends and removes keeps the invariant *)
Theorem list_history_inv ops : forall l,
  list_inv0 l -> list_inv0 (fold_left (fun x op => fst (list_step pem_decode x op)) ops l).
Proof.
  induction ops as [|op ops IH]; intros l Hinv; [exact Hinv|].
  cbn [fold_left]. apply IH. destruct op as [o d|o d]; cbn [list_step].
  - destruct (list_append l o d) eqn:E; cbn [fst]; try exact Hinv.
    apply list_inv_inv0. eapply list_append_inv0; eauto.
  - destruct (list_remove l o d) eqn:E; cbn [fst]; try exact Hinv.
    eapply list_remove_inv0; eauto.
Qed.
End Db.

(* a list kept by the operations is a well-formed list of the stream grammar
   as soon as its type is one the decoder handles and its GUIDs are in range *)
Theorem inv_wf l :
  list_inv l -> wf_guid (sl_type l) -> size_ok (sl_type l) (sl_headersize l) (sl_size l) = true ->
  Forall (fun s => wf_guid (sd_owner s)) (sl_sigs l) -> sl_listsize l < 4294967296 ->
  wf_list l.
Proof.
  intros Hinv Ht Hok Ho Hb. destruct (inv_sizes l Hinv) as (H3 & H16 & Hd).
  destruct Hinv as (H0 & H1 & H2 & _ & _ & _).
  unfold wf_list. split; [exact Ht|]. split; [exact Hok|]. split; [exact H1|]. split; [exact H16|].
  split; [exact H3|]. split; [exact Hb|]. split.
  - destruct (sl_sigs l) as [|x tl] eqn:E; [contradiction|]. cbn [length] in H3. nia.
  - rewrite Forall_forall in *. intros s Hs. split; [apply Ho; exact Hs|apply Hd; exact Hs].
Qed.

Theorem ops_roundtrip db :
  Forall (fun l => list_inv l /\ wf_guid (sl_type l) /\
                   size_ok (sl_type l) (sl_headersize l) (sl_size l) = true /\
                   Forall (fun s => wf_guid (sd_owner s)) (sl_sigs l) /\ sl_listsize l < 4294967296) db ->
  read_signature_database (enc_db db) = Ret db.
Proof.
  intros H. apply SigListProofs.decode_encode. rewrite Forall_forall in *. intros l Hl.
  destruct (H l Hl) as (A & B & C & D & E). apply inv_wf; assumption.
Qed.
