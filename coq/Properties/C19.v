(* Properties/C19.v -- read-only operations are pure, repeatable and safe to
   call concurrently. Theorems only: every one is closed by a lemma of
   Proofs/SharedProofs.v. The shared state includes what a Go object could move:
   the cursor of every stored reader, the read offset of the certificate-table
   buffer and of the signed-update buffer, the database's list of lists. *)
From Coq Require Import Bool List NArith Arith.
From Coq.Strings Require Import Byte.
From GoUefi Require Import Base.Bytes Base.Outcome Base.Sha256 Model.Util Model.WinCert Model.SigList Model.SigDb
     Model.Pkcs7 Model.PE Model.PEVerify Model.Shared Proofs.SharedProofs.
Import ListNotations.
Local Open Scope N_scope.

Section C19.
Variable utctime_ok : bytes -> bool.
Variable x509_ok : bytes -> bool.
Variable rsa_ok : N -> bytes -> bytes -> bool.
Let image_op := image_op utctime_ok x509_ok rsa_ok.

(* Hash / Bytes / Open / Signatures / Verify leave every cell of the object as it was *)
Theorem C19_pure_image : forall t s, image_op t -> snd (exec t s) = s.
Proof. intros t s H. apply exec_ro. exact (image_op_ro _ _ _ t H). Qed.
Theorem C19_pure_database : forall t d, db_op t -> snd (exec t d) = d.
Proof. intros t d H. apply exec_ro. exact (db_op_ro t H). Qed.
Theorem C19_pure_value : forall b, snd (exec op_val_marshal b) = b.
Proof. intros b. exact (exec_ro _ ro_val_marshal b). Qed.

(* any number of calls, in any order: the i-th result is that of the call made
   alone on the object, and the object is unchanged *)
Theorem C19_repeat_image : forall ops s, Forall image_op ops ->
  run_seq ops s = (map (fun t => fst (exec t s)) ops, s).
Proof. exact (repeat_image utctime_ok x509_ok rsa_ok). Qed.
Theorem C19_repeat_database : forall ops d, Forall db_op ops ->
  run_seq ops d = (map (fun t => fst (exec t d)) ops, d).
Proof. exact repeat_database. Qed.
Theorem C19_repeat_value : forall n b,
  run_seq (repeat op_val_marshal n) b = (repeat (buf_now b) n, b).
Proof. exact repeat_value. Qed.

(* any number of goroutines, each in the middle of or done with such a call, under
   every interleaving of their accesses: the object is unchanged, and whichever
   call has finished holds the result of that call made alone *)
Theorem C19_schedules_image : forall sigma s p, Forall image_op p ->
  fst (sched sigma s p) = s /\
  forall i t t' r, nth_error p i = Some t -> nth_error (snd (sched sigma s p)) i = Some t' ->
    result t' = Some r -> r = fst (exec t s).
Proof. exact (schedules_image utctime_ok x509_ok rsa_ok). Qed.
Theorem C19_schedules_database : forall sigma d p, Forall db_op p ->
  fst (sched sigma d p) = d /\
  forall i t t' r, nth_error p i = Some t -> nth_error (snd (sched sigma d p)) i = Some t' ->
    result t' = Some r -> r = fst (exec t d).
Proof. exact schedules_database. Qed.
Theorem C19_schedules_value : forall sigma b n,
  let p := repeat op_val_marshal n in
  fst (sched sigma b p) = b /\
  forall i t' r, (i < n)%nat -> nth_error (snd (sched sigma b p)) i = Some t' -> result t' = Some r -> r = buf_now b.
Proof. exact schedules_value. Qed.
(* a parsed PKCS#7 object: any number of verifications of any certificates, in any
   order and interleaving; the verdict for one certificate never depends on which
   others were verified on the same object before *)
Theorem C19_repeat_pkcs7 : forall ops p, Forall (p7_op rsa_ok) ops ->
  run_seq ops p = (map (fun t => fst (exec t p)) ops, p).
Proof. exact (repeat_p7 rsa_ok). Qed.
Theorem C19_schedules_pkcs7 : forall sigma p pool, Forall (p7_op rsa_ok) pool ->
  fst (sched sigma p pool) = p /\
  forall i t t' r, nth_error pool i = Some t -> nth_error (snd (sched sigma p pool)) i = Some t' ->
    result t' = Some r -> r = fst (exec t p).
Proof. exact (schedules_p7 rsa_ok). Qed.
(* every call finishes once it has been given enough turns *)
Theorem C19_progress : forall (t : tprog istate ires) s, exists n, forall m, (n <= m)%nat ->
  solo m s t = (snd (exec t s), TDone (fst (exec t s))).
Proof. exact (fun t s => solo_finishes t s). Qed.

(* the results are the functions the other properties are about, of the object as the calls see it *)
Theorem C19_results : forall s c,
  fst (exec op_bytes s) = IBytes (pe_bytes (view s)) /\
  fst (exec op_hash s) = IHash (option_map sha256 (hash_content (view s))) /\
  fst (exec op_sigs s) = ISigs (pe_signatures (view s)) /\
  fst (exec (op_verify utctime_ok x509_ok rsa_ok c) s) = IVerify (pe_verify utctime_ok x509_ok rsa_ok (view s) c).
Proof. exact (results_image utctime_ok x509_ok rsa_ok). Qed.
Theorem C19_fresh_view : forall st, view (fresh st) = st.
Proof. exact view_fresh. Qed.
End C19.

(* the model can express the accidents the property names: with them the second
   call differs from the first, or the results depend on the schedule *)
Theorem C19_sensitive :
  (let r := fst (run_seq [op_bytes_shared_readers; op_bytes_shared_readers] toy) in nth_error r 0 <> nth_error r 1) /\
  (let r := fst (run_seq [op_sigs_consuming; op_sigs_consuming] toy) in nth_error r 0 <> nth_error r 1) /\
  (let r := fst (run_seq [op_val_marshal_ptr; op_val_marshal_ptr] (mkB (repeat x01 4) 0)) in nth_error r 0 <> nth_error r 1) /\
  (let p := [op_bytes_shared_readers; op_bytes_shared_readers] in
   map result (snd (sched [0; 0; 0; 0; 0; 1; 1; 1; 1; 1]%nat toy p)) <>
   map result (snd (sched [1; 0; 0; 0; 0; 0; 1; 1; 1; 1]%nat toy p))).
Proof.
  exact (conj shared_readers_not_repeatable (conj consuming_signatures_not_repeatable
        (conj pointer_receiver_not_repeatable shared_readers_schedule_dependent))).
Qed.

Print Assumptions C19_pure_image.
Print Assumptions C19_pure_database.
Print Assumptions C19_pure_value.
Print Assumptions C19_repeat_image.
Print Assumptions C19_repeat_database.
Print Assumptions C19_repeat_value.
Print Assumptions C19_schedules_image.
Print Assumptions C19_schedules_database.
Print Assumptions C19_schedules_value.
Print Assumptions C19_repeat_pkcs7.
Print Assumptions C19_schedules_pkcs7.
Print Assumptions C19_progress.
Print Assumptions C19_results.
Print Assumptions C19_fresh_view.
Print Assumptions C19_sensitive.
