(* Properties/C08.v -- Signature-database decoding never silently drops,
   truncates or misreads input. Theorems only. *)
From Coq Require Import Bool List NArith Lia.
From Coq.Strings Require Import Byte.
From GoUefi Require Import Base.Bytes Base.Outcome Base.Reader Model.Util Model.SigList
  Proofs.SigListProofs.
Import ListNotations.
Local Open Scope N_scope.

(* success only if the whole input is consumed as well-formed lists: the input
   IS the concatenation of the encodings of the returned lists, each of which
   satisfies ListSize = 28 + HeaderSize + count*Size, Size >= 16, the size rule
   of its type (48 for SHA-256), every data length Size-16 *)
Theorem C08_strict : forall bs db,
  read_signature_database bs = Ret db -> bs = enc_db db /\ Forall wf_list db.
Proof. exact decode_strict. Qed.

(* equivalently: every byte string outside that language produces an error *)
Theorem C08_rejects : forall bs,
  (forall db, Forall wf_list db -> bs <> enc_db db) -> exists e, read_signature_database bs = Err e.
Proof. exact reject_outside. Qed.

(* the size equations, spelled out *)
Theorem C08_wf_list_equations : forall l, wf_list l ->
  sl_listsize l = 28 + sl_headersize l + N.of_nat (length (sl_sigs l)) * sl_size l /\
  16 <= sl_size l /\ (sl_type l = CERT_SHA256 -> sl_size l = 48) /\
  Forall (fun s => blen (sd_data s) = sl_size l - 16) (sl_sigs l).
Proof.
  intros l (Ht & Hok & Hh & Hs & Hls & Hlb & Hsb & Hw). split; [exact Hls|]. split; [exact Hs|]. split.
  - intros E. rewrite E in Hok. unfold size_ok in Hok.
    change (guid_eqb CERT_SHA256 CERT_X509) with false in Hok.
    change (guid_eqb CERT_SHA256 CERT_SHA256) with true in Hok. cbn iota in Hok.
    apply andb_true_iff in Hok as [_ H]. apply N.eqb_eq in H. exact H.
  - rewrite Forall_forall in *. intros s H. apply (Hw s H).
Qed.

(* the truncations and size-field edits that used to be accepted are errors *)
Definition ex_stream : bytes :=
  enc_db [ mkList CERT_SHA256 172 0 48 []
             [mkSig guid_zero (repeat x11 32); mkSig guid_zero (repeat x22 32); mkSig guid_zero (repeat x33 32)] ].
Definition is_err {A} (o : outcome A) : bool := match o with Err _ => true | _ => false end.
Example C08_example_valid : exists db, read_signature_database ex_stream = Ret db /\ length db = 1%nat.
Proof. eexists. split; [vm_compute; reflexivity|reflexivity]. Qed.
Example C08_example_truncations :
  forallb (fun k => is_err (read_signature_database (firstn k ex_stream))) [16; 20; 24; 28; 76; 92; 124; 171]%nat = true.
Proof. vm_compute. reflexivity. Qed.
Example C08_example_listsize_20 :
  is_err (read_signature_database (firstn 16 ex_stream ++ le 4 20 ++ skipn 20 ex_stream)) = true.
Proof. vm_compute. reflexivity. Qed.

Print Assumptions C08_strict.
Print Assumptions C08_rejects.
Print Assumptions C08_wf_list_equations.
