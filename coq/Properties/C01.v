(* Properties/C01.v -- Image digest equals the Authenticode PE hash defined by
   the specification. Theorems only. The digest is SHA-256 of the pre-image;
   statements are about the pre-image, so that "the digest changes" reads
   "the pre-images differ" (equal digests of different pre-images would be an
   explicit SHA-256 collision, which is never assumed away). *)
From Coq Require Import Bool List NArith Lia.
From Coq.Strings Require Import Byte.
From GoUefi Require Import Base.Bytes Base.Outcome Base.Reader Base.Sha256 Model.WinCert Model.PE Proofs.PEProofs.
Import ListNotations.
Local Open Scope N_scope.

(* for every well-formed image -- any section count, header order vs file order,
   zero-size sections, gaps, trailing data, length mod 8, e_lfanew,
   SizeOfHeaders, existing certificate table -- Parse accepts and the bytes fed
   to the hash are the specification's: the positions of steps 3-14 of the
   Microsoft procedure, in order, zero-padded to a multiple of 8 *)
Theorem C01_digest_eq_spec : forall img L,
  wf_image img L ->
  exists st, pe_parse true img = Ret st /\ pe_L st = L /\ pe_img st = img /\
             hash_content st = Some (spec_content L img).
Proof. exact parse_wf. Qed.

Theorem C01_ranges_eq_spec : forall L img,
  wf_layout L -> l_size L = blen img -> hash_ranges L img = spec_content L img.
Proof. exact ranges_eq_spec. Qed.

(* excluded: exactly the checksum field, the certificate-table directory entry
   and the certificate table *)
Theorem C01_excluded_not_covered : forall L p, wf_layout L ->
  (l_cksum L <= p < l_cksum L + 4 \/ l_dd4 L <= p < l_dd4 L + 8 \/
   (l_certsize L <> 0 /\ l_va L <= p < l_va L + l_certsize L)) -> ~ is_covered L p.
Proof. exact excluded_not_covered. Qed.

(* changing only a checksum byte or a byte of the certificate table changes
   neither the layout nor the pre-image (hence not the digest) *)
Theorem C01_flip_excluded : forall img img' L p,
  wf_image img L -> differ_only_at p img img' ->
  (l_cksum L <= p < l_cksum L + 4 \/ (l_certsize L <> 0 /\ l_va L <= p < l_va L + l_certsize L)) ->
  read_layout img' = Some L /\ spec_content L img' = spec_content L img.
Proof. exact excluded_checksum_or_table. Qed.
(* any byte that is not hashed, as long as the layout stays (the directory
   entry determines the layout, so it is covered by this form only) *)
Theorem C01_flip_excluded_same_layout : forall L p img img',
  differ_only_at p img img' -> ~ is_covered L p -> spec_content L img' = spec_content L img.
Proof. exact excluded_same. Qed.

(* changing any covered byte changes the pre-image: for two well-formed images
   of the same length that differ exactly at a covered position, whatever the
   change does to the layout *)
Theorem C01_flip_covered : forall img img' L L' p,
  wf_image img L -> wf_image img' L' -> differ_only_at p img img' ->
  nth (N.to_nat p) img x00 <> nth (N.to_nat p) img' x00 -> is_covered L p ->
  spec_content L img <> spec_content L' img'.
Proof. exact covered_sensitive. Qed.
(* ... so equal digests would exhibit two different byte strings with the same SHA-256 *)
Theorem C01_equal_digest_is_collision : forall img img' L L' p,
  wf_image img L -> wf_image img' L' -> differ_only_at p img img' ->
  nth (N.to_nat p) img x00 <> nth (N.to_nat p) img' x00 -> is_covered L p ->
  sha256 (spec_content L img) = sha256 (spec_content L' img') ->
  exists a b, a <> b /\ sha256 a = sha256 b.
Proof.
  intros img img' L L' p H1 H2 H3 H4 H5 H6. exists (spec_content L img), (spec_content L' img').
  split; [eapply covered_sensitive; eassumption|exact H6].
Qed.

(* the layout is a function of the header bytes only *)
Theorem C01_layout_from_headers : forall k img img' L,
  agree_below k img img' -> read_layout img = Some L -> l_soo L <> 0 -> header_end L <= k -> k <= blen img ->
  read_layout img' = Some L.
Proof. exact read_layout_agree. Qed.

Print Assumptions C01_digest_eq_spec.
Print Assumptions C01_ranges_eq_spec.
Print Assumptions C01_excluded_not_covered.
Print Assumptions C01_flip_excluded.
Print Assumptions C01_flip_excluded_same_layout.
Print Assumptions C01_flip_covered.
Print Assumptions C01_equal_digest_is_collision.
Print Assumptions C01_layout_from_headers.

(* the executable well-formedness test used on every generated image is sound *)
Theorem C01_wf_test_sound : forall img, wf_image_b img = true -> exists L, wf_image img L.
Proof. exact wf_image_b_sound. Qed.
Print Assumptions C01_wf_test_sound.

(* non-vacuity: a PE32+ image with two sections whose table order (second,
   first) differs from their file order, and five trailing bytes *)
Definition ex_img : bytes :=
  [x4d; x5a] ++ zeros 58 ++ le 4 64 ++                                   (* DOS header, e_lfanew = 64 *)
  [x50; x45; x00; x00] ++                                                (* PE\0\0 *)
  le 2 34404 ++ le 2 2 ++ zeros 12 ++ le 2 240 ++ le 2 2 ++              (* COFF: AMD64, 2 sections, optional header 240 *)
  le 2 523 ++ zeros 58 ++ le 4 408 ++ zeros 44 ++ le 4 16 ++ zeros 128 ++ (* optional header: PE32+, SizeOfHeaders 408, 16 directories *)
  (zeros 16 ++ le 4 16 ++ le 4 424 ++ zeros 16) ++                        (* section 1: 16 bytes at 424 *)
  (zeros 16 ++ le 4 16 ++ le 4 408 ++ zeros 16) ++                        (* section 2: 16 bytes at 408 *)
  repeat x11 16 ++ repeat x22 16 ++ [x01; x02; x03; x04; x05].           (* data, trailing *)
Example C01_example :
  wf_image_b ex_img = true /\ length ex_img = 445%nat /\
  match read_layout ex_img with
  | Some L => hashed_secs L = [(408, 16); (424, 16)] /\ length (spec_content L ex_img) = 436%nat /\
              covered_b L 0 = true /\ covered_b L 152 = false /\ covered_b L 444 = true
  | None => False
  end.
Proof. vm_compute. repeat split. Qed.
