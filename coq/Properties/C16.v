(* Properties/C16.v -- Signatures made by standard third-party tools are
   parsed and verified. What is provable: completeness of the verifier on the
   supported subset (any blob that parses and whose first signer naming the
   certificate is valid per RFC 2315 verifies), rejection for every other
   certificate (C04), and that re-encoding the parsed attribute values
   reproduces the signed bytes for attribute sets in the producers' (DER-sorted)
   order contentType, signingTime, messageDigest. That OpenSSL's output lies in
   this subset is measured on fresh OpenSSL signatures on every run. *)
From Coq Require Import Bool List NArith ZArith Lia.
From Coq.Strings Require Import Byte.
From GoUefi Require Import Base.Bytes Base.Outcome Base.Reader Base.Der Base.Sha256 Model.Pkcs7
  Spec.P7Check Proofs.DerProofs Proofs.P7Proofs Proofs.P7SignProofs.
Import ListNotations.
Local Open Scope N_scope.

(* completeness: a valid first naming signer => success *)
Theorem C16_accepts : forall rsa_ok p c,
  first_named_valid rsa_ok p c = true -> pkcs7_verify rsa_ok p c = Ret true.
Proof. intros rsa_ok p c H. apply verify_exact. exact H. Qed.

(* with a single signer entry (what the tools emit) validity of that entry suffices *)
Theorem C16_accepts_single : forall rsa_ok p c si,
  p_signers p = [si] -> signer_valid rsa_ok si c (p_content p) = true -> pkcs7_verify rsa_ok p c = Ret true.
Proof.
  intros rsa_ok p c si Hs Hv. apply verify_exact. unfold first_named_valid. rewrite Hs. cbn [find].
  unfold signer_valid in Hv. destruct (names si c) eqn:E; [|discriminate]. unfold signer_valid. rewrite E. exact Hv.
Qed.

(* any other certificate: success would need a signer naming it and an RSA
   signature valid under its key *)
Theorem C16_rejects_other : forall rsa_ok p c,
  pkcs7_verify rsa_ok p c = Ret true ->
  exists si a, In si (p_signers p) /\ si_attrs si = Some a /\ c_issuer c = si_issuer si /\
    c_serial c = si_serial si /\ rsa_ok (c_key c) (add_asn1 T_SET (at_raw a)) (si_sig si) = true.
Proof.
  intros rsa_ok p c H. apply verify_sound_explicit in H as (si & a & H1 & H2 & H3 & H4 & H5 & _). eauto 10.
Qed.

(* reconstruction: for attributes in the order contentType, signingTime,
   messageDigest, re-encoding the parsed values gives exactly SET || raw bytes *)
Theorem C16_reencode : forall utctime_ok ct t d rest,
  oid_rt ct -> blen (oid_encode ct) < 1000 -> utctime_ok t = true -> blen t < 1000 -> blen d < 1000 ->
  exists a, parse_attributes utctime_ok (add_asn1 T_CTX0 (attrs_body ct (Some t) d []) ++ rest) = Ret (Some a, rest) /\
            at_ctype a = Some ct /\ at_time a = Some t /\ at_md a = d /\
            attrs_marshal ct (at_time a) (at_md a) (at_others a) = add_asn1 T_SET (at_raw a).
Proof.
  intros utctime_ok ct t d rest Ho Hl Ht Hlt Hd. eexists. split.
  - apply parse_attributes_sign; assumption.
  - cbn [at_ctype at_time at_md at_others at_raw]. repeat split.
Qed.

Print Assumptions C16_accepts.
Print Assumptions C16_accepts_single.
Print Assumptions C16_rejects_other.
Print Assumptions C16_reencode.
