(* Properties/C05.v -- Produced PKCS#7 signatures verify under independent
   implementations. What can be proved is about the model of SignPKCS7 (which
   the check compares byte for byte with the library's output): its structure,
   that the library's own parser recovers what went in, that its own verifier
   accepts it, and that it is bound to the content. Agreement of OpenSSL,
   go.mozilla.org/pkcs7 and the RFC 2315 reference verifier is sampled. *)
From Coq Require Import Bool List NArith ZArith Lia.
From Coq.Strings Require Import Byte.
From GoUefi Require Import Base.Bytes Base.Outcome Base.Reader Base.Der Base.Sha256 Model.Pkcs7
  Spec.P7Check Proofs.DerProofs Proofs.P7Proofs Proofs.P7SignProofs Proofs.AttrSort.
From Coq Require Import Permutation.
Import ListNotations.
Local Open Scope N_scope.

(* the DER that is produced: SHA-256 AlgorithmIdentifier with NULL, the
   certificate embedded, one SignerInfo identified by issuer and serial, the
   attribute SET {contentType; signingTime; messageDigest} in the order of the
   encodings (DER SET OF), RSA, the signature *)
Theorem C05_shape : forall cert_raw issuer_raw serial oid content time sig,
  sign_pkcs7 cert_raw issuer_raw serial oid content time sig =
  der_seq (der_oid OID_signedData ++ add_asn1 T_CTX0 (der_seq (
    der_int 1 ++ der_set (alg_id OID_sha256) ++
    der_seq (der_oid oid ++ (if negb (is_nilb content) && negb (oid_eqb oid OID_data)
                             then add_asn1 T_CTX0 (der_seq content) else [])) ++
    add_asn1 T_CTX0 cert_raw ++
    der_set (der_seq (
      der_int 1 ++ der_seq (issuer_raw ++ der_int serial) ++ alg_id OID_sha256 ++
      add_asn1 T_CTX0 (concat (sort_b [attr OID_attr_contentType (der_oid oid);
                                       attr OID_attr_signingTime (add_asn1 T_UTCTIME time);
                                       attr OID_attr_messageDigest (der_octets (sha256 content))])) ++
      alg_id OID_rsa ++ der_octets sig))))).
Proof. intros. reflexivity. Qed.

(* the order of the attributes is DER's for every content type, however long its
   OID: no attribute is followed by one whose encoding is smaller, and the set
   holds exactly the attributes it is made of *)
Theorem C05_attributes_der_sorted : forall l, sorted_b (sort_b l) /\ Permutation (sort_b l) l.
Proof. intros l. split; [apply sort_sorted | apply sort_perm]. Qed.

(* ... which for the content types in use (any OID of at most 12 encoded octets:
   data, SpcIndirectDataContent), a 13-character UTCTime and a SHA-256 digest is
   contentType, signingTime, messageDigest *)
Theorem C05_usual_order : forall oid t md,
  1 <= blen (oid_encode oid) <= 12 -> blen t = 13 -> blen md = 32 ->
  sort_b [attr OID_attr_contentType (der_oid oid); attr OID_attr_signingTime (add_asn1 T_UTCTIME t);
          attr OID_attr_messageDigest (der_octets md)] =
  [attr OID_attr_contentType (der_oid oid); attr OID_attr_signingTime (add_asn1 T_UTCTIME t);
   attr OID_attr_messageDigest (der_octets md)].
Proof. exact usual_order. Qed.

(* what the signer is asked to sign: SHA-256 of the DER SET of those attributes *)
Theorem C05_signed_bytes : forall oid content time,
  sign_pkcs7_tbs oid content time =
  sha256 (der_set (concat (sort_b [attr OID_attr_contentType (der_oid oid);
                                   attr OID_attr_signingTime (add_asn1 T_UTCTIME time);
                                   attr OID_attr_messageDigest (der_octets (sha256 content))]))).
Proof. intros. reflexivity. Qed.

(* serial numbers: minimal two's complement, for every non-negative value *)
Theorem C05_serial_encoding : forall n, int_decode (int_encode n) = Some (Z.of_N n).
Proof. exact int_decode_encode. Qed.

(* the library's own parser recovers content type, content, certificate and attributes *)
Theorem C05_parses : forall utctime_ok x509_ok cert_raw ib serial oid content t sig,
  sign_side utctime_ok x509_ok cert_raw ib serial oid content t sig ->
  parse_pkcs7 utctime_ok x509_ok (sign_pkcs7 cert_raw (add_asn1 T_SEQUENCE ib) serial oid content t sig) =
  Ret (signed_p7 cert_raw ib serial oid content t sig).
Proof. exact parse_sign. Qed.
(* the side conditions: the certificate parses, the time string is a UTCTime, the
   OID is one whose encoding decodes to itself, and generous size bounds *)
Theorem C05_side_conditions : forall utctime_ok x509_ok cert_raw ib serial oid content t sig,
  sign_side utctime_ok x509_ok cert_raw ib serial oid content t sig <->
  (x509_ok cert_raw = true /\ utctime_ok t = true /\ oid_rt oid /\ blen (oid_encode oid) < 1000 /\
   blen cert_raw < 1000000 /\ blen ib < 100000 /\ blen (int_encode serial) < 1000 /\
   blen content < 1000000000 /\ blen t < 1000 /\ blen sig < 100000).
Proof. intros. reflexivity. Qed.

(* ... and its own verification accepts the result for the signing certificate,
   given a correct RSA signature of the attribute SET *)
Theorem C05_self_verifies : forall rsa_ok cert_raw ib serial oid content t sig key (embedded : bool),
  blen content < 4294967290 ->
  rsa_ok key (attrs_marshal oid (Some t) (sha256 content) []) sig = true ->
  pkcs7_verify rsa_ok
    (mkP7 oid (if embedded then der_seq content else []) cert_raw OID_sha256
          [signed_signer ib serial oid content t sig])
    (mkCert (add_asn1 T_SEQUENCE ib) (Z.of_N serial) key) = Ret true.
Proof. exact self_verifies. Qed.

(* different content: valid only at the price of a SHA-256 collision *)
Theorem C05_other_content : forall rsa_ok ib serial oid content content' t sig c,
  blen content' < 4294967290 ->
  signer_valid rsa_ok (signed_signer ib serial oid content t sig) c (der_seq content') = true ->
  sha256 content' = sha256 content.
Proof. exact other_content_rejected. Qed.

(* non-vacuity: the hypotheses of C05_parses hold for the example of C04 *)
Example C05_example :
  oid_rt OID_spcIndirectData /\ blen (oid_encode OID_spcIndirectData) < 1000 /\ blen (int_encode 77) < 1000 /\
  int_encode 255 = [x00; xff] /\ int_encode 256 = [x01; x00] /\ int_encode 0 = [x00].
Proof. repeat split; vm_compute; reflexivity. Qed.

Print Assumptions C05_shape.
Print Assumptions C05_attributes_der_sorted.
Print Assumptions C05_usual_order.
Print Assumptions C05_signed_bytes.
Print Assumptions C05_serial_encoding.
Print Assumptions C05_parses.
Print Assumptions C05_side_conditions.
Print Assumptions C05_self_verifies.
Print Assumptions C05_other_content.
