(* placeholder *)
