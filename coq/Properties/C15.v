(* Properties/C15.v -- Signer, filesystem and reader failures surface as errors,
   never as success. Theorems only, for every input and every environment. *)
From Coq Require Import Bool List NArith Lia.
From Coq.Strings Require Import Byte.
From GoUefi Require Import Base.Bytes Base.Outcome Base.Reader Base.Prog Model.Util Model.VarIO Model.Faults
  Proofs.VarIOProofs Proofs.FaultProofs Generated.Sites Proofs.SitesProofs Model.PE Proofs.PEReparse.
Import ListNotations.
Local Open Scope N_scope.

(* signer: an error, and nothing else is called *)
Theorem C15_sign_fault : forall A e digest (finish : bytes -> A),
  run (fail_at 0 e) (sign_prog digest finish) 0 = (Err 1, [CSign digest]).
Proof. intros. apply sign_fault. Qed.
(* a failed image signing leaves the image object without a new signature *)
Theorem C15_pe_sign_atomic : forall S e (st : S) digest append finish,
  run (fail_at 0 e) (pe_sign_prog st digest append finish) 0 = ((Err 1, st), [CSign digest]).
Proof. intros. apply pe_sign_fault. Qed.
(* a failed signed update writes nothing *)
Theorem C15_signed_update_writes_nothing : forall e digest finish dir name g attrs,
  run (fail_at 0 e) (signed_update_prog digest finish dir name g attrs) 0 = (Err 1, [CSign digest]).
Proof. intros. apply signed_update_sign_fault. Qed.
(* the signing path of the library contains no process-termination site (regenerated from the source) *)
Theorem C15_sign_no_termination_site : sign_path_has_site = false.
Proof. exact sign_path_no_site. Qed.

(* file system, writing: open / write / close failing => error, then only Close *)
Theorem C15_write_fault : forall dir name g attrs value k, (k < 3)%nat ->
  exists e t, run (fail_at k env_ok) (write_var dir name g attrs value) 0 = (Err e, t) /\
              forallb is_close (skipn (S k) t) = true.
Proof. exact write_fault. Qed.
Theorem C15_write_short : forall dir name g attrs value,
  exists e t, run (short_at 1 env_ok) (write_var dir name g attrs value) 0 = (Err e, t) /\
              forallb is_close (skipn 2 t) = true.
Proof. exact write_short. Qed.
Theorem C15_signed_update_fs_fault : forall sig digest finish dir name g attrs k, (1 <= k <= 3)%nat ->
  let e : env := fun i c => match c with CWrite b => ROk (blen b) [] | _ => ROk 0 sig end in
  exists err t, run (fail_at k e) (signed_update_prog digest finish dir name g attrs) 0 = (Err err, t) /\
                forallb is_close (skipn (S k) t) = true.
Proof. exact signed_update_fs_fault. Qed.

(* file system, reading: open / stat / read / read / close failing => error *)
Theorem C15_read_fault : forall path required size a v k, (k <= 4)%nat -> size <> 8 ->
  exists err t, run (fail_at k (env_read size a v)) (read_var_prog path required) 0 = (Err err, t) /\
                forallb is_close (skipn (S k) t) = true.
Proof. exact read_fault. Qed.

(* image reader: whichever read fails, the operation ends in an error at once *)
Theorem C15_reader_fault : forall A n (cont : prog (outcome A)) k i, (k < n)%nat ->
  exists t, run (fail_at (i + k) env_all_ok) (reads_prog n cont) i = (Err 1, t) /\ length t = S k.
Proof. intros A n cont. exact (reads_fault n cont). Qed.

(* no wrong value from Parse: the certificate table of a parsed image is never a truncated
   one -- it has the size the directory entry gives, or Parse fails (a source that ends
   while the table is read, or an entry that points past the end of the file) *)
Theorem C15_parse_table_complete : forall ok img st,
  pe_parse ok img = Ret st -> blen (pe_table st) = pe_ddsize st.
Proof. exact parse_table_complete. Qed.

Print Assumptions C15_sign_fault.
Print Assumptions C15_pe_sign_atomic.
Print Assumptions C15_signed_update_writes_nothing.
Print Assumptions C15_sign_no_termination_site.
Print Assumptions C15_write_fault.
Print Assumptions C15_write_short.
Print Assumptions C15_signed_update_fs_fault.
Print Assumptions C15_read_fault.
Print Assumptions C15_reader_fault.
Print Assumptions C15_parse_table_complete.
