(* Properties/C06.v -- Signed variable updates have the exact
   AUTHENTICATION_2 layout and binding. Theorems only. *)
From Coq Require Import Bool List NArith ZArith Lia.
From Coq.Strings Require Import Byte.
From GoUefi Require Import Base.Bytes Base.Outcome Base.Reader Base.Der Base.Sha256 Model.Util Model.WinCert
  Model.Pkcs7 Model.VarSign Spec.P7Check Proofs.P7SignProofs Proofs.VarSignProofs.
Import ListNotations.
Local Open Scope N_scope.

(* 16-byte timestamp, WIN_CERTIFICATE_UEFI_GUID header with dwLength = 24 +
   |SignedData|, revision 0x0200, type 0x0EF1, the PKCS7 type GUID, a bare DER
   SignedData, then the payload unchanged *)
Theorem C06_layout : forall cert_raw issuer_raw serial name g attrs t payload p7time sig,
  let sd := signed_data cert_raw issuer_raw serial OID_data (signed_buffer name g attrs t payload) p7time sig in
  sign_efi_variable cert_raw issuer_raw serial name g attrs t payload p7time sig =
  write_time t ++ le 4 (24 + blen sd) ++ le 2 512 ++ le 2 3825 ++ guid_wire PKCS7_GUID ++ sd ++ payload.
Proof. exact layout. Qed.
Theorem C06_bare_signed_data : forall cert_raw issuer_raw serial oid content p7time sig,
  exists body, signed_data cert_raw issuer_raw serial oid content p7time sig = add_asn1 T_SEQUENCE body.
Proof. exact bare_sequence. Qed.

(* timestamp: year LE16, month, day, hour, minute, second; pad, nanosecond,
   timezone, daylight all zero *)
Theorem C06_time_layout : forall y mo d h mi s,
  write_time (efi_time_of y mo d h mi s) = le 2 y ++ [n2b mo; n2b d; n2b h; n2b mi; n2b s] ++ zeros 9.
Proof. exact time_layout. Qed.

(* what is signed: name (UTF-16LE for ASCII names, unterminated) || GUID ||
   attributes || timestamp || payload -- and nothing else *)
Theorem C06_signed_buffer : forall name g attrs t payload,
  signed_buffer name g attrs t payload =
  flat_map (fun c => [c; x00]) name ++ guid_wire g ++ le 4 attrs ++ write_time t ++ payload.
Proof. reflexivity. Qed.

(* firmware-style decoding of the output yields the descriptor and exactly the payload *)
Theorem C06_decodes : forall cert_raw issuer_raw serial name g attrs t payload p7time sig,
  wf_time t ->
  24 + blen (signed_data cert_raw issuer_raw serial OID_data (signed_buffer name g attrs t payload) p7time sig) < 4294967296 ->
  exists a, read_auth2 (sign_efi_variable cert_raw issuer_raw serial name g attrs t payload p7time sig) = Ret (a, payload) /\
            a_time a = t /\ wg_guid (a_info a) = PKCS7_GUID /\
            wg_data (a_info a) = signed_data cert_raw issuer_raw serial OID_data (signed_buffer name g attrs t payload) p7time sig.
Proof. exact decodes. Qed.

(* the SignedData is a detached SHA-256 signature whose signed messageDigest is
   the digest of the buffer above *)
Theorem C06_binding : forall utctime_ok x509_ok cert_raw ib serial name g attrs t payload p7time sig,
  let buf := signed_buffer name g attrs t payload in
  sign_side utctime_ok x509_ok cert_raw ib serial OID_data buf p7time sig ->
  parse_pkcs7 utctime_ok x509_ok (signed_data cert_raw (add_asn1 T_SEQUENCE ib) serial OID_data buf p7time sig) =
  Ret (mkP7 OID_data [] cert_raw OID_sha256 [signed_signer ib serial OID_data buf p7time sig]).
Proof. exact binding. Qed.

Example C06_example :
  write_time (efi_time_of 2024 2 29 23 59 58) =
    [xe8; x07; x02; x1d; x17; x3b; x3a; x00; x00; x00; x00; x00; x00; x00; x00; x00] /\
  signed_buffer [x64; x62] guid_zero 39 (efi_time_of 2024 2 29 23 59 58) [xaa] =
    [x64; x00; x62; x00] ++ zeros 16 ++ [x27; x00; x00; x00] ++
    [xe8; x07; x02; x1d; x17; x3b; x3a; x00; x00; x00; x00; x00; x00; x00; x00; x00] ++ [xaa].
Proof. split; vm_compute; reflexivity. Qed.

Print Assumptions C06_layout.
Print Assumptions C06_bare_signed_data.
Print Assumptions C06_time_layout.
Print Assumptions C06_signed_buffer.
Print Assumptions C06_decodes.
Print Assumptions C06_binding.
