(* Properties/C02.v -- Image verification succeeds only for a signature by
   that key over these bytes. Theorems only; for every RSA / X.509 / UTCTime
   predicate. *)
From Coq Require Import Bool List NArith ZArith Lia.
From Coq.Strings Require Import Byte.
From GoUefi Require Import Base.Bytes Base.Outcome Base.Reader Base.Der Base.Sha256 Model.WinCert Model.Pkcs7
  Model.PE Model.PEVerify Spec.P7Check Spec.PESignCheck Proofs.P7Proofs Proofs.PEProofs Proofs.PEVerifyProofs.
Import ListNotations.
Local Open Scope N_scope.

(* success only if the image carries a certificate-table entry that is an
   Authenticode signature committing to the SHA-256 of exactly the bytes the
   digest covers, with a SignedData valid for the certificate (C04: a signer
   naming its issuer and serial, RSA-valid under ITS key over the attributes as
   in the blob, messageDigest = SHA-256 of the embedded SpcIndirectDataContent) *)
Theorem C02_sound : forall utctime_ok x509_ok rsa_ok st c,
  pe_verify utctime_ok x509_ok rsa_ok st c = Ret true ->
  exists sigs pre w a,
    pe_signatures st = Ret sigs /\ hash_content st = Some pre /\ In w sigs /\
    parse_authenticode utctime_ok x509_ok (wc_cert w) = Ret a /\
    oid_eqb (ac_alg a) OID_sha256 = true /\ ac_digest a = sha256 pre /\ spec_valid rsa_ok (ac_p7 a) c = true.
Proof. exact pe_verify_sound. Qed.

(* for a well-formed image: the digest of the specification content of these bytes *)
Theorem C02_sound_wf : forall utctime_ok x509_ok rsa_ok img L st c,
  wf_image img L -> pe_parse true img = Ret st -> pe_verify utctime_ok x509_ok rsa_ok st c = Ret true ->
  exists w a, parse_authenticode utctime_ok x509_ok (wc_cert w) = Ret a /\
              ac_digest a = sha256 (spec_content L img) /\ spec_valid rsa_ok (ac_p7 a) c = true.
Proof. exact pe_verify_sound_wf. Qed.

(* consequences, each an instance of the above together with C01 and C04:
   - a change to a covered byte: the committed digest no longer equals the
     digest of the new content unless SHA-256 collides (C01_flip_covered);
   - a transplanted signature commits to the other image's digest;
   - an edited digest / content / content type inside the blob breaks
     messageDigest = SHA-256(content) or the RSA check over the attributes (C04_sound);
   - another key under the same issuer and serial must itself produce a valid
     RSA signature (C04_key_bound). *)
Theorem C02_covered_change_needs_collision : forall utctime_ok x509_ok rsa_ok img img' L L' p st' c w a,
  wf_image img L -> wf_image img' L' -> differ_only_at p img img' ->
  nth (N.to_nat p) img x00 <> nth (N.to_nat p) img' x00 -> is_covered L p ->
  (* the signature commits to img ... *)
  parse_authenticode utctime_ok x509_ok (wc_cert w) = Ret a -> ac_digest a = sha256 (spec_content L img) ->
  (* ... and img' verifies through that same entry *)
  pe_parse true img' = Ret st' -> ac_digest a = sha256 (spec_content L' img') ->
  pe_verify utctime_ok x509_ok rsa_ok st' c = Ret true ->
  exists x y, x <> y /\ sha256 x = sha256 y.
Proof.
  intros utctime_ok x509_ok rsa_ok img img' L L' p st' c w a H1 H2 H3 H4 H5 _ E1 _ E2 _.
  exists (spec_content L img), (spec_content L' img'). split; [eapply covered_sensitive; eassumption|congruence].
Qed.

Print Assumptions C02_sound.
Print Assumptions C02_sound_wf.
Print Assumptions C02_covered_change_needs_collision.
