(* Properties/C10.v -- Auth descriptor and WIN_CERTIFICATE decode by declared
   length and round-trip.  Theorems only. *)
From Coq Require Import Bool List NArith Lia.
From Coq.Strings Require Import Byte.
From GoUefi Require Import Base.Bytes Base.Outcome Base.Reader Model.Util Model.WinCert Proofs.WinCertProofs.
Import ListNotations.
Local Open Scope N_scope.

(* decoding consumes exactly 16 + dwLength bytes and leaves the payload untouched;
   the consumed bytes are the encoding of the decoded value *)
Theorem C10_auth2_consumes : forall bs a rest,
  read_auth2 bs = Ret (a, rest) ->
  exists consumed, bs = consumed ++ rest /\ blen consumed = 16 + wg_length (a_info a) /\
                   consumed = write_auth2 a.
Proof. exact read_auth2_consumes. Qed.

(* encoding a decoded value reproduces the bytes that were consumed; the decoded
   fields are in range and the length field is consistent with the data *)
Theorem C10_auth2_reencode : forall bs a rest,
  read_auth2 bs = Ret (a, rest) -> bs = write_auth2 a ++ rest /\ wf_auth2 a.
Proof. exact read_auth2_inv. Qed.

(* decoding an encoded value reproduces the value, whatever payload follows *)
Theorem C10_auth2_redecode : forall a p, wf_auth2 a -> read_auth2 (write_auth2 a ++ p) = Ret (a, p).
Proof. exact read_auth2_write. Qed.

(* the timestamp is recovered exactly *)
Theorem C10_time_roundtrip : forall t, wf_time t -> read_time (write_time t) = t.
Proof. exact read_write_time. Qed.
Theorem C10_time_roundtrip_conv : forall s, length s = 16%nat -> write_time (read_time s) = s.
Proof. exact write_read_time. Qed.

(* plain WIN_CERTIFICATE *)
Theorem C10_wincert_consumes : forall bs w rest,
  read_wincert bs = Ret (w, rest) ->
  exists consumed, bs = consumed ++ rest /\ blen consumed = wc_length w /\ consumed = write_wincert w.
Proof. exact read_wincert_consumes. Qed.
Theorem C10_wincert_reencode : forall bs w rest,
  read_wincert bs = Ret (w, rest) -> bs = write_wincert w ++ rest /\ wf_wincert w.
Proof. exact read_wincert_inv. Qed.
Theorem C10_wincert_redecode : forall w p, wf_wincert w -> read_wincert (write_wincert w ++ p) = Ret (w, p).
Proof. exact read_wincert_write. Qed.

(* WIN_CERTIFICATE_UEFI_GUID *)
Theorem C10_wincert_guid_reencode : forall bs w rest,
  read_wincert_guid bs = Ret (w, rest) -> bs = write_wincert_guid w ++ rest /\ wf_wincert_guid w.
Proof. exact read_wincert_guid_inv. Qed.
Theorem C10_wincert_guid_redecode : forall w p,
  wf_wincert_guid w -> read_wincert_guid (write_wincert_guid w ++ p) = Ret (w, p).
Proof. exact read_wincert_guid_write. Qed.

(* non-vacuity: a descriptor with 3 bytes of certificate data followed by a payload *)
Definition ex_auth2 : auth2 :=
  mkAuth2 (mkTime 2024 2 29 23 59 58 0 0 0 0 0)
          (mkWinCertGuid 27 512 3825 (mkGuid 1252709021 26847 18926 [x8a;xa9;x34;x7d;x37;x56;x65;xa7]) [x30;x01;x02]).
Example C10_example : wf_auth2 ex_auth2 /\
  read_auth2 (write_auth2 ex_auth2 ++ [xde;xad]) = Ret (ex_auth2, [xde;xad]).
Proof.
  split; [|vm_compute; reflexivity].
  unfold wf_auth2, wf_time, wf_wincert_guid, wf_guid, ex_auth2; cbn. repeat split; lia.
Qed.

Print Assumptions C10_auth2_consumes.
Print Assumptions C10_auth2_reencode.
Print Assumptions C10_auth2_redecode.
Print Assumptions C10_time_roundtrip.
Print Assumptions C10_time_roundtrip_conv.
Print Assumptions C10_wincert_consumes.
Print Assumptions C10_wincert_reencode.
Print Assumptions C10_wincert_redecode.
Print Assumptions C10_wincert_guid_reencode.
Print Assumptions C10_wincert_guid_redecode.
