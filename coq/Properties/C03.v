(* Properties/C03.v -- Signing yields a well-formed signed image that
   firmware-style checks accept. Theorems only. What is proved here concerns
   the bytes and what Parse reads back from them; that the embedded signatures
   verify is C02/C04/C05. *)
From Coq Require Import Bool List NArith Lia.
From Coq.Strings Require Import Byte.
From GoUefi Require Import Base.Bytes Base.Outcome Base.Reader Model.WinCert Model.PE Proofs.PEProofs Proofs.PESignProofs Proofs.PEReparse Properties.C01.
Import ListNotations.
Local Open Scope N_scope.

(* every original byte is kept, except the certificate-table directory entry *)
Theorem C03_prefix : forall st q,
  let L := pe_L st in let img := pe_img st in
  wf_layout L -> l_size L = blen img -> blen (pe_optdd st) = 8 ->
  q < l_size L - l_certsize L -> ~ (l_dd4 L <= q < l_dd4 L + 8) ->
  nth (N.to_nat q) (pe_bytes st) x00 = nth (N.to_nat q) img x00.
Proof. exact prefix_kept_thm. Qed.

(* the table after any history: the old entries, then one entry per signature,
   in order; layout and image bytes untouched *)
Theorem C03_table : forall blobs st,
  let st' := fold_left append_signature blobs st in
  pe_L st' = pe_L st /\ pe_img st' = pe_img st /\ pe_table st' = pe_table st ++ flat_map entry_of blobs.
Proof. exact table_after. Qed.

(* each entry: dwLength = 8 + |signature|, revision 0x0200, type 0x0002
   (PKCS#7 signed data), the signature, zero padding to a multiple of 8 *)
Theorem C03_entry : forall b, 8 + blen b < 4294967296 ->
  entry_of b = le 4 (8 + blen b) ++ le 2 512 ++ le 2 2 ++ b ++ zeros (N.to_nat (pad8 (8 + blen b))) /\
  blen (entry_of b) mod 8 = 0.
Proof.
  intros b H. split; [|apply entry_aligned; exact H].
  unfold entry_of, u32wrap. rewrite N.mod_small by exact H. reflexivity.
Qed.

(* an unsigned image, after any non-empty signing history (within 4 GiB): the
   table starts at the image length padded to 8, holds exactly the entries, the
   directory entry spans it exactly to the end of file, everything 8-aligned *)
Theorem C03_signed_from_unsigned : forall st b blobs,
  let L := pe_L st in
  wf_layout L -> l_size L = blen (pe_img st) -> l_certsize L = 0 ->
  pe_ddsize st = 0 -> pe_table st = [] -> blen (pe_optdd st) = 8 ->
  l_size L + 8 + total_entries (b :: blobs) < 4294967296 ->
  Forall (fun x => 8 + blen x < 4294967296) (b :: blobs) ->
  let st' := fold_left append_signature (b :: blobs) st in
  dd_inv st' /\ pe_va st' = l_size L + pad8 (l_size L) /\
  pe_table st' = flat_map entry_of (b :: blobs) /\ blen (pe_bytes st') mod 8 = 0.
Proof. exact signed_from_unsigned. Qed.

(* dd_inv: the directory entry is (va, size) with va + size = |file|, both
   multiples of 8, non-zero, size = |table|, and it is what Bytes() emits *)
Theorem C03_dd_inv_meaning : forall st, dd_inv st ->
  pe_va st + pe_ddsize st = blen (pe_bytes st) /\ pe_va st mod 8 = 0 /\ pe_ddsize st mod 8 = 0 /\
  pe_optdd st = le 4 (pe_va st) ++ le 4 (pe_ddsize st) /\ pe_ddsize st = blen (pe_table st).
Proof. intros st (_ & _ & A & B & C & D & E). repeat split; assumption. Qed.

(* an already signed image (or any state satisfying the invariant): further
   signatures keep the invariant and the table address *)
Theorem C03_history : forall blobs st,
  wf_layout (pe_L st) -> l_size (pe_L st) = blen (pe_img st) -> dd_inv st ->
  blen (pe_bytes st) + total_entries blobs < 4294967296 ->
  Forall (fun b => 8 + blen b < 4294967296) blobs ->
  dd_inv (fold_left append_signature blobs st) /\ pe_va (fold_left append_signature blobs st) = pe_va st.
Proof. exact history_inv. Qed.

(* the digest pre-image of the output equals that of the input: for any output
   whose headers and sections are those of the input, whose body bytes are kept
   except the directory entry, zero padded, with the table after it *)
Theorem C03_digest_invariant : forall L img L' out,
  wf_layout L -> l_size L = blen img ->
  let body := l_size L - l_certsize L in
  let padn := if l_certsize L =? 0 then pad8 (l_size L) else 0 in
  l_opt L' = l_opt L -> l_plus L' = l_plus L -> l_soh L' = l_soh L -> l_secs L' = l_secs L ->
  l_certsize L' <= l_size L' -> l_size L' - l_certsize L' = body + padn -> l_size L' mod 8 = 0 ->
  (forall q, q < body -> ~ (l_dd4 L <= q < l_dd4 L + 8) -> nth (N.to_nat q) out x00 = nth (N.to_nat q) img x00) ->
  (forall q, body <= q < body + padn -> nth (N.to_nat q) out x00 = x00) ->
  spec_content L' out = spec_content L img.
Proof. exact digest_invariant. Qed.

(* Parse of the bytes Bytes() emits for any state that satisfies the directory
   invariant: the same directory entry, the same table, and the digest content of
   the image that was signed (the optional header must hold the directory entry,
   which debug/pe requires of every image it accepts) *)
Theorem C03_reparse : forall st,
  let L := pe_L st in let out := pe_bytes st in
  wf_layout L -> read_layout (pe_img st) = Some L -> dd_inv st -> blen out < 4294967296 ->
  l_dd4 L + 8 <= l_opt L + l_soo L -> l_certsize L <= blen (pe_table st) ->
  exists st', pe_parse true out = Ret st' /\
    pe_va st' = pe_va st /\ pe_ddsize st' = pe_ddsize st /\ pe_optdd st' = pe_optdd st /\ pe_table st' = pe_table st /\
    hash_content st' = Some (spec_content L (pe_img st)) /\ wf_layout (pe_L st').
Proof. exact reparse. Qed.

(* end to end, for every well-formed image without signatures and every non-empty
   signing history within 4 GiB: Parse(Sign...(Parse img)).Bytes()) lists exactly
   one entry per signature behind the end of the old file padded to 8, and
   hashes to what the unsigned image hashes to *)
Theorem C03_resign_unsigned : forall img L st0 b blobs,
  wf_image img L -> l_certsize L = 0 -> pe_parse true img = Ret st0 ->
  l_dd4 L + 8 <= l_opt L + l_soo L ->
  l_size L + 8 + total_entries (b :: blobs) < 4294967296 ->
  Forall (fun x => 8 + blen x < 4294967296) (b :: blobs) ->
  let st := fold_left append_signature (b :: blobs) st0 in
  exists st', pe_parse true (pe_bytes st) = Ret st' /\
    pe_table st' = flat_map entry_of (b :: blobs) /\
    pe_va st' = l_size L + pad8 (l_size L) /\ pe_ddsize st' = blen (flat_map entry_of (b :: blobs)) /\
    hash_content st' = hash_content st0 /\ wf_layout (pe_L st').
Proof. exact resign_unsigned. Qed.

(* ... and for every well-formed image that already carries a table: the old
   entries, then the new ones, at the old address, same digest content *)
Theorem C03_resign_signed : forall img L st0 blobs,
  wf_image img L -> l_certsize L <> 0 -> pe_parse true img = Ret st0 ->
  l_dd4 L + 8 <= l_opt L + l_soo L ->
  blen img + total_entries blobs < 4294967296 ->
  Forall (fun x => 8 + blen x < 4294967296) blobs ->
  let st := fold_left append_signature blobs st0 in
  exists st', pe_parse true (pe_bytes st) = Ret st' /\
    pe_table st' = pe_table st0 ++ flat_map entry_of blobs /\ pe_va st' = l_va L /\
    hash_content st' = hash_content st0 /\ wf_layout (pe_L st').
Proof. exact resign_signed. Qed.

(* Bytes() of a freshly parsed well-formed image: the image itself, zero padded to a
   multiple of 8 when it carries no table *)
Theorem C03_bytes_of_parsed : forall img L st0, wf_image img L -> pe_parse true img = Ret st0 ->
  pe_bytes st0 = img ++ zeros (N.to_nat (if l_certsize L =? 0 then pad8 (l_size L) else 0)).
Proof. exact bytes_of_parsed. Qed.

Print Assumptions C03_bytes_of_parsed.
Print Assumptions C03_reparse.
Print Assumptions C03_resign_unsigned.
Print Assumptions C03_resign_signed.
Print Assumptions C03_prefix.
Print Assumptions C03_table.
Print Assumptions C03_entry.
Print Assumptions C03_signed_from_unsigned.
Print Assumptions C03_dd_inv_meaning.
Print Assumptions C03_history.
Print Assumptions C03_digest_invariant.

(* non-vacuity: the example image of C01 (445 bytes, no table) meets the hypotheses
   of C03_resign_unsigned, and signing it twice with 100- and 7-byte blobs gives a
   456 + 112 + 16 byte file whose re-parse lists both entries *)
Example C03_example :
  match read_layout C01.ex_img, pe_parse true C01.ex_img with
  | Some L, Ret st0 =>
      wf_layout_b L = true /\ l_certsize L = 0 /\ (l_dd4 L + 8 <=? l_opt L + l_soo L) = true /\
      let st := fold_left append_signature [repeat x07 100; repeat x08 7] st0 in
      blen (pe_bytes st) = 576 /\
      match pe_parse true (pe_bytes st) with
      | Ret st' => pe_va st' = 448 /\ pe_ddsize st' = 128 /\ hash_content st' = hash_content st0 /\
                   option_map (fun l => length l) (match pe_signatures st' with Ret l => Some l | _ => None end) = Some 2%nat
      | _ => False
      end
  | _, _ => False
  end.
Proof. vm_compute. repeat split. Qed.
