(* Properties/C12.v -- The in-memory variable store returns the last value
   written, for every history. Theorems only. *)
From Coq Require Import Bool List NArith Lia.
From Coq.Strings Require Import Byte.
From GoUefi Require Import Base.Bytes Base.Outcome Base.Reader Model.Util Model.WinCert Model.SigList
  Model.VarIO Proofs.VarIOProofs.
Import ListNotations.
Local Open Scope N_scope.

(* refinement: after ANY sequence of (non-append) writes, from any store, every
   path holds what the register specification says: the value of the most
   recent write to it, else what was there before *)
Theorem C12_register : forall dir ops s,
  Forall (fun o => N.testbit (w_attrs o) 6 = false) ops ->
  forall q, lookup (fold_left (impl_step dir) ops s) q = fold_left (spec_step dir) ops (lookup s) q.
Proof. exact register_refinement. Qed.

(* one write: the variable holds exactly the new value (no old tail) ... *)
Theorem C12_write_same : forall dir s name g attrs value, N.testbit attrs 6 = false ->
  lookup (testfs_write dir s name g attrs value) (var_path dir name g) =
  Some (le 4 attrs ++ testfs_payload name value).
Proof. exact testfs_write_same. Qed.
(* ... independent of writes to other variables *)
Theorem C12_write_other : forall dir s name g attrs value q, N.testbit attrs 6 = false ->
  q <> var_path dir name g -> lookup (testfs_write dir s name g attrs value) q = lookup s q.
Proof. exact testfs_write_other. Qed.

(* reading after a write returns the written value (or the attribute error) *)
Theorem C12_read_after_write : forall dir s o required,
  N.testbit (w_attrs o) 6 = false -> w_attrs o < 4294967296 ->
  testfs_read dir (impl_step dir s o) (w_name o) (w_guid o) required =
  if attrs_subset required (w_attrs o)
  then RdDecode (w_attrs o) (testfs_payload (w_name o) (w_value o)) else RdWrongAttrs (w_attrs o).
Proof. exact read_after_write. Qed.

(* what is stored: for PK/KEK/db/dbx written as signed updates, the payload
   with the authentication descriptor removed; otherwise the value itself *)
Theorem C12_payload_signed : forall name a db,
  is_secure_name name = true -> wf_auth2 a -> Forall wf_list db ->
  testfs_payload name (write_auth2 a ++ enc_db db) = enc_db db.
Proof. exact payload_signed. Qed.
Theorem C12_payload_plain_db : forall name db,
  Forall wf_list db -> testfs_payload name (enc_db db) = enc_db db.
Proof. exact payload_plain_db. Qed.
Theorem C12_payload_ordinary : forall name value,
  is_secure_name name = false -> testfs_payload name value = value.
Proof. exact payload_ordinary. Qed.

(* non-vacuity: a long value, then a shorter one, then empty: no stale tail *)
Example C12_example :
  let g := guid_zero in let nm := [x58] in let d := [x2f; x65] in
  let s1 := testfs_write d [] nm g 7 [x01;x02;x03;x04;x05] in
  let s2 := testfs_write d s1 nm g 7 [x09] in
  let s3 := testfs_write d s2 nm g 7 [] in
  testfs_read d s2 nm g 7 = RdDecode 7 [x09] /\ testfs_read d s3 nm g 7 = RdDecode 7 [].
Proof. split; vm_compute; reflexivity. Qed.

Print Assumptions C12_register.
Print Assumptions C12_write_same.
Print Assumptions C12_write_other.
Print Assumptions C12_read_after_write.
Print Assumptions C12_payload_signed.
Print Assumptions C12_payload_plain_db.
Print Assumptions C12_payload_ordinary.
