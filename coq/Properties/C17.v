(* Properties/C17.v -- GUID and UTF-16 string conversions are lossless and use
   the EFI wire layout.  Theorems only; every proof is [exact lemma]. *)
From Coq Require Import Bool List NArith Lia.
From Coq.Strings Require Import Byte.
From GoUefi Require Import Base.Bytes Base.Hex Base.Outcome Model.Util Proofs.UtilProofs.
Import ListNotations.
Local Open Scope N_scope.

(* formatting yields the canonical 36-character lower-case text *)
Theorem C17_format_length : forall g, wf_guid g -> length (guid_format g) = 36%nat.
Proof. exact format_length. Qed.
Theorem C17_format_shape : forall g, wf_guid g -> guid_text_shape (guid_format g).
Proof. exact format_shape. Qed.

(* parsing that text, in either case, returns the same GUID *)
Theorem C17_parse_format : forall g, wf_guid g -> string_to_guid (guid_format g) = g.
Proof. exact parse_format. Qed.
Theorem C17_parse_format_upper :
  forall g, wf_guid g -> string_to_guid (map to_upper (guid_format g)) = g.
Proof. exact parse_format_upper. Qed.

(* the 16 big-endian bytes return the same GUID, and conversely *)
Theorem C17_bytes_roundtrip : forall g, wf_guid g -> bytes_to_guid (guid_to_bytes g) = g.
Proof. exact bytes_to_guid_to_bytes. Qed.
Theorem C17_bytes_roundtrip_conv :
  forall s, length s = 16%nat -> guid_to_bytes (bytes_to_guid s) = s.
Proof. exact guid_to_bytes_to_guid. Qed.

(* equality is field-wise *)
Theorem C17_cmp_iff_eq : forall a b, guid_eqb a b = true <-> a = b.
Proof. exact guid_eqb_eq. Qed.

(* inside encoded structures: Data1, Data2, Data3 little-endian, then Data4;
   [guid_wire] is by definition that layout, and it is lossless *)
Theorem C17_wire_layout :
  forall g, guid_wire g = le 4 (d1 g) ++ le 2 (d2 g) ++ le 2 (d3 g) ++ d4 g.
Proof. reflexivity. Qed.
Theorem C17_wire_roundtrip : forall g, wf_guid g -> guid_of_wire (guid_wire g) = g.
Proof. exact guid_of_wire_wire. Qed.
Theorem C17_wire_roundtrip_conv :
  forall s, length s = 16%nat -> guid_wire (guid_of_wire s) = s.
Proof. exact guid_wire_of_wire. Qed.

(* strings: UTF-16LE plus one NUL terminator; decoding returns the original *)
Theorem C17_marshal_shape : forall s, marshal_utf16 s = utf16le_encode s ++ le 2 0.
Proof. exact marshal_utf16_shape. Qed.
Theorem C17_utf16_roundtrip :
  forall s, forallb valid_scalar s = true -> ~ In 0 s -> parse_utf16 (marshal_utf16 s) = Ret s.
Proof. exact utf16_roundtrip. Qed.
(* input without the terminator is an error *)
Theorem C17_utf16_no_terminator :
  forall bs, (forall s, utf16le_decode bs <> s ++ [0]) -> exists e, parse_utf16 bs = Err e.
Proof. exact utf16_no_terminator. Qed.
Theorem C17_utf16_empty : exists e, parse_utf16 [] = Err e.
Proof. exact parse_utf16_empty. Qed.

(* non-vacuity: a GUID with leading-zero fields and a non-BMP string *)
Example C17_example_guid :
  wf_guid (mkGuid 1 2 3 [x00;x01;x02;x03;x04;x05;x06;xff]) /\
  guid_format (mkGuid 1 2 3 [x00;x01;x02;x03;x04;x05;x06;xff]) =
    map n2b [48;48;48;48;48;48;48;49;45;48;48;48;50;45;48;48;48;51;45;48;48;48;49;45;
             48;50;48;51;48;52;48;53;48;54;102;102].
Proof. split; [unfold wf_guid; cbn; repeat split; lia | vm_compute; reflexivity]. Qed.
Example C17_example_string :
  forallb valid_scalar [72; 233; 128512] = true /\ ~ In 0 [72; 233; 128512] /\
  marshal_utf16 [72; 233; 128512] = [x48;x00;xe9;x00;x3d;xd8;x00;xde;x00;x00].
Proof. split; [reflexivity|split; [cbn; intuition discriminate|vm_compute; reflexivity]]. Qed.

Print Assumptions C17_format_length.
Print Assumptions C17_format_shape.
Print Assumptions C17_parse_format.
Print Assumptions C17_parse_format_upper.
Print Assumptions C17_bytes_roundtrip.
Print Assumptions C17_bytes_roundtrip_conv.
Print Assumptions C17_cmp_iff_eq.
Print Assumptions C17_wire_layout.
Print Assumptions C17_wire_roundtrip.
Print Assumptions C17_wire_roundtrip_conv.
Print Assumptions C17_marshal_shape.
Print Assumptions C17_utf16_roundtrip.
Print Assumptions C17_utf16_no_terminator.
Print Assumptions C17_utf16_empty.
