(* Properties/C09.v -- Database append/remove edit an ordered entry collection
   and keep it well-formed. Theorems only; all hold for every PEM decoder. *)
From Coq Require Import Bool List NArith Lia.
From Coq.Strings Require Import Byte.
From GoUefi Require Import Base.Bytes Base.Outcome Base.Reader Model.Util Model.SigList Model.SigDb
  Proofs.SigListProofs Proofs.SigDbProofs.
Import ListNotations.
Local Open Scope N_scope.

(* a successful append adds one entry (X.509 data in its normalised, DER form);
   all other entries keep content and relative order *)
Theorem C09_append_ok : forall pem db t o data db',
  db_append pem db t o data = Ret db' ->
  exists pre post, view db = pre ++ post /\
    view db' = pre ++ [(t, mkSig o (normalize pem t (normalize pem t data)))] ++ post.
Proof. exact append_view. Qed.

(* it succeeds only for a known type and an entry not yet present *)
Theorem C09_append_pre : forall pem db t o data db',
  db_append pem db t o data = Ret db' ->
  valid_scheme t = true /\ ~ In (t, mkSig o (normalize pem t data)) (view db).
Proof. exact append_pre. Qed.

(* duplicate (in stored form) and unknown-type appends are errors; an error
   carries no new database: the old one stays *)
Theorem C09_append_dup : forall pem db t o data,
  In (t, mkSig o (normalize pem t data)) (view db) -> exists e, db_append pem db t o data = Err e.
Proof. exact append_dup_err. Qed.
Theorem C09_append_unknown : forall pem db t o data,
  valid_scheme t = false -> exists e, db_append pem db t o data = Err e.
Proof. exact append_unknown_err. Qed.

(* a successful remove deletes one matching entry, the others keep order *)
Theorem C09_remove_ok : forall db t o data db',
  db_remove db t o data = Ret db' ->
  exists pre post, view db = pre ++ [(t, mkSig o data)] ++ post /\ view db' = pre ++ post.
Proof. exact remove_view. Qed.

(* removing is an error exactly when the entry is absent *)
Theorem C09_remove_absent : forall db t o data,
  db_inv db -> (exists e, db_remove db t o data = Err e) <-> ~ In (t, mkSig o data) (view db).
Proof. exact remove_absent. Qed.

(* the membership queries agree with the view *)
Theorem C09_query_entry : forall db t s, db_sigdata_exists db t s = true <-> In (t, s) (view db).
Proof. exact db_has_view. Qed.
Theorem C09_query_list : forall db l,
  db_list_exists db l = true <-> forall s, In s (sl_sigs l) -> In (sl_type l, s) (view db).
Proof. exact db_list_exists_view. Qed.

(* invariant: no list is empty or holds two identical entries, and the size
   fields satisfy the EFI_SIGNATURE_LIST equations -- after every operation *)
Theorem C09_append_inv : forall pem db t o data db',
  normalize pem t (normalize pem t data) = normalize pem t data ->
  db_inv db -> db_append pem db t o data = Ret db' -> db_inv db'.
Proof. exact append_inv. Qed.
Theorem C09_remove_inv : forall db t o data db', db_inv db -> db_remove db t o data = Ret db' -> db_inv db'.
Proof. exact (remove_inv (fun _ => None)). Qed.
Theorem C09_append_list_inv : forall db l, db_inv db -> list_inv l -> db_inv (db_append_list db l).
Proof. exact append_list_inv. Qed.
Theorem C09_history_inv : forall pem ops db,
  db_inv db -> Forall (op_ok pem) ops ->
  db_inv (fold_left (fun d op => fst (db_step pem d op)) ops db).
Proof. exact history_inv. Qed.
Theorem C09_inv_sizes : forall l, list_inv l ->
  sl_listsize l = 28 + sl_headersize l + N.of_nat (length (sl_sigs l)) * sl_size l /\
  16 <= sl_size l /\ Forall (fun s => blen (sd_data s) = sl_size l - 16) (sl_sigs l).
Proof. exact inv_sizes. Qed.
Theorem C09_inv_wf : forall l,
  list_inv l -> wf_guid (sl_type l) -> size_ok (sl_type l) (sl_headersize l) (sl_size l) = true ->
  Forall (fun s => wf_guid (sd_owner s)) (sl_sigs l) -> sl_listsize l < 4294967296 -> wf_list l.
Proof. exact inv_wf. Qed.

(* non-vacuity: a three-step history on a concrete database *)
Definition no_pem (_ : bytes) : option bytes := None.
Definition h1 := repeat x11 32.
Definition h2 := repeat x22 32.
Example C09_example :
  let s0 := [] in
  let '(s1, r1) := db_step no_pem s0 (OpAppend CERT_SHA256 guid_zero h1) in
  let '(s2, r2) := db_step no_pem s1 (OpAppend CERT_SHA256 guid_zero h2) in
  let '(s3, r3) := db_step no_pem s2 (OpAppend CERT_SHA256 guid_zero h1) in
  let '(s4, r4) := db_step no_pem s3 (OpRemove CERT_SHA256 guid_zero h1) in
  (r1, r2, r3, r4) = (true, true, false, true) /\
  view s4 = [(CERT_SHA256, mkSig guid_zero h2)] /\ map sl_listsize s4 = [76].
Proof. vm_compute. repeat split. Qed.

(* ---- the same operations called on one list directly (AppendBytes / AppendSignature,
   RemoveBytes / RemoveSignature, Exists) ---- *)
(* a successful append adds exactly the entry, in stored form, behind the others *)
Theorem C09_list_append_ok : forall pem l o d l',
  list_append pem l o d = Ret l' ->
  sl_type l' = sl_type l /\ sl_sigs l' = sl_sigs l ++ [mkSig o (normalize pem (sl_type l) d)] /\
  ~ In (mkSig o (normalize pem (sl_type l) d)) (sl_sigs l).
Proof. exact list_append_ok. Qed.
(* duplicate and wrongly-sized appends are errors (an error carries no new list) *)
Theorem C09_list_append_dup : forall pem l o d,
  In (mkSig o (normalize pem (sl_type l) d)) (sl_sigs l) -> exists e, list_append pem l o d = Err e.
Proof. exact list_append_dup. Qed.
Theorem C09_list_append_wrong_size : forall pem l o d,
  sl_sigs l <> [] -> sl_size l <> blen (normalize pem (sl_type l) d) + 16 ->
  exists e, list_append pem l o d = Err e.
Proof. exact list_append_wrong_size. Qed.
Theorem C09_list_append_sha256_size : forall pem l o d,
  sl_type l = CERT_SHA256 -> blen d <> 32 -> exists e, list_append pem l o d = Err e.
Proof. exact list_append_sha256_size. Qed.
(* a successful remove deletes one matching entry; it is an error exactly when none matches *)
Theorem C09_list_remove_ok : forall l o d l',
  list_remove l o d = Ret l' ->
  sl_type l' = sl_type l /\
  exists pre post, sl_sigs l = pre ++ [mkSig o d] ++ post /\ sl_sigs l' = pre ++ post.
Proof. exact list_remove_ok. Qed.
Theorem C09_list_remove_absent : forall l o d,
  (exists e, list_remove l o d = Err e) <-> ~ In (mkSig o d) (sl_sigs l).
Proof. exact list_remove_absent. Qed.
(* Exists reports the first matching position *)
Theorem C09_list_index : forall sigs s,
  match index_of sigs s with
  | Some i => exists pre post, sigs = pre ++ [s] ++ post /\ N.of_nat (length pre) = i /\ ~ In s pre
  | None => ~ In s sigs
  end.
Proof. exact index_of_spec. Qed.
(* the size equations and the absence of duplicates survive every direct operation *)
Theorem C09_list_append_inv : forall pem l o d l',
  list_inv0 l -> list_append pem l o d = Ret l' -> list_inv l'.
Proof. exact list_append_inv0. Qed.
Theorem C09_list_remove_inv : forall l o d l', list_inv0 l -> list_remove l o d = Ret l' -> list_inv0 l'.
Proof. exact (list_remove_inv0 (fun _ => None)). Qed.
Theorem C09_list_history_inv : forall pem ops l,
  list_inv0 l -> list_inv0 (fold_left (fun x op => fst (list_step pem x op)) ops l).
Proof. exact list_history_inv. Qed.

(* non-vacuity: two certificates of different length do not share a list *)
Example C09_list_example :
  let l0 := empty_list CERT_X509 in
  let '(l1, r1) := list_step no_pem l0 (LAppend guid_zero (repeat x30 100)) in
  let '(l2, r2) := list_step no_pem l1 (LAppend guid_zero (repeat x31 60)) in
  let '(l3, r3) := list_step no_pem l2 (LAppend guid_zero (repeat x31 100)) in
  let '(l4, r4) := list_step no_pem l3 (LRemove guid_zero (repeat x30 100)) in
  (r1, r2, r3, r4) = (true, false, true, true) /\
  (sl_listsize l3, sl_size l3, length (sl_sigs l3)) = (260, 116, 2%nat) /\ sl_listsize l4 = 144.
Proof. vm_compute. repeat split. Qed.

Print Assumptions C09_append_ok.
Print Assumptions C09_append_pre.
Print Assumptions C09_append_dup.
Print Assumptions C09_append_unknown.
Print Assumptions C09_remove_ok.
Print Assumptions C09_remove_absent.
Print Assumptions C09_query_entry.
Print Assumptions C09_query_list.
Print Assumptions C09_append_inv.
Print Assumptions C09_remove_inv.
Print Assumptions C09_append_list_inv.
Print Assumptions C09_history_inv.
Print Assumptions C09_inv_sizes.
Print Assumptions C09_inv_wf.
Print Assumptions C09_list_append_ok.
Print Assumptions C09_list_append_dup.
Print Assumptions C09_list_append_wrong_size.
Print Assumptions C09_list_append_sha256_size.
Print Assumptions C09_list_remove_ok.
Print Assumptions C09_list_remove_absent.
Print Assumptions C09_list_index.
Print Assumptions C09_list_append_inv.
Print Assumptions C09_list_remove_inv.
Print Assumptions C09_list_history_inv.
