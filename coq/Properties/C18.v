(* Properties/C18.v -- Boot order names resolve to boot entries; load options
   decode to their fields. Theorems only. *)
From Coq Require Import Bool List NArith Lia.
From Coq.Strings Require Import Byte.
From GoUefi Require Import Base.Bytes Base.Hex Base.Outcome Base.Reader Base.NumText Model.Util Model.Device
  Model.VarIO Proofs.DeviceProofs.
Import ListNotations.
Local Open Scope N_scope.

(* every 16-bit little-endian entry, in order, becomes its Boot#### name *)
Theorem C18_boot_order_decode : forall ns,
  Forall (fun n => n < 65536) ns -> decode_boot_order (flat_map (le 2) ns) = map boot_name ns.
Proof. exact boot_order_decode. Qed.

(* the name is "Boot" + exactly four upper-case hexadecimal digits of value n *)
Theorem C18_boot_name_shape : forall n,
  exists d, boot_name n = boot_prefix ++ d /\ length d = 4%nat /\ forallb is_upper_hex d = true /\
            hex_decode d = (be 2 n, true).
Proof. exact boot_name_shape. Qed.

(* distinct boot numbers have distinct names (all 65536 of them) *)
Theorem C18_boot_name_inj : forall n m, n < 65536 -> m < 65536 -> boot_name n = boot_name m -> n = m.
Proof. exact boot_name_inj. Qed.

(* the boot-entry accessor opens <dir>/<name>-<guid>: with the name above this
   is the file firmware created for boot number n *)
Theorem C18_lookup_resolves : forall dir g n,
  var_path dir (boot_name n) g = dir ++ [slash] ++ boot_prefix ++ hex_upper (be 2 n) ++ [dash] ++ guid_format g.
Proof. intros. unfold var_path, boot_name. rewrite <- !app_assoc. reflexivity. Qed.

(* load options made of PCI, ACPI, hard-drive, file-path, firmware-file and USB
   nodes with arbitrary field values decode to exactly their fields *)
Theorem C18_load_option_roundtrip : forall o optional,
  wf_load_option o -> parse_load_option (enc_load_option o ++ optional) = Ret o.
Proof. exact load_option_roundtrip. Qed.

(* hard-drive nodes render in the UEFI text form: parsing the rendering with
   the text grammar yields the node's partition number, MBR/GPT signature, start, size *)
Theorem C18_hd_text_denotes : forall pn st sz sig sty,
  length sig = 16%nat -> st < 18446744073709551616 -> sz < 18446744073709551616 ->
  sty = 1 \/ sty = 2 ->
  parse_hd_text (format_hd pn st sz sig sty) = hd_denotes pn st sz sig sty.
Proof. exact hd_text_denotes. Qed.
(* ... where a GPT signature is shown as the GUID whose EFI wire form is the 16 bytes *)
Theorem C18_hd_gpt_guid_wire : forall sig, length sig = 16%nat -> guid_wire (guid_of_wire sig) = sig.
Proof. exact hd_gpt_guid_wire. Qed.
Theorem C18_file_text : forall p, format_file p = [70; 105; 108; 101; 40] ++ p ++ [41].
Proof. exact file_text. Qed.

(* non-vacuity: the GPT node of the repository's Boot0001 capture *)
Definition ex_sig : bytes :=
  [x94; x8c; x8d; xd7; x77; xd2; x35; x46; xa8; x52; xf5; xa0; x1c; x88; x6c; x9b].
Example C18_example :
  boot_name 26 = [x42; x6f; x6f; x74; x30; x30; x31; x41] /\
  hd_denotes 1 2048 1048576 ex_sig 2 =
    Some (mkHdFields 1 (SigGPT (mkGuid 3616378004 53879 17973 [xa8; x52; xf5; xa0; x1c; x88; x6c; x9b])) 2048 1048576) /\
  parse_hd_text (format_hd 1 2048 1048576 ex_sig 2) = hd_denotes 1 2048 1048576 ex_sig 2.
Proof. repeat split; vm_compute; reflexivity. Qed.

Print Assumptions C18_boot_order_decode.
Print Assumptions C18_boot_name_shape.
Print Assumptions C18_boot_name_inj.
Print Assumptions C18_lookup_resolves.
Print Assumptions C18_load_option_roundtrip.
Print Assumptions C18_hd_text_denotes.
Print Assumptions C18_hd_gpt_guid_wire.
Print Assumptions C18_file_text.
