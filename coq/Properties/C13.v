(* Properties/C13.v -- Untrusted images and signatures never crash, hang, exit
   or blow up memory. Theorems only: about the models (totality, bounded loops,
   values no larger than the input); the real process is measured by the
   sandboxed worker (return / panic / exit / timeout, TotalAlloc). *)
From Coq Require Import Bool List NArith ZArith Lia.
From Coq.Strings Require Import Byte.
From GoUefi Require Import Base.Bytes Base.Outcome Base.Reader Base.Der Model.WinCert Model.Pkcs7 Model.PE Model.PEVerify
  Proofs.DerProofs Proofs.P7Proofs Proofs.SafetyProofs Proofs.P7Safety.
Import ListNotations.
Local Open Scope N_scope.

(* every entry point ends in a returned value or a returned error, for every
   byte string, every certificate, every answer of debug/pe, RSA, X.509, UTCTime *)
Theorem C13_total_parse_pkcs7 : forall u x b, returns (parse_pkcs7 u x b) = true.
Proof. exact parse_pkcs7_returns. Qed.
Theorem C13_total_pkcs7_verify : forall r p c, returns (pkcs7_verify r p c) = true.
Proof. exact verify_returns. Qed.
Theorem C13_total_parse_authenticode : forall u x b, returns (parse_authenticode u x b) = true.
Proof. exact parse_authenticode_returns. Qed.
Theorem C13_total_authenticode_verify : forall r a c d, returns (authenticode_verify r a c d) = true.
Proof. exact authenticode_verify_returns. Qed.
Theorem C13_total_pe_parse : forall pe_ok img, returns (pe_parse pe_ok img) = true.
Proof. exact pe_parse_returns. Qed.
Theorem C13_total_pe_signatures : forall st, returns (pe_signatures st) = true.
Proof. exact pe_signatures_returns. Qed.
Theorem C13_total_pe_verify : forall u x r st c, returns (pe_verify u x r st c) = true.
Proof. exact pe_verify_returns. Qed.
Theorem C13_total_wincert : forall bs, returns (read_wincert bs) = true.
Proof. exact read_wincert_returns. Qed.

(* never loops: the iteration bounds derived from the input length are never reached *)
Theorem C13_steps_signatures : forall st, pe_signatures st <> Err 98.
Proof. intros st. apply signatures_loop_fuel. lia. Qed.
Theorem C13_steps_attributes : forall u f a s, (length s <= f)%nat -> attrs_loop u f a s <> Err 97.
Proof. intros u. exact (attrs_loop_fuel u (fun _ => true) (fun _ _ _ => true)). Qed.
Theorem C13_der_element_shorter : forall tag s v rest,
  read_asn1 tag s = Some (v, rest) -> (length rest < length s)%nat.
Proof. exact (read_asn1_shorter (fun _ => true) (fun _ => true) (fun _ _ _ => true)). Qed.

(* never allocates beyond the input: an accepted DER element and what follows it
   are strictly shorter than the input (the length field is checked against the
   bytes present before anything is copied), and a WIN_CERTIFICATE body is read
   only if dwLength-8 bytes are there *)
Theorem C13_size_der : forall s e, der_read s = Some e -> blen (e_val e) + blen (e_rest e) < blen s.
Proof. exact der_read_size. Qed.
Theorem C13_size_wincert : forall bs w rest,
  read_wincert bs = Ret (w, rest) -> blen (wc_cert w) + 8 + blen rest = blen bs.
Proof.
  intros bs w rest H. apply WinCertProofs.read_wincert_inv in H as [-> (H1 & _)].
  unfold write_wincert. rewrite !blen_app, !blen_le. lia.
Qed.

Print Assumptions C13_total_parse_pkcs7.
Print Assumptions C13_total_pkcs7_verify.
Print Assumptions C13_total_parse_authenticode.
Print Assumptions C13_total_authenticode_verify.
Print Assumptions C13_total_pe_parse.
Print Assumptions C13_total_pe_signatures.
Print Assumptions C13_total_pe_verify.
Print Assumptions C13_total_wincert.
Print Assumptions C13_steps_signatures.
Print Assumptions C13_steps_attributes.
Print Assumptions C13_der_element_shorter.
Print Assumptions C13_size_der.
Print Assumptions C13_size_wincert.
