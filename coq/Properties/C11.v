(* Properties/C11.v -- Variable I/O follows the efivarfs contract: one write,
   attribute-checked reads. Theorems only. *)
From Coq Require Import Bool List NArith Lia.
From Coq.Strings Require Import Byte.
From GoUefi Require Import Base.Bytes Base.Outcome Base.Reader Base.Prog Model.Util Model.VarIO
  Proofs.UtilProofs Proofs.VarIOProofs.
Import ListNotations.
Local Open Scope N_scope.

(* writing: exactly OpenFile(<dir>/<Name>-<guid text>, flags), one Write of
   attrs(LE32) ++ value, Close -- for every directory, name, GUID, mask, value *)
Theorem C11_write_trace : forall dir name g attrs value,
  run env_ok (write_var dir name g attrs value) 0 =
  (Ret tt, [COpenFile (var_path dir name g) (open_flags attrs) 420; CWrite (le 4 attrs ++ value); CClose]).
Proof. exact write_trace. Qed.

(* whatever the file system answers, nothing else is ever called *)
Theorem C11_write_touches_nothing_else : forall e dir name g attrs value,
  let t := snd (run e (write_var dir name g attrs value) 0) in
  (length t <= 3)%nat /\
  forall c, In c t -> c = COpenFile (var_path dir name g) (open_flags attrs) 420 \/
                      c = CWrite (le 4 attrs ++ value) \/ c = CClose.
Proof. exact write_calls_bounded. Qed.

(* write-only with create, append mode iff APPEND_WRITE (bit 6, mask 0x40) *)
Theorem C11_open_flags : forall attrs,
  open_flags attrs = O_WRONLY + O_CREATE + (if N.testbit attrs 6 then O_APPEND else 0).
Proof. exact open_flags_spec. Qed.
Theorem C11_append_bit : forall attrs,
  N.testbit attrs 6 = negb (N.land attrs EFI_VARIABLE_APPEND_WRITE =? 0).
Proof. exact append_bit. Qed.

(* the file name uses the canonical lower-case GUID text of C17 *)
Theorem C11_path : forall dir name g,
  var_path dir name g = dir ++ [slash] ++ name ++ [dash] ++ guid_format g.
Proof. exact var_path_spec. Qed.
Theorem C11_path_guid_canonical : forall g, wf_guid g -> guid_text_shape (guid_format g).
Proof. exact format_shape. Qed.

(* reading: value = bytes after the first four, with the stored attributes;
   wrong-attributes error without decoding when a required bit is missing *)
Theorem C11_read : forall a v required, a < 4294967296 ->
  read_var (Some (le 4 a ++ v)) required =
  if attrs_subset required a then RdDecode a v else RdWrongAttrs a.
Proof. exact read_stored. Qed.
Theorem C11_attrs_subset : forall r s,
  attrs_subset r s = true <-> forall i, N.testbit r i = true -> N.testbit s i = true.
Proof. exact attrs_subset_spec. Qed.
Theorem C11_read_absent : forall required, read_var None required = RdErr.
Proof. exact read_absent. Qed.
Theorem C11_read_short : forall bs required, blen bs < 4 -> read_var (Some bs) required = RdErr.
Proof. exact read_short. Qed.

Example C11_example :
  open_flags 39 = 65 /\ open_flags 103 = 1089 /\
  attrs_subset 39 7 = false /\ attrs_subset 7 39 = true.
Proof. repeat split. Qed.

Print Assumptions C11_write_trace.
Print Assumptions C11_write_touches_nothing_else.
Print Assumptions C11_open_flags.
Print Assumptions C11_append_bit.
Print Assumptions C11_path.
Print Assumptions C11_path_guid_canonical.
Print Assumptions C11_read.
Print Assumptions C11_attrs_subset.
Print Assumptions C11_read_absent.
Print Assumptions C11_read_short.
