(* Properties/C04.v -- PKCS#7 verification succeeds only for a valid signature
   bound to the content. Theorems only; they hold for every RSA predicate,
   every X.509 acceptance predicate and every UTCTime predicate. *)
From Coq Require Import Bool List NArith ZArith Lia.
From Coq.Strings Require Import Byte.
From GoUefi Require Import Base.Bytes Base.Outcome Base.Reader Base.Der Base.Sha256 Model.Pkcs7
  Spec.P7Check Proofs.DerProofs Proofs.P7Proofs.
Import ListNotations.
Local Open Scope N_scope.

(* success is reported only if a signer entry naming the certificate's issuer and
   serial carries a signature that is RSA-valid under the certificate's key over
   SET || (the signed attributes as parsed from the blob), and -- when the blob
   encapsulates content -- the signed messageDigest is the SHA-256 of the value
   octets of that content *)
Theorem C04_sound : forall rsa_ok p c,
  pkcs7_verify rsa_ok p c = Ret true ->
  exists si a, In si (p_signers p) /\ si_attrs si = Some a /\
    c_issuer c = si_issuer si /\ c_serial c = si_serial si /\
    rsa_ok (c_key c) (add_asn1 T_SET (at_raw a)) (si_sig si) = true /\
    (p_content p <> [] -> exists e, der_read (p_content p) = Some e /\ at_md a = sha256 (e_val e)).
Proof. exact verify_sound_explicit. Qed.

(* the same, as the executable predicate the correspondence check evaluates *)
Theorem C04_sound_spec : forall rsa_ok p c, pkcs7_verify rsa_ok p c = Ret true -> spec_valid rsa_ok p c = true.
Proof. exact verify_sound. Qed.

(* exactly when: the first signer entry naming the certificate decides *)
Theorem C04_exact : forall rsa_ok p c,
  pkcs7_verify rsa_ok p c = Ret true <-> first_named_valid rsa_ok p c = true.
Proof. exact verify_exact. Qed.

(* "over the signed attributes exactly as they appear in the blob": the bytes
   that are checked are a contiguous piece of the blob, header included *)
Theorem C04_attrs_in_blob : forall utctime_ok x509_ok blob p si a,
  parse_pkcs7 utctime_ok x509_ok blob = Ret p -> In si (p_signers p) -> si_attrs si = Some a ->
  infix (add_asn1 T_CTX0 (at_raw a)) blob.
Proof. exact attrs_in_blob. Qed.

(* every other outcome is a negative result or an error, never a crash *)
Theorem C04_returns : forall rsa_ok p c, returns (pkcs7_verify rsa_ok p c) = true.
Proof. exact verify_returns. Qed.

(* another key, even under the same issuer and serial: success requires an RSA
   signature valid under THAT key *)
Theorem C04_key_bound : forall rsa_ok p c,
  pkcs7_verify rsa_ok p c = Ret true -> exists msg sig, rsa_ok (c_key c) msg sig = true.
Proof. exact verify_key_bound. Qed.

(* inside an Authenticode signature: additionally the embedded digest is the image's *)
Theorem C04_authenticode : forall rsa_ok a c d,
  authenticode_verify rsa_ok a c d = Ret true ->
  ac_digest a = d /\ blen d = 32 /\ pkcs7_verify rsa_ok (ac_p7 a) c = Ret true.
Proof.
  intros rsa_ok a c d. unfold authenticode_verify.
  destruct (oid_eqb (ac_alg a) OID_sha256); [|discriminate]. cbn [negb].
  destruct (N.eqb_spec (blen (ac_digest a)) 32) as [E|]; [|discriminate]. cbn [negb].
  destruct (bytes_eqb d (ac_digest a)) eqn:B; [|discriminate]. cbn [negb].
  apply bytes_eqb_eq in B. subst. auto.
Qed.

(* non-vacuity: a blob produced by the signing model parses and verifies under
   an RSA predicate that accepts exactly the signature it was given, and stops
   verifying when the embedded content is changed *)
Definition ex_cert_raw : bytes := [x30; x03; x02; x01; x07].
Definition ex_issuer : bytes := add_asn1 T_SEQUENCE [x31; x00].
Definition ex_sig : bytes := [xaa; xbb; xcc].
Definition ex_blob : bytes := sign_pkcs7 ex_cert_raw ex_issuer 77 OID_spcIndirectData [x01; x02; x03] (map n2b [50;52;48;49;48;49;48;48;48;48;48;48;90]) ex_sig.
Definition ex_rsa (k : N) (msg sig : bytes) : bool := (k =? 5) && bytes_eqb sig ex_sig.
Definition yes (_ : bytes) : bool := true.
Example C04_example :
  match parse_pkcs7 yes yes ex_blob with
  | Ret p => pkcs7_verify ex_rsa p (mkCert ex_issuer 77 5) = Ret true /\
             pkcs7_verify ex_rsa p (mkCert ex_issuer 77 6) = Err 52 /\
             pkcs7_verify ex_rsa p (mkCert ex_issuer 78 5) = Ret false /\
             pkcs7_verify ex_rsa (mkP7 (p_oid p) (add_asn1 T_SEQUENCE [x01; x02; x04]) (p_certs p) (p_digalg p) (p_signers p))
                          (mkCert ex_issuer 77 5) = Err 51
  | _ => False
  end.
Proof. vm_compute. repeat split. Qed.

(* the verdict depends on nothing but the content and, per signer entry, the name,
   the signed attributes as they stand in the blob with their messageDigest, and
   the signature: rewriting version numbers, algorithm identifiers, certificates
   or unauthenticated fields -- whatever no signature covers -- never turns a
   rejection into an acceptance (or the reverse) *)
Theorem C04_depends_only_on : forall rsa_ok p p' c,
  p_content p = p_content p' -> map signed_view (p_signers p) = map signed_view (p_signers p') ->
  pkcs7_verify rsa_ok p c = pkcs7_verify rsa_ok p' c.
Proof. exact verify_depends_only_on. Qed.

Print Assumptions C04_depends_only_on.
Print Assumptions C04_sound.
Print Assumptions C04_sound_spec.
Print Assumptions C04_exact.
Print Assumptions C04_attrs_in_blob.
Print Assumptions C04_returns.
Print Assumptions C04_key_bound.
Print Assumptions C04_authenticode.
