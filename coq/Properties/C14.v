(* Properties/C14.v -- Malformed variable contents never crash, hang, exit or
   blow up memory. Theorems only. The dynamic part (real process, real memory)
   is measured by the sandboxed worker; what is proved here is about the models
   and about the termination sites regenerated from the source. *)
From Coq Require Import Bool List NArith Lia.
From Coq.Strings Require Import Byte.
From GoUefi Require Import Base.Bytes Base.Outcome Base.Reader Model.Util Model.WinCert Model.SigList
  Model.Device Proofs.SafetyProofs Generated.Sites Proofs.SitesProofs.
Import ListNotations.
Local Open Scope N_scope.

(* every decoder ends in a returned value or a returned error, for every byte string *)
Theorem C14_total_sigdb : forall bs, returns (read_signature_database bs) = true.
Proof. exact read_signature_database_returns. Qed.
Theorem C14_total_auth2 : forall bs, returns (read_auth2 bs) = true.
Proof. exact read_auth2_returns. Qed.
Theorem C14_total_wincert : forall bs, returns (read_wincert bs) = true.
Proof. exact read_wincert_returns. Qed.
Theorem C14_total_wincert_guid : forall bs, returns (read_wincert_guid bs) = true.
Proof. exact read_wincert_guid_returns. Qed.
Theorem C14_total_utf16 : forall bs, returns (parse_utf16 bs) = true.
Proof. exact parse_utf16_returns. Qed.
Theorem C14_total_efistring : forall bs, returns (efistring_unmarshal bs) = true.
Proof. exact efistring_returns. Qed.
Theorem C14_total_load_option : forall bs, returns (parse_load_option bs) = true.
Proof. exact parse_load_option_returns. Qed.

(* never loops: the iteration bound (fuel) derived from the input length is never reached *)
Theorem C14_steps_sigdb : forall bs, read_signature_database bs <> Err 99.
Proof. exact read_signature_database_fuel. Qed.
Theorem C14_steps_device_path : forall bs, parse_device_path bs <> Err 98.
Proof. exact parse_device_path_fuel. Qed.

(* never produces (allocates for) more than the input holds *)
Theorem C14_size_sigdb : forall bs db, read_signature_database bs = Ret db -> blen (enc_db db) = blen bs.
Proof. exact sigdb_size. Qed.
Theorem C14_size_auth2 : forall bs a rest,
  read_auth2 bs = Ret (a, rest) -> blen (write_auth2 a) + blen rest = blen bs.
Proof. exact auth2_size. Qed.
Theorem C14_size_utf16 : forall bs, (length (utf16le_decode bs) <= length bs)%nat.
Proof. exact utf16_size. Qed.
Theorem C14_size_boot_order : forall bs, (length (decode_boot_order bs) <= length bs)%nat.
Proof. exact boot_order_size. Qed.
Theorem C14_size_device_path : forall bs ns, parse_device_path bs = Ret ns -> (4 * length ns <= length bs)%nat.
Proof. exact device_path_size. Qed.
Theorem C14_size_supported_signatures : forall bs, (16 * length (supported_signatures bs) <= length bs)%nat.
Proof. exact supported_signatures_size. Qed.

(* ---- static part: every termination call site of the library packages
   (log.Fatal*, log.Panic*, os.Exit, panic, BytesOrPanic), as regenerated from
   the source by the translator, is either in the test-support package, or runs
   only if a write to a bytes.Buffer fails, or is not reachable from any
   decoding entry point in the static call graph ---- *)
Theorem C14_sites_accounted : forallb site_ok generated_sites = true.
Proof. exact sites_accounted. Qed.

Print Assumptions C14_total_sigdb.
Print Assumptions C14_total_auth2.
Print Assumptions C14_total_wincert.
Print Assumptions C14_total_wincert_guid.
Print Assumptions C14_total_utf16.
Print Assumptions C14_total_efistring.
Print Assumptions C14_total_load_option.
Print Assumptions C14_steps_sigdb.
Print Assumptions C14_steps_device_path.
Print Assumptions C14_size_sigdb.
Print Assumptions C14_size_auth2.
Print Assumptions C14_size_utf16.
Print Assumptions C14_size_boot_order.
Print Assumptions C14_size_device_path.
Print Assumptions C14_size_supported_signatures.
Print Assumptions C14_sites_accounted.
