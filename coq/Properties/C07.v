(* Properties/C07.v -- Signature-database encoding and decoding are inverses
   on well-formed data. Theorems only. *)
From Coq Require Import Bool List NArith Lia.
From Coq.Strings Require Import Byte.
From GoUefi Require Import Base.Bytes Base.Outcome Base.Reader Model.Util Model.SigList Model.SigDb
  Proofs.SigListProofs Proofs.SigDbProofs.
Import ListNotations.
Local Open Scope N_scope.

(* decoding the encoding of well-formed lists yields exactly those lists *)
Theorem C07_decode_encode : forall db,
  Forall wf_list db -> read_signature_database (enc_db db) = Ret db.
Proof. exact decode_encode. Qed.

(* whatever decodes, re-encodes to the input byte for byte, and is well-formed *)
Theorem C07_encode_decode : forall bs db,
  read_signature_database bs = Ret db -> bs = enc_db db /\ Forall wf_list db.
Proof. exact decode_strict. Qed.

(* "exactly the lists the layout defines": the decoding is unique *)
Theorem C07_unique : forall a b,
  Forall wf_list a -> Forall wf_list b -> enc_db a = enc_db b -> a = b.
Proof. exact enc_db_inj. Qed.

(* one list: layout and inverse *)
Theorem C07_list_layout : forall l,
  enc_list l = guid_wire (sl_type l) ++ le 4 (sl_listsize l) ++ le 4 (sl_headersize l) ++
               le 4 (sl_size l) ++ sl_header l ++ flat_map (fun s => guid_wire (sd_owner s) ++ sd_data s) (sl_sigs l).
Proof. reflexivity. Qed.
Theorem C07_read_list_enc : forall l rest, wf_list l -> read_list (enc_list l ++ rest) = RL_Ok l rest.
Proof. exact read_list_enc. Qed.

(* databases built through the library's own operations (invariant of C09)
   encode to a stream that decodes to an equal database *)
Theorem C07_ops_roundtrip : forall db,
  Forall (fun l => list_inv l /\ wf_guid (sl_type l) /\
                   size_ok (sl_type l) (sl_headersize l) (sl_size l) = true /\
                   Forall (fun s => wf_guid (sd_owner s)) (sl_sigs l) /\ sl_listsize l < 4294967296) db ->
  read_signature_database (enc_db db) = Ret db.
Proof. exact ops_roundtrip. Qed.

(* non-vacuity: an X.509 list with two 3-byte "certificates", a SHA-256 list
   with one hash and an externally managed list *)
Definition ex_owner := mkGuid 1 2 3 [x04;x05;x06;x07;x08;x09;x0a;x0b].
Definition ex_db : list siglist :=
  [ mkList CERT_X509 66 0 19 [] [mkSig ex_owner [x30;x01;x02]; mkSig guid_zero [x30;x03;x04]];
    mkList CERT_SHA256 76 0 48 [] [mkSig ex_owner (repeat xab 32)];
    mkList CERT_EXTERNAL_MANAGEMENT 45 0 17 [] [mkSig ex_owner [x01]] ].
Example C07_example : read_signature_database (enc_db ex_db) = Ret ex_db /\ length (enc_db ex_db) = 187%nat.
Proof. split; vm_compute; reflexivity. Qed.

Print Assumptions C07_decode_encode.
Print Assumptions C07_encode_decode.
Print Assumptions C07_unique.
Print Assumptions C07_list_layout.
Print Assumptions C07_read_list_enc.
Print Assumptions C07_ops_roundtrip.
