(* Extract.v -- extraction of the executable models and conformance relations.
   Only ExtrOcamlBasic's directives are used (bool, option, list, prod, unit,
   sumbool mapped to OCaml's own); N, positive, Z, byte are extracted as is. *)
From Coq Require Extraction.
From Coq Require Import ExtrOcamlBasic.
From GoUefi Require Import Base.Bytes Base.Hex Base.Outcome Model.Util Model.WinCert Model.SigList Model.SigDb Model.VarIO Model.Device Model.Pkcs7 Model.VarSign Model.PE Model.PEVerify Spec.PECheck Spec.PESignCheck Spec.P7Check Spec.VarCheck Spec.DevCheck Spec.SafetyCheck Spec.FaultCheck Spec.PureCheck Spec.C17Check Spec.C10Check Spec.SigCheck.

Extraction Language OCaml.
Set Extraction Optimize.
Extraction "model.ml"
  n2b b2n
  Spec.C17Check.check_format Spec.C17Check.apply_case Spec.C17Check.check_parse
  Spec.C17Check.check_to_bytes Spec.C17Check.check_from_bytes Spec.C17Check.check_cmp
  Spec.C17Check.check_wire Spec.C17Check.check_marshal Spec.C17Check.check_parse_utf16
  Spec.C17Check.check_efistring Model.Util.guid_format Model.Util.valid_scalar
  Spec.C10Check.check_read_auth2 Spec.C10Check.auth2_decodes Spec.C10Check.check_read_wincert
  Spec.C10Check.wincert_decodes Spec.C10Check.check_write_auth2
  Spec.SigCheck.check_c07 Spec.SigCheck.check_c07_built Spec.SigCheck.check_c08 Spec.SigCheck.decodes Spec.SigCheck.decodes_any
  Spec.SigCheck.run_history Spec.SigCheck.run_list_history
  Spec.VarCheck.check_write Spec.VarCheck.check_write_short Spec.VarCheck.check_read Spec.VarCheck.check_read_legacy Spec.VarCheck.run_store
  Spec.DevCheck.check_boot_order Spec.DevCheck.check_load_option Spec.DevCheck.load_option_decodes
  Spec.DevCheck.check_hd_text Spec.DevCheck.check_file_text Model.Device.parse_device_path
  Spec.SafetyCheck.check_safety Spec.FaultCheck.check_fault Spec.FaultCheck.check_call_order Spec.PureCheck.check_pure
  Spec.P7Check.check_verify Spec.P7Check.check_accepts Spec.P7Check.model_verify Spec.P7Check.check_p7_parse
  Spec.P7Check.p7_parses Spec.P7Check.check_reencode Spec.P7Check.check_sign Base.Sha256.sha256
  Spec.PECheck.check_pe_parse Spec.PECheck.check_pe_flip
  Spec.PESignCheck.pe_verify_both Spec.PESignCheck.check_signed_image Spec.PESignCheck.model_signed_bytes
  Spec.P7Check.check_efi_sign Spec.P7Check.efi_signed_buffer Spec.P7Check.efi_sign_model Spec.P7Check.efi_sign_tbs_model
  Model.Pkcs7.parse_authenticode Model.Pkcs7.authenticode_verify Model.Pkcs7.sign_authenticode.
