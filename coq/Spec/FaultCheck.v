(* Spec/FaultCheck.v -- R_C15: what must be observed when the k-th dependency
   call of an operation fails. *)
From Coq Require Import Bool List NArith.
Import ListNotations.
Local Open Scope N_scope.

(* res_ok: the operation reported success (or a digest); after: the dependency
   calls issued after the failing one (0 = Close, 1 = anything else);
   state_same: the observable state of the objects involved is what it was *)
Definition check_fault (res_ok : bool) (after : list N) (state_same : bool) : bool :=
  negb res_ok && forallb (N.eqb 0) after && state_same.
