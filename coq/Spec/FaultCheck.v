(* Spec/FaultCheck.v -- R_C15: what must be observed when the k-th dependency
   call of an operation fails. *)
From Coq Require Import Bool List NArith.
Import ListNotations.
Local Open Scope N_scope.

(* res_ok: the operation reported success (or a digest); after: the dependency
   calls issued after the failing one (0 = Close, 1 = anything else);
   state_same: the observable state of the objects involved is what it was *)
Definition check_fault (res_ok : bool) (after : list N) (state_same : bool) : bool :=
  negb res_ok && forallb (N.eqb 0) after && state_same.

(* ---- the order of dependency calls: the kinds of calls a fault-free run of the
   implementation issues, with repeated reads counted once, are those of the
   program model run against an environment in which every call succeeds ---- *)
From Coq.Strings Require Import Byte.
From GoUefi Require Import Base.Bytes Base.Outcome Base.Prog Model.Util Model.VarIO Model.Faults.

Definition kind_of (c : call) : N :=
  match c with
  | COpenFile _ _ _ | COpen _ => 0
  | CStat => 1
  | CRead _ => 2
  | CWrite _ => 3
  | CClose => 4
  | CSign _ => 5
  | CReadAt => 6
  end.
Fixpoint collapse (l : list N) : list N :=
  match l with
  | a :: ((b :: _) as r) => if a =? b then collapse r else a :: collapse r
  | _ => l
  end.
Definition env_ok : env :=
  fun _ c => match c with
             | CStat => ROk 8 []
             | CRead n => ROk n (zeros (N.to_nat n))
             | CWrite b => ROk (N.of_nat (length b)) []
             | _ => ROk 0 []
             end.
Definition model_kinds {R} (p : prog R) : list N := collapse (map kind_of (snd (run env_ok p 0))).
Fixpoint nlist_eqb (a b : list N) : bool :=
  match a, b with
  | [], [] => true
  | x :: a', y :: b' => (x =? y) && nlist_eqb a' b'
  | _, _ => false
  end.
Definition zero_guid : guid := mkGuid 0 0 0 (repeat x00 8).
(* op: 0 = write a variable, 1 = read a variable, 2 = signed update (the signer first, then the write) *)
Definition check_call_order (op : N) (kinds : list N) : bool :=
  nlist_eqb (collapse kinds)
    (if op =? 0 then model_kinds (write_var [] [] zero_guid 7 [x00])
     else if op =? 1 then model_kinds (read_var_prog [] 0)
     else model_kinds (signed_update_prog [] (fun s => s) [] [] zero_guid 7)).
