(* Spec/P7Check.v -- the declarative validity condition of C04 (RFC 2315
   section 9 on the parsed structure) and the executable relations R_C04,
   R_C05, R_C16. *)
From Coq Require Import Bool List NArith ZArith.
From Coq.Strings Require Import Byte.
From GoUefi Require Import Base.Bytes Base.Outcome Base.Reader Base.Der Base.Sha256 Model.Pkcs7.
Import ListNotations.
Local Open Scope N_scope.

Section Spec.
Variable utctime_ok : bytes -> bool.
Variable x509_ok : bytes -> bool.
Variable rsa_ok : N -> bytes -> bytes -> bool.

(* the SHA-256 of the value octets of the encapsulated content, when there is one *)
Definition content_digest (content : bytes) : option (option bytes) :=
  if is_nilb content then Some None
  else match der_read content with Some e => Some (Some (sha256 (e_val e))) | None => None end.

(* a signer entry validates the blob for this certificate *)
Definition signer_valid (si : signer) (c : cert) (content : bytes) : bool :=
  names si c &&
  match si_attrs si with
  | None => false
  | Some a =>
      rsa_ok (c_key c) (add_asn1 T_SET (at_raw a)) (si_sig si) &&
      match content_digest content with
      | Some None => true
      | Some (Some d) => bytes_eqb d (at_md a)
      | None => false
      end
  end.

Definition spec_valid (p : pkcs7) (c : cert) : bool :=
  existsb (fun si => signer_valid si c (p_content p)) (p_signers p).

Definition blob_valid (blob : bytes) (c : cert) : bool :=
  match parse_pkcs7 utctime_ok x509_ok blob with
  | Ret p => spec_valid p c
  | _ => false
  end.

(* R_C04: success is reported only for a valid blob *)
Definition check_verify (blob : bytes) (c : cert) (impl_true : bool) : bool :=
  implb impl_true (blob_valid blob c).

(* the model's own answer, for the correspondence statistics: 0 err, 1 false, 2 true *)
Definition model_verify (blob : bytes) (c : cert) : N :=
  match parse_pkcs7 utctime_ok x509_ok blob with
  | Ret p => match pkcs7_verify rsa_ok p c with Ret true => 2 | Ret false => 1 | _ => 0 end
  | _ => 0
  end.

(* completeness on the supported subset: a blob that is valid for the first
   signer naming the certificate must verify *)
Definition first_named_valid (p : pkcs7) (c : cert) : bool :=
  match find (fun si => names si c) (p_signers p) with
  | Some si => signer_valid si c (p_content p)
  | None => false
  end.
Definition check_accepts (blob : bytes) (c : cert) (impl_true : bool) : bool :=
  match parse_pkcs7 utctime_ok x509_ok blob with
  | Ret p => implb (first_named_valid p c) impl_true
  | _ => true
  end.

(* what the library's parser reports, as far as the public fields show *)
Record signer_obs := mkSignerObs {
  so_issuer : bytes; so_serial : Z; so_md : bytes; so_has_attrs : bool; so_ctype : list N; so_sig : bytes;
  so_marshal : bytes }.  (* Attributes.Marshal() of the parsed values *)
Record p7_obs := mkP7Obs { po_oid : list N; po_content : bytes; po_signers : list signer_obs }.

Definition signer_obs_ok (si : signer) (o : signer_obs) : bool :=
  bytes_eqb (si_issuer si) (so_issuer o) && Z.eqb (si_serial si) (so_serial o) && bytes_eqb (si_sig si) (so_sig o) &&
  match si_attrs si with
  | None => negb (so_has_attrs o)
  | Some a => so_has_attrs o && bytes_eqb (at_md a) (so_md o) &&
              match at_ctype a with Some ct => oid_eqb ct (so_ctype o) | None => is_nilb (so_ctype o) end
  end.
Fixpoint signers_obs_ok (l : list signer) (o : list signer_obs) : bool :=
  match l, o with
  | [], [] => true
  | si :: l', so :: o' => signer_obs_ok si so && signers_obs_ok l' o'
  | _, _ => false
  end.
Definition check_p7_parse (blob : bytes) (impl : option p7_obs) : bool :=
  match parse_pkcs7 utctime_ok x509_ok blob, impl with
  | Ret p, Some o => oid_eqb (p_oid p) (po_oid o) && bytes_eqb (p_content p) (po_content o) &&
                     signers_obs_ok (p_signers p) (po_signers o)
  | Ret _, None => false
  | _, Some _ => false
  | _, None => true
  end.
Definition p7_parses (blob : bytes) : bool :=
  match parse_pkcs7 utctime_ok x509_ok blob with Ret _ => true | _ => false end.

(* C16: the re-encoding of the parsed attribute values reproduces the signed bytes *)
Definition reencode_ok (p : pkcs7) (obs : list signer_obs) : bool :=
  (fix go (l : list signer) (o : list signer_obs) : bool :=
     match l, o with
     | si :: l', so :: o' =>
         match si_attrs si with
         | Some a => bytes_eqb (so_marshal so) (add_asn1 T_SET (at_raw a)) && go l' o'
         | None => go l' o'
         end
     | _, _ => true
     end) (p_signers p) obs.
Definition check_reencode (blob : bytes) (impl : option p7_obs) : bool :=
  match parse_pkcs7 utctime_ok x509_ok blob, impl with
  | Ret p, Some o => reencode_ok p (po_signers o)
  | _, _ => true
  end.
End Spec.

(* R_C05: the produced bytes are exactly the model's *)
Definition check_sign (cert_raw issuer_raw : bytes) (serial : N) (oid : list N) (content time sig : bytes)
           (tbs : bytes) (impl : bytes) : bool :=
  bytes_eqb (sign_pkcs7 cert_raw issuer_raw serial oid content time sig) impl &&
  bytes_eqb (sign_pkcs7_tbs oid content time) tbs.

(* R_C06: the produced signed update is exactly the model's bytes, and the
   signer was handed the model's digest *)
From GoUefi Require Import Model.Util Model.WinCert Model.VarSign.
Definition check_efi_sign (cert_raw issuer_raw : bytes) (serial : N) (name : bytes) (g : guid) (attrs : N)
           (t : efitime) (payload p7time sig tbs impl : bytes) : bool :=
  bytes_eqb (sign_efi_variable cert_raw issuer_raw serial name g attrs t payload p7time sig) impl &&
  bytes_eqb (sign_efi_variable_tbs name g attrs t payload p7time) tbs.
Definition efi_signed_buffer := signed_buffer.
Definition efi_sign_model := sign_efi_variable.
Definition efi_sign_tbs_model := sign_efi_variable_tbs.
