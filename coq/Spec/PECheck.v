(* Spec/PECheck.v -- executable relations R_C01 (digest = specification) and
   the flip relation (covered <-> digest changes). *)
From Coq Require Import Bool List NArith.
From Coq.Strings Require Import Byte.
From GoUefi Require Import Base.Bytes Base.Outcome Base.Reader Model.WinCert Model.PE.
Import ListNotations.
Local Open Scope N_scope.

(* what the implementation reported for an image *)
Record pe_obs := mkPeObs {
  po_ok : bool;                 (* Parse succeeded *)
  po_pre : option bytes;        (* hash pre-image (None: Hash returned nil) *)
  po_bytes : bytes }.           (* Bytes() *)

(* verdict: 0 ok, 1 violation of C01, 2 model and implementation differ outside C01's domain *)
Definition check_pe_parse (img : bytes) (pe_ok : bool) (o : pe_obs) : N * bool * bool :=
  let wf := wf_image_b img in
  let nontrivial :=
    match read_layout img with
    | Some L => wf && ((2 <=? N.of_nat (length (hashed_secs L))) || (l_sum L + l_certsize L <? l_size L))
    | None => false
    end in
  let spec_ok :=
    match read_layout img with
    (* spec_content L img, computed through hash_ranges (equal for well-formed
       images by theorem C01_ranges_eq_spec) *)
    | Some L => po_ok o && match po_pre o with Some p => bytes_eqb p (hash_ranges L img) | None => false end
    | None => false
    end in
  let model_same :=
    match pe_parse pe_ok img with
    | Ret st => po_ok o &&
                match hash_content st, po_pre o with
                | Some a, Some b => bytes_eqb a b
                | None, None => true
                | _, _ => false
                end && bytes_eqb (pe_bytes st) (po_bytes o)
    | _ => negb (po_ok o)
    end in
  (* the domain of C01: accepted by debug/pe and well-formed *)
  ((if pe_ok && wf && negb spec_ok then 1 else if model_same then 0 else 2), pe_ok && wf, pe_ok && nontrivial).

Fixpoint set_nth (n : nat) (b : byte) (l : bytes) : bytes :=
  match n, l with
  | O, _ :: r => b :: r
  | S n', x :: r => x :: set_nth n' b r
  | _, [] => []
  end.

Definition covered := covered_b.

Definition layout_eqb (a b : layout) : bool :=
  (l_opt a =? l_opt b) && (l_soo a =? l_soo b) && Bool.eqb (l_plus a) (l_plus b) && (l_soh a =? l_soh b) &&
  (l_va a =? l_va b) && (l_certsize a =? l_certsize b) && (l_size a =? l_size b) &&
  (fix eq (x y : list (N * N)) : bool :=
     match x, y with
     | [], [] => true
     | (a1, a2) :: x', (b1, b2) :: y' => (a1 =? b1) && (a2 =? b2) && eq x' y'
     | _, _ => false
     end) (hashed_secs a) (hashed_secs b).

(* flipping one byte of a well-formed image: 0 ok, 1 violation; class of the position *)
Definition check_pe_flip (img : bytes) (pos : N) (nb : byte) (pre : bytes) (pe_ok' : bool)
           (impl_ok' : bool) (pre' : option bytes) : N * N :=
  let img' := set_nth (N.to_nat pos) nb img in
  match read_layout img, read_layout img' with
  | Some L, Some L' =>
      if negb (pe_ok' && wf_layout_b L && wf_layout_b L') then (0, 0)     (* outside the domain *)
      else if covered L pos then
        ((match pre' with Some p' => if impl_ok' && negb (bytes_eqb p' pre) then 0 else 1 | None => 1 end), 1)
      else if layout_eqb L L' then
        ((match pre' with Some p' => if impl_ok' && bytes_eqb p' pre then 0 else 1 | None => 1 end), 2)
      else (0, 3)      (* an excluded byte that changes the layout (certificate directory entry) *)
  | _, _ => (0, 0)
  end.
