(* Spec/SafetyCheck.v -- R_C13 / R_C14: the observed end of a call and its
   allocation volume. *)
From Coq Require Import Bool List NArith.
From GoUefi Require Import Base.Outcome.
Local Open Scope N_scope.

(* returned value or error; allocation within 64 bytes per input byte plus
   32 MiB (the constant absorbs fixed-size chunks of debug/pe, io.Copy, x509) *)
Definition alloc_bound (len : N) : N := 64 * len + 33554432.
Definition check_safety (len : N) (c : oclass) (alloc : N) : bool :=
  match c with
  | CRet | CErr => alloc <=? alloc_bound len
  | _ => false
  end.
