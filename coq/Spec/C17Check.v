(* Spec/C17Check.v -- executable conformance relation R_C17: does an observation
   of the implementation satisfy C17 on this input?  Extracted and run by the
   driver on every generated case. *)
From Coq Require Import Bool List NArith.
From Coq.Strings Require Import Byte.
From GoUefi Require Import Base.Bytes Base.Hex Base.Outcome Model.Util.
Import ListNotations.
Local Open Scope N_scope.

Fixpoint listN_eqb (a b : list N) : bool :=
  match a, b with
  | [], [] => true
  | x :: a', y :: b' => (x =? y) && listN_eqb a' b'
  | _, _ => false
  end.

(* observed outcome of a string-returning call *)
Inductive obs_str := OStr (s : list N) | OErr | OPanic | OExit.

Definition check_format (g : guid) (impl : bytes) : bool := bytes_eqb (guid_format g) impl.
(* parsing the canonical text of g, with the case of each letter chosen by [mask] *)
Fixpoint apply_case (mask : list bool) (s : bytes) : bytes :=
  match s, mask with
  | c :: s', true :: m' => to_upper c :: apply_case m' s'
  | c :: s', false :: m' => c :: apply_case m' s'
  | _, [] => s
  | [], _ => []
  end.
Definition check_parse (text : bytes) (impl : guid) : bool := guid_eqb (string_to_guid text) impl.
Definition check_to_bytes (g : guid) (impl : bytes) : bool := bytes_eqb (guid_to_bytes g) impl.
Definition check_from_bytes (s : bytes) (impl : guid) : bool := guid_eqb (bytes_to_guid s) impl.
Definition check_cmp (a b : guid) (impl : bool) : bool := Bool.eqb (guid_eqb a b) impl.
Definition check_wire (g : guid) (impl : bytes) : bool := bytes_eqb (guid_wire g) impl.
Definition check_marshal (s : list N) (impl : bytes) : bool := bytes_eqb (marshal_utf16 s) impl.
Definition check_parse_utf16 (bs : bytes) (impl : obs_str) : bool :=
  match parse_utf16 bs, impl with
  | Ret s, OStr s' => listN_eqb s s'
  | Err _, OErr => true
  | _, _ => false
  end.
Definition check_efistring (bs : bytes) (impl : obs_str) : bool :=
  match efistring_unmarshal bs, impl with
  | Ret s, OStr s' => listN_eqb s s'
  | Err _, OErr => true
  | _, _ => false
  end.
