(* Spec/PureCheck.v -- R_C19: what a history of read-only calls on one object
   (sequential or concurrent) must look like: every result is the result the
   same call gave when it was first made alone, and every snapshot of the
   object's state is the first snapshot. *)
From Coq Require Import Bool List NArith.
From Coq.Strings Require Import Byte.
From GoUefi Require Import Base.Bytes.
Import ListNotations.
Local Open Scope N_scope.

Fixpoint lookup (op : N) (l : list (N * bytes)) : option bytes :=
  match l with
  | [] => None
  | (o, r) :: rest => if o =? op then Some r else lookup op rest
  end.

(* Theorem C19_repeat / C19_schedules: the i-th result is that of the call alone *)
Definition predicted (alone : list (N * bytes)) (ops : list N) : list (option bytes) :=
  map (fun o => lookup o alone) ops.

Definition check_pure (alone : list (N * bytes)) (obs : list (N * bytes)) (snaps : list bytes) : bool :=
  forallb (fun p => match lookup (fst p) alone with Some r => bytes_eqb r (snd p) | None => false end) obs &&
  match snaps with
  | [] => true
  | s0 :: rest => forallb (bytes_eqb s0) rest
  end.
