(* Spec/DevCheck.v -- executable conformance relation R_C18 (and the model's
   result class for C14's device entry points). *)
From Coq Require Import Bool List NArith.
From Coq.Strings Require Import Byte.
From GoUefi Require Import Base.Bytes Base.Hex Base.Outcome Base.Reader Base.NumText Model.Util Model.Device
  Spec.C17Check Spec.SigCheck.
Import ListNotations.
Local Open Scope N_scope.

Definition check_boot_order (bs : bytes) (names : list bytes) : bool :=
  list_eqb bytes_eqb (decode_boot_order bs) names.

Definition hdr_eqb (a b : hdr) : bool :=
  (h_type a =? h_type b) && (h_sub a =? h_sub b) && (h_len0 a =? h_len0 b) && (h_len1 a =? h_len1 b).
Definition node_eqb (a b : node) : bool :=
  match a, b with
  | NPci h f d, NPci h' f' d' => hdr_eqb h h' && (f =? f') && (d =? d')
  | NAcpi h x y, NAcpi h' x' y' => hdr_eqb h h' && bytes_eqb x x' && bytes_eqb y y'
  | NHardDrive h a1 a2 a3 s a4 a5, NHardDrive h' b1 b2 b3 s' b4 b5 =>
      hdr_eqb h h' && (a1 =? b1) && (a2 =? b2) && (a3 =? b3) && bytes_eqb s s' && (a4 =? b4) && (a5 =? b5)
  | NFilePath h p, NFilePath h' p' => hdr_eqb h h' && listN_eqb p p'
  | NFirmwareFile h x, NFirmwareFile h' x' => hdr_eqb h h' && bytes_eqb x x'
  | NUsb h p i, NUsb h' p' i' => hdr_eqb h h' && (p =? p') && (i =? i')
  | _, _ => false
  end.

(* a decode either gives the fields or fails; when the model decodes, the
   implementation must give exactly the model's fields *)
Definition check_load_option (bs : bytes) (impl : option load_option) : bool :=
  match parse_load_option bs, impl with
  | Ret o, Some o' =>
      (lo_attrs o =? lo_attrs o') && (lo_fpl_len o =? lo_fpl_len o') && listN_eqb (lo_desc o) (lo_desc o') &&
      list_eqb node_eqb (lo_nodes o) (lo_nodes o')
  | Ret _, None => false
  | _, _ => true
  end.
Definition load_option_decodes (bs : bytes) : bool :=
  match parse_load_option bs with Ret o => negb (is_nilb (lo_nodes o)) | _ => false end.

Definition hd_sig_eqb (a b : hd_sig) : bool :=
  match a, b with
  | SigMBR x, SigMBR y => x =? y
  | SigGPT x, SigGPT y => guid_eqb x y
  | _, _ => false
  end.
Definition check_hd_text (pn st sz : N) (sig : bytes) (sty : N) (text : bytes) : bool :=
  match hd_denotes pn st sz sig sty with
  | None => true                        (* neither MBR nor GPT: outside the property *)
  | Some f =>
      match parse_hd_text text with
      | Some g => (hf_part f =? hf_part g) && hd_sig_eqb (hf_sig f) (hf_sig g) &&
                  (hf_start f =? hf_start g) && (hf_size f =? hf_size g)
      | None => false
      end
  end.
Definition check_file_text (p : list N) (text : list N) : bool := listN_eqb (format_file p) text.
