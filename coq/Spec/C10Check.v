(* Spec/C10Check.v -- executable conformance relation R_C10. *)
From Coq Require Import Bool List NArith.
From Coq.Strings Require Import Byte.
From GoUefi Require Import Base.Bytes Base.Outcome Base.Reader Model.Util Model.WinCert.
Import ListNotations.
Local Open Scope N_scope.

Definition time_eqb (a b : efitime) : bool :=
  (t_year a =? t_year b) && (t_month a =? t_month b) && (t_day a =? t_day b) &&
  (t_hour a =? t_hour b) && (t_minute a =? t_minute b) && (t_second a =? t_second b) &&
  (t_pad1 a =? t_pad1 b) && (t_nanosecond a =? t_nanosecond b) && (t_timezone a =? t_timezone b) &&
  (t_daylight a =? t_daylight b) && (t_pad2 a =? t_pad2 b).

Definition wg_eqb (a b : wincert_guid) : bool :=
  (wg_length a =? wg_length b) && (wg_revision a =? wg_revision b) && (wg_type a =? wg_type b) &&
  guid_eqb (wg_guid a) (wg_guid b) && bytes_eqb (wg_data a) (wg_data b).

(* what the implementation returned for a decode: the value, how many bytes are
   left in the reader, and what Marshal of the value gives *)
Inductive obs_auth2 :=
| OA_ok (a : auth2) (remaining : N) (marshal : bytes)
| OA_other.   (* error, panic or exit *)

Definition check_read_auth2 (bs : bytes) (impl : obs_auth2) : bool :=
  match read_auth2 bs, impl with
  | Ret (a, rest), OA_ok a' rem m =>
      time_eqb (a_time a) (a_time a') && wg_eqb (a_info a) (a_info a') &&
      (rem =? blen rest) && bytes_eqb m (write_auth2 a)
  | Ret _, OA_other => false
  | _, OA_ok _ _ _ => false
  | _, OA_other => true
  end.

Definition auth2_decodes (bs : bytes) : bool :=
  match read_auth2 bs with Ret _ => true | _ => false end.

Inductive obs_wincert :=
| OW_ok (w : wincert) (remaining : N) (written : bytes)
| OW_other.

Definition check_read_wincert (bs : bytes) (impl : obs_wincert) : bool :=
  match read_wincert bs, impl with
  | Ret (w, rest), OW_ok w' rem m =>
      (wc_length w =? wc_length w') && (wc_revision w =? wc_revision w') && (wc_type w =? wc_type w') &&
      bytes_eqb (wc_cert w) (wc_cert w') && (rem =? blen rest) && bytes_eqb m (write_wincert w)
  | Ret _, OW_other => false
  | _, OW_ok _ _ _ => false
  | _, OW_other => true
  end.

Definition wincert_decodes (bs : bytes) : bool :=
  match read_wincert bs with Ret _ => true | _ => false end.

(* encoding of a value built field by field *)
Definition check_write_auth2 (a : auth2) (impl : bytes) : bool := bytes_eqb (write_auth2 a) impl.
