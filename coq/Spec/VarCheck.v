(* Spec/VarCheck.v -- executable conformance relations R_C11, R_C12. *)
From Coq Require Import Bool List NArith.
From Coq.Strings Require Import Byte.
From GoUefi Require Import Base.Bytes Base.Outcome Base.Reader Base.Prog Model.Util Model.WinCert
  Model.SigList Model.VarIO.
Import ListNotations.
Local Open Scope N_scope.

(* a state-changing file-system call observed on the recording afero.Fs *)
Inductive fs_obs :=
| FO_OpenFile (path : bytes) (flags : N)
| FO_Write (buf : bytes)
| FO_Other.                 (* anything else that can change the file system *)

Definition fs_obs_eqb (a b : fs_obs) : bool :=
  match a, b with
  | FO_OpenFile p f, FO_OpenFile q g => bytes_eqb p q && (f =? g)
  | FO_Write x, FO_Write y => bytes_eqb x y
  | _, _ => false
  end.

Fixpoint fs_trace_eqb (a b : list fs_obs) : bool :=
  match a, b with
  | [], [] => true
  | x :: a', y :: b' => fs_obs_eqb x y && fs_trace_eqb a' b'
  | _, _ => false
  end.

(* R_C11, writing: success, and the state-changing calls are exactly
   OpenFile(path, flags) then one Write(attrs ++ value) *)
Definition check_write (dir name : bytes) (g : guid) (attrs : N) (value : bytes)
           (ok : bool) (trace : list fs_obs) : bool :=
  ok && fs_trace_eqb trace [FO_OpenFile (var_path dir name g) (open_flags attrs);
                            FO_Write (le 4 attrs ++ value)].

(* ... and when that Write comes up short (Theorem C15_write_short): the same
   calls, nothing more, and no success *)
Definition check_write_short (dir name : bytes) (g : guid) (attrs : N) (value : bytes)
           (ok : bool) (trace : list fs_obs) : bool :=
  negb ok && fs_trace_eqb trace [FO_OpenFile (var_path dir name g) (open_flags attrs);
                                 FO_Write (le 4 attrs ++ value)].

(* what a read did, as observed *)
Inductive read_obs :=
| RO_decoded (stored : N) (value : bytes)   (* decoder called with these bytes; attributes returned *)
| RO_wrong_attrs (decoder_called : bool)    (* the wrong-attributes error *)
| RO_error (decoder_called : bool).         (* any other error *)

Definition check_read (content : option bytes) (required : N) (o : read_obs) : bool :=
  match read_var content required, o with
  | RdDecode a v, RO_decoded a' v' => (a =? a') && bytes_eqb v v'
  | RdWrongAttrs _, RO_wrong_attrs called => negb called
  | RdErr, RO_error called => negb called
  | RdErr, RO_wrong_attrs called => negb called     (* still an error, nothing decoded *)
  | _, _ => false
  end.

(* legacy getters report a missing attribute as a plain error *)
Definition check_read_legacy (content : option bytes) (required : N) (o : read_obs) : bool :=
  match read_var content required, o with
  | RdDecode a v, RO_decoded a' v' => (a =? a') && bytes_eqb v v'
  | RdWrongAttrs _, RO_wrong_attrs called => negb called
  | RdWrongAttrs _, RO_error called => negb called
  | RdErr, RO_error called => negb called
  | _, _ => false
  end.

(* ---------------- C12 ---------------- *)
Inductive sop :=
| SWrite (name : bytes) (g : guid) (attrs : N) (value : bytes)   (* WriteVar / WriteSignedUpdate (value = what is marshalled) *)
| SRead (name : bytes) (g : guid) (required : N).

Definition step_store (dir : bytes) (s : store) (op : sop) (o : option read_obs) : bool * store :=
  match op with
  | SWrite name g attrs value => (true, testfs_write dir s name g attrs value)
  | SRead name g required =>
      match o with
      | Some ro => (check_read (lookup s (var_path dir name g)) required ro, s)
      | None => (false, s)
      end
  end.

Fixpoint run_store (dir : bytes) (s : store) (ops : list (sop * option read_obs)) (i : N) : bool * N :=
  match ops with
  | [] => (true, i)
  | (op, o) :: r =>
      let '(ok, s') := step_store dir s op o in
      if ok then run_store dir s' r (i + 1) else (false, i)
  end.
