(* Spec/PESignCheck.v -- executable relations R_C02 (verification is sound) and
   R_C03 (a signed image is well-formed), evaluated on the implementation's output. *)
From Coq Require Import Bool List NArith ZArith.
From Coq.Strings Require Import Byte.
From GoUefi Require Import Base.Bytes Base.Outcome Base.Reader Base.Der Base.Sha256 Model.WinCert Model.Pkcs7
  Model.PE Model.PEVerify Spec.P7Check.
Import ListNotations.
Local Open Scope N_scope.

Section S.
Variable utctime_ok : bytes -> bool.
Variable x509_ok : bytes -> bool.
Variable rsa_ok : N -> bytes -> bytes -> bool.

(* some certificate-table entry is an Authenticode signature that commits to the
   digest of exactly this image and is valid for the certificate *)
Definition entry_valid (w : wincert) (c : cert) (digest : bytes) : bool :=
  match parse_authenticode utctime_ok x509_ok (wc_cert w) with
  | Ret a => oid_eqb (ac_alg a) OID_sha256 && bytes_eqb (ac_digest a) digest && spec_valid rsa_ok (ac_p7 a) c
  | _ => false
  end.
Definition image_valid (pe_ok : bool) (img : bytes) (c : cert) : bool :=
  match pe_parse pe_ok img with
  | Ret st =>
      match pe_signatures st, hash_content st with
      | Ret sigs, Some pre => existsb (fun w => entry_valid w c (sha256 pre)) sigs
      | _, _ => false
      end
  | _ => false
  end.
(* R_C02 *)
Definition check_pe_verify (pe_ok : bool) (img : bytes) (c : cert) (impl_true : bool) : bool :=
  implb impl_true (image_valid pe_ok img c).
(* the model's own answer: 0 err, 1 false, 2 true *)
Definition model_pe_verify (pe_ok : bool) (img : bytes) (c : cert) : N :=
  match pe_parse pe_ok img with
  | Ret st => match pe_verify utctime_ok x509_ok rsa_ok st c with Ret true => 2 | Ret false => 1 | _ => 0 end
  | _ => 0
  end.

(* ---- R_C03 ---- *)
Definition wincert_entry (b : bytes) : bytes :=
  le 4 (8 + blen b) ++ le 2 512 ++ le 2 2 ++ b ++ zeros (N.to_nat (pad8 (8 + blen b))).

Fixpoint prefix_kept (i : nat) (n : nat) (dd4 : N) (img out : bytes) : bool :=
  match n with
  | O => true
  | S n' =>
      let q := N.of_nat i in
      ((dd4 <=? q) && (q <? dd4 + 8) || byte_eqb (nth i img x00) (nth i out x00)) && prefix_kept (S i) n' dd4 img out
  end.

Definition wc_payloads (l : list wincert) : list bytes := map wc_cert l.
Fixpoint list_bytes_eqb (a b : list bytes) : bool :=
  match a, b with
  | [], [] => true
  | x :: a', y :: b' => bytes_eqb x y && list_bytes_eqb a' b'
  | _, _ => false
  end.

(* img: the original well-formed image; blobs: the signatures Sign returned, in
   order; out: Bytes() after the last signing *)
Definition check_signed_image (img : bytes) (blobs : list bytes) (out : bytes) : N :=
  match read_layout img, read_layout out with
  | Some L, Some L' =>
      let body := l_size L - l_certsize L in               (* the image without its table *)
      let old_table := sub (l_va L) (l_certsize L) img in
      let va' := if l_certsize L =? 0 then body + pad8 body else l_va L in
      if negb (wf_layout_b L) then 100 (* outside the domain *)
      else if negb (wf_layout_b L') then 1
      else if negb (prefix_kept 0 (N.to_nat body) (l_dd4 L) img out) then 2
      else if negb (bytes_eqb (sub body (va' - body) out) (zeros (N.to_nat (va' - body)))) then 3
      else if negb ((blen out mod 8 =? 0) && (l_va L' =? va') && (l_va L' mod 8 =? 0) &&
                    (l_va L' + l_certsize L' =? blen out)) then 4
      else if negb (bytes_eqb (sub va' (l_certsize L') out) (old_table ++ flat_map wincert_entry blobs)) then 5
      else if negb (bytes_eqb (hash_ranges L' out) (hash_ranges L img)) then 6
      else
        match pe_parse true out, pe_parse true img with
        | Ret st', Ret st =>
            match pe_signatures st', pe_signatures st with
            | Ret sigs', Ret sigs =>
                if negb (list_bytes_eqb (wc_payloads sigs') (wc_payloads sigs ++ blobs)) then 7
                else if negb (forallb (fun b =>
                       match parse_authenticode utctime_ok x509_ok b with
                       | Ret a => bytes_eqb (ac_digest a) (sha256 (hash_ranges L' out))
                       | _ => false
                       end) blobs) then 8
                else 0
            | _, _ => 7
            end
        | _, _ => 9
        end
  | None, _ => 100
  | Some _, None => 1
  end.

(* the model's output for the same history *)
Definition model_signed_bytes (img : bytes) (blobs : list bytes) : option bytes :=
  match pe_parse true img with
  | Ret st => Some (pe_bytes (fold_left append_signature blobs st))
  | _ => None
  end.
End S.

(* R_C02 and the model's own answer in one pass (the image is hashed once) *)
Definition pe_verify_both (utctime_ok x509_ok : bytes -> bool) (rsa_ok : N -> bytes -> bytes -> bool)
           (pe_ok : bool) (img : bytes) (c : cert) (impl_true : bool) : N * bool :=
  match pe_parse pe_ok img with
  | Ret st =>
      match pe_signatures st, hash_content st with
      | Ret (s :: sigs), Some pre =>
          let d := sha256 pre in
          ((match verify_sigs utctime_ok x509_ok rsa_ok (s :: sigs) c d with Ret true => 2 | Ret false => 1 | _ => 0 end),
           implb impl_true (existsb (fun w => entry_valid utctime_ok x509_ok rsa_ok w c d) (s :: sigs)))
      | _, _ => (0, negb impl_true)
      end
  | _ => (0, negb impl_true)
  end.
