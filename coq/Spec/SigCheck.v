(* Spec/SigCheck.v -- executable conformance relations R_C07, R_C08, R_C09. *)
From Coq Require Import Bool List NArith.
From Coq.Strings Require Import Byte.
From GoUefi Require Import Base.Bytes Base.Outcome Base.Reader Model.Util Model.SigList Model.SigDb.
Import ListNotations.
Local Open Scope N_scope.

Definition sigdata_eqb (a b : sigdata) : bool :=
  guid_eqb (sd_owner a) (sd_owner b) && bytes_eqb (sd_data a) (sd_data b).
Fixpoint list_eqb {A} (eq : A -> A -> bool) (a b : list A) : bool :=
  match a, b with
  | [], [] => true
  | x :: a', y :: b' => eq x y && list_eqb eq a' b'
  | _, _ => false
  end.
Definition siglist_eqb (a b : siglist) : bool :=
  guid_eqb (sl_type a) (sl_type b) && (sl_listsize a =? sl_listsize b) &&
  (sl_headersize a =? sl_headersize b) && (sl_size a =? sl_size b) &&
  bytes_eqb (sl_header a) (sl_header b) && list_eqb sigdata_eqb (sl_sigs a) (sl_sigs b).
Definition db_eqb := list_eqb siglist_eqb.

(* observation of a decode: Some (db, re-encoding) or None for error/panic/exit *)
Definition obs_decode := option (list siglist * bytes).

(* C08: success only on the well-formed language, with exactly those lists *)
Definition check_c08 (bs : bytes) (impl : obs_decode) : bool :=
  match impl with
  | None => true
  | Some (db, reenc) =>
      match read_signature_database bs with
      | Ret db' => db_eqb db db' && bytes_eqb reenc bs
      | _ => false
      end
  end.

(* C07: well-formed input decodes to exactly its lists and re-encodes to itself *)
Definition check_c07 (bs : bytes) (impl : obs_decode) : bool :=
  match read_signature_database bs with
  | Ret db' => match impl with
               | Some (db, reenc) => db_eqb db db' && bytes_eqb reenc bs
               | None => false
               end
  | _ => true
  end.

(* C07, second half: a database built by the library's operations (db: the lists
   the implementation holds, enc: its encoding of them) encodes as the layout
   says, to a stream that decodes to an equal database (Theorem C07_ops_roundtrip) *)
Definition check_c07_built (db : list siglist) (enc : bytes) (impl : obs_decode) : bool :=
  bytes_eqb (enc_db db) enc &&
  match read_signature_database enc with
  | Ret db' => db_eqb db db' &&
               match impl with
               | Some (db2, reenc) => db_eqb db2 db' && bytes_eqb reenc enc
               | None => false
               end
  | _ => false
  end.

Definition decodes (bs : bytes) : bool :=
  match read_signature_database bs with Ret (_ :: _) => true | _ => false end.
Definition decodes_any (bs : bytes) : bool :=
  match read_signature_database bs with Ret _ => true | _ => false end.

(* ---------------- C09 ---------------- *)
Definition entry_eqb (a b : entry) : bool := guid_eqb (fst a) (fst b) && sigdata_eqb (snd a) (snd b).

(* v' is v with e inserted at one position *)
Fixpoint is_insertion (v v' : list entry) (e : entry) : bool :=
  match v' with
  | [] => false
  | y :: v'' =>
      (entry_eqb y e && list_eqb entry_eqb v v'') ||
      match v with
      | x :: w => entry_eqb x y && is_insertion w v'' e
      | [] => false
      end
  end.

Definition in_view (v : list entry) (e : entry) : bool := existsb (entry_eqb e) v.

Fixpoint nodup_sigs (l : list sigdata) : bool :=
  match l with
  | [] => true
  | x :: r => negb (existsb (sigdata_eqb x) r) && nodup_sigs r
  end.

(* the boolean form of list_inv *)
Definition list_inv_b (l : siglist) : bool :=
  (sl_headersize l =? 0) && is_nil (sl_header l) && negb (is_nil (sl_sigs l)) &&
  (sl_listsize l =? 28 + sl_headersize l + N.of_nat (length (sl_sigs l)) * sl_size l) &&
  forallb (fun s => blen (sd_data s) + 16 =? sl_size l) (sl_sigs l) && nodup_sigs (sl_sigs l).
Definition db_inv_b (db : list siglist) : bool := forallb list_inv_b db.
(* the boolean form of list_inv0: a list held by a caller may be empty *)
Definition list_inv0_b (l : siglist) : bool :=
  (sl_headersize l =? 0) && is_nil (sl_header l) &&
  (sl_listsize l =? 28 + sl_headersize l + N.of_nat (length (sl_sigs l)) * sl_size l) &&
  forallb (fun s => blen (sd_data s) + 16 =? sl_size l) (sl_sigs l) && nodup_sigs (sl_sigs l).

(* one step of a history on one list, called directly *)
Inductive lhop :=
| LHAppend (o : guid) (data : bytes)
| LHRemove (o : guid) (data : bytes)
| LHQuery (o : guid) (data : bytes).
Record lobs := mkLobs { lo_ok : bool; lo_list : siglist; lo_found : bool; lo_index : N }.

(* one step of a history as observed on the implementation *)
Inductive hop :=
| HAppend (t o : guid) (data : bytes)
| HRemove (t o : guid) (data : bytes)
| HAppendList (l : siglist)
| HRecode
| HQueryEntry (t o : guid) (data : bytes)
| HQueryList (l : siglist).

Record hobs := mkHobs { ho_ok : bool; ho_db : list siglist; ho_answer : bool }.

Section C09.
Variable pem_decode : bytes -> option bytes.

(* verdict: 0 = the step satisfies the property and equals the model,
            1 = violates the property, 2 = satisfies it but differs from the model *)
Definition step_verdict (mdb : list siglist) (idb : list siglist) (op : hop) (o : hobs)
  : N * list siglist :=
  let v := view idb in let v' := view (ho_db o) in
  match op with
  | HAppend t o_ data =>
      let d := normalize pem_decode t data in
      match db_append pem_decode mdb t o_ data with
      | Ret mdb' =>
          if negb (ho_ok o) then (1, mdb')
          else if negb (is_insertion v v' (t, mkSig o_ (normalize pem_decode t d)) && implb (db_inv_b idb) (db_inv_b (ho_db o))) then (1, mdb')
          else if db_eqb mdb' (ho_db o) then (0, mdb') else (2, mdb')
      | _ =>
          if ho_ok o then (1, mdb)
          else if negb (db_eqb idb (ho_db o)) then (1, mdb)
          else (0, mdb)
      end
  | HRemove t o_ data =>
      match db_remove mdb t o_ data with
      | Ret mdb' =>
          if negb (ho_ok o) then (1, mdb')
          else if negb (is_insertion v' v (t, mkSig o_ data) && implb (db_inv_b idb) (db_inv_b (ho_db o))) then (1, mdb')
          else if db_eqb mdb' (ho_db o) then (0, mdb') else (2, mdb')
      | _ =>
          if ho_ok o then (1, mdb)
          else if negb (db_eqb idb (ho_db o)) then (1, mdb)
          else (0, mdb)
      end
  | HAppendList l =>
      let mdb' := db_append_list mdb l in
      if negb (list_eqb entry_eqb v' (v ++ list_view l)) then (1, mdb')
      else if db_eqb mdb' (ho_db o) then (0, mdb') else (2, mdb')
  | HRecode =>
      (* encode then decode: C07 says the database comes back equal *)
      match read_signature_database (enc_db mdb) with
      | Ret mdb' =>
          if negb (ho_ok o) then (1, mdb')
          else if negb (list_eqb entry_eqb v v') then (1, mdb')
          else if db_eqb mdb' (ho_db o) then (0, mdb') else (2, mdb')
      | _ => if ho_ok o then (2, mdb) else (0, mdb)
      end
  | HQueryEntry t o_ data =>
      if negb (db_eqb idb (ho_db o)) then (1, mdb)
      else if negb (Bool.eqb (ho_answer o) (in_view v (t, mkSig o_ data))) then (1, mdb)
      else if Bool.eqb (ho_answer o) (db_sigdata_exists mdb t (mkSig o_ data)) then (0, mdb) else (2, mdb)
  | HQueryList l =>
      if negb (db_eqb idb (ho_db o)) then (1, mdb)
      else if negb (Bool.eqb (ho_answer o) (forallb (fun s => in_view v (sl_type l, s)) (sl_sigs l))) then (1, mdb)
      else if Bool.eqb (ho_answer o) (db_list_exists mdb l) then (0, mdb) else (2, mdb)
  end.

(* the same for one list: the entries change by exactly the entry named (C09_list_append_ok,
   C09_list_remove_ok), errors change nothing, the invariant is kept (C09_list_*_inv), Exists
   reports the first matching index (C09_list_index) *)
Definition lstep_verdict (ml il : siglist) (op : lhop) (o : lobs) : N * siglist :=
  let t := sl_type il in
  match op with
  | LHAppend o_ data =>
      match list_append pem_decode ml o_ data with
      | Ret ml' =>
          if negb (lo_ok o) then (1, ml')
          else if negb (guid_eqb (sl_type (lo_list o)) t &&
                        list_eqb sigdata_eqb (sl_sigs (lo_list o)) (sl_sigs il ++ [mkSig o_ (normalize pem_decode t data)]) &&
                        implb (list_inv0_b il) (list_inv_b (lo_list o))) then (1, ml')
          else if siglist_eqb ml' (lo_list o) then (0, ml') else (2, ml')
      | _ =>
          if lo_ok o then (1, ml)
          else if negb (siglist_eqb il (lo_list o)) then (1, ml)
          else (0, ml)
      end
  | LHRemove o_ data =>
      match list_remove ml o_ data with
      | Ret ml' =>
          if negb (lo_ok o) then (1, ml')
          else if negb (guid_eqb (sl_type (lo_list o)) t &&
                        is_insertion (list_view (lo_list o)) (list_view il) (t, mkSig o_ data) &&
                        implb (list_inv0_b il) (list_inv0_b (lo_list o))) then (1, ml')
          else if siglist_eqb ml' (lo_list o) then (0, ml') else (2, ml')
      | _ =>
          if lo_ok o then (1, ml)
          else if negb (siglist_eqb il (lo_list o)) then (1, ml)
          else (0, ml)
      end
  | LHQuery o_ data =>
      if negb (siglist_eqb il (lo_list o)) then (1, ml)
      else match index_of (sl_sigs il) (mkSig o_ data) with
           | Some i => if lo_found o && (lo_index o =? i) then (0, ml) else (1, ml)
           | None => if lo_found o then (1, ml) else (0, ml)
           end
  end.

Fixpoint run_list_history (ml il : siglist) (ops : list (lhop * lobs)) (i : N) (okc : N) : N * N * N :=
  match ops with
  | [] => (0, i, okc)
  | (op, o) :: r =>
      let '(v, ml') := lstep_verdict ml il op o in
      if v =? 0 then run_list_history ml' (lo_list o) r (i + 1) (if lo_ok o then okc + 1 else okc)
      else (v, i, okc)
  end.

(* runs a whole history; returns (verdict, index of the first bad step, steps that succeeded) *)
Fixpoint run_history (mdb idb : list siglist) (ops : list (hop * hobs)) (i : N) (okc : N)
  : N * N * N :=
  match ops with
  | [] => (0, i, okc)
  | (op, o) :: r =>
      let '(v, mdb') := step_verdict mdb idb op o in
      if v =? 0 then run_history mdb' (ho_db o) r (i + 1) (if ho_ok o then okc + 1 else okc)
      else (v, i, okc)
  end.
End C09.
