(* Base/Sha256.v -- executable SHA-256 (FIPS 180-4) over byte strings.
   Validated against crypto/sha256 on every run (NIST vectors + random inputs);
   the only property proofs use is the digest length. Collision freedom is
   never assumed. *)
From Coq Require Import Bool List NArith Arith Lia.
From Coq.Strings Require Import Byte.
From GoUefi Require Import Base.Bytes.
Import ListNotations.
Local Open Scope N_scope.

Definition w32 (x : N) : N := x mod 4294967296.
Definition add32 (a b : N) : N := w32 (a + b).
Definition rotr (n x : N) : N := N.lor (N.shiftr x n) (w32 (N.shiftl x (32 - n))).
Definition shr (n x : N) : N := N.shiftr x n.
Definition not32 (x : N) : N := 4294967295 - x.

Definition ch (x y z : N) : N := N.lxor (N.land x y) (N.land (not32 x) z).
Definition maj (x y z : N) : N := N.lxor (N.lxor (N.land x y) (N.land x z)) (N.land y z).
Definition bsig0 (x : N) : N := N.lxor (N.lxor (rotr 2 x) (rotr 13 x)) (rotr 22 x).
Definition bsig1 (x : N) : N := N.lxor (N.lxor (rotr 6 x) (rotr 11 x)) (rotr 25 x).
Definition ssig0 (x : N) : N := N.lxor (N.lxor (rotr 7 x) (rotr 18 x)) (shr 3 x).
Definition ssig1 (x : N) : N := N.lxor (N.lxor (rotr 17 x) (rotr 19 x)) (shr 10 x).

Definition K256 : list N := [
  1116352408; 1899447441; 3049323471; 3921009573; 961987163; 1508970993; 2453635748; 2870763221;
  3624381080; 310598401; 607225278; 1426881987; 1925078388; 2162078206; 2614888103; 3248222580;
  3835390401; 4022224774; 264347078; 604807628; 770255983; 1249150122; 1555081692; 1996064986;
  2554220882; 2821834349; 2952996808; 3210313671; 3336571891; 3584528711; 113926993; 338241895;
  666307205; 773529912; 1294757372; 1396182291; 1695183700; 1986661051; 2177026350; 2456956037;
  2730485921; 2820302411; 3259730800; 3345764771; 3516065817; 3600352804; 4094571909; 275423344;
  430227734; 506948616; 659060556; 883997877; 958139571; 1322822218; 1537002063; 1747873779;
  1955562222; 2024104815; 2227730452; 2361852424; 2428436474; 2756734187; 3204031479; 3329325298].

Definition H0 : list N :=
  [1779033703; 3144134277; 1013904242; 2773480762; 1359893119; 2600822924; 528734635; 1541459225].

(* message schedule: given the previous 16 words (most recent first), produce the next *)
Fixpoint schedule (n : nat) (prev : list N) (acc : list N) : list N :=
  match n with
  | O => rev acc
  | S n' =>
      match prev with
      | w1 :: w2 :: w3 :: w4 :: w5 :: w6 :: w7 :: w8 :: w9 :: w10 :: w11 :: w12 :: w13 :: w14 :: w15 :: w16 :: _ =>
          let w := add32 (add32 (ssig1 w2) w7) (add32 (ssig0 w15) w16) in
          schedule n' (w :: firstn 15 prev) (w :: acc)
      | _ => rev acc
      end
  end.

Record st := mkSt { sa : N; sb : N; sc : N; sd : N; se : N; sf : N; sg : N; sh : N }.

Definition round (s : st) (kw : N * N) : st :=
  let '(k, w) := kw in
  let t1 := add32 (add32 (add32 (sh s) (bsig1 (se s))) (add32 (ch (se s) (sf s) (sg s)) k)) w in
  let t2 := add32 (bsig0 (sa s)) (maj (sa s) (sb s) (sc s)) in
  mkSt (add32 t1 t2) (sa s) (sb s) (sc s) (add32 (sd s) t1) (se s) (sf s) (sg s).

Fixpoint words_of (bs : bytes) : list N :=
  match bs with
  | a :: b :: c :: d :: r => (((b2n a * 256 + b2n b) * 256 + b2n c) * 256 + b2n d) :: words_of r
  | _ => []
  end.

Definition compress (h : list N) (block : list N) : list N :=
  match h with
  | [a; b; c; d; e; f; g; hh] =>
      let w := block ++ schedule 48 (rev block) [] in
      let s := fold_left round (combine K256 w) (mkSt a b c d e f g hh) in
      [add32 a (sa s); add32 b (sb s); add32 c (sc s); add32 d (sd s);
       add32 e (se s); add32 f (sf s); add32 g (sg s); add32 hh (sh s)]
  | _ => h
  end.

Fixpoint blocks (n : nat) (ws : list N) (h : list N) : list N :=
  match n with
  | O => h
  | S n' => match ws with
            | [] => h
            | _ => blocks n' (skipn 16 ws) (compress h (firstn 16 ws))
            end
  end.

Definition pad (bs : bytes) : bytes :=
  let l := length bs in
  let k := ((119 - l mod 64) mod 64)%nat in
  bs ++ [x80] ++ repeat x00 k ++ be 8 (8 * N.of_nat l).

Definition sha256 (bs : bytes) : bytes :=
  let ws := words_of (pad bs) in
  let h := blocks (S (length ws / 16)) ws H0 in
  firstn 32 (flat_map (be 4) h ++ repeat x00 32).

Lemma sha256_length bs : length (sha256 bs) = 32%nat.
Proof.
  unfold sha256. rewrite firstn_length, app_length, repeat_length. lia.
Qed.

(* FIPS 180-4 examples *)
Example sha256_abc :
  sha256 [x61; x62; x63] =
  [xba; x78; x16; xbf; x8f; x01; xcf; xea; x41; x41; x40; xde; x5d; xae; x22; x23;
   xb0; x03; x61; xa3; x96; x17; x7a; x9c; xb4; x10; xff; x61; xf2; x00; x15; xad].
Proof. vm_compute. reflexivity. Qed.
Example sha256_empty :
  sha256 [] =
  [xe3; xb0; xc4; x42; x98; xfc; x1c; x14; x9a; xfb; xf4; xc8; x99; x6f; xb9; x24;
   x27; xae; x41; xe4; x64; x9b; x93; x4c; xa4; x95; x99; x1b; x78; x52; xb8; x55].
Proof. vm_compute. reflexivity. Qed.
