(* Base/Prog.v -- programs that call a caller-supplied dependency (a file
   system, a signer, a reader): the dependency's answers are inputs, the calls
   issued are the observable trace.  Used by C11 (exact trace) and C15 (every
   fault position). *)
From Coq Require Import Bool List NArith Arith Lia.
From GoUefi Require Import Base.Bytes.
Import ListNotations.
Local Open Scope N_scope.

Inductive call :=
| COpenFile (path : bytes) (flags perm : N)    (* afero.Fs.OpenFile *)
| COpen (path : bytes)                         (* afero.Fs.Open *)
| CStat
| CRead (n : N)                                (* fill a buffer of n bytes (io.ReadFull) *)
| CWrite (buf : bytes)
| CClose
| CSign (digest : bytes)                       (* crypto.Signer.Sign *)
| CReadAt.                                     (* io.ReaderAt.ReadAt, any position *)

Inductive resp :=
| ROk (n : N) (data : bytes)   (* success: a count and/or data, as the call defines *)
| RFail.                       (* the dependency returned an error *)

Inductive prog (R : Type) : Type :=
| Done (r : R)
| Call (c : call) (k : resp -> prog R).
Arguments Done {R} r.
Arguments Call {R} c k.

(* an environment answers the i-th call *)
Definition env := nat -> call -> resp.

Fixpoint run {R} (e : env) (p : prog R) (i : nat) : R * list call :=
  match p with
  | Done r => (r, [])
  | Call c k => let '(r, t) := run e (k (e i c)) (S i) in (r, c :: t)
  end.

(* fault plans: the k-th call fails; or the k-th call, a write, is short *)
Definition fail_at (k : nat) (e : env) : env :=
  fun i c => if Nat.eqb i k then RFail else e i c.
Definition short_at (k : nat) (e : env) : env :=
  fun i c => if Nat.eqb i k then
               match e i c with ROk n d => ROk (N.pred n) d | RFail => RFail end
             else e i c.

Definition is_close (c : call) : bool := match c with CClose => true | _ => false end.
