(* Base/Der.v -- the subset of golang.org/x/crypto/cryptobyte's ASN.1 support
   that pkcs7 and authenticode use: single-octet tags, definite lengths in
   minimal form (at most four length octets), INTEGER, OBJECT IDENTIFIER; and the
   Builder's encodings. Definitions only. *)
From Coq Require Import Bool List NArith ZArith Lia Arith.
From Coq.Strings Require Import Byte.
From GoUefi Require Import Base.Bytes Base.Reader.
Import ListNotations.
Local Open Scope N_scope.

(* universal and context tags used *)
Definition T_INTEGER : N := 2.
Definition T_BITSTRING : N := 3.
Definition T_OCTETSTRING : N := 4.
Definition T_NULL : N := 5.
Definition T_OID : N := 6.
Definition T_UTCTIME : N := 23.
Definition T_SEQUENCE : N := 48.
Definition T_SET : N := 49.
Definition T_CTX0 : N := 160.       (* [0] constructed, 0xa0 *)
Definition T_CTX1 : N := 161.
Definition T_CTX2 : N := 162.
Definition T_CTX0P : N := 128.      (* [0] primitive, 0x80 *)

Record elem := mkElem { e_tag : N; e_val : bytes; e_raw : bytes; e_rest : bytes }.

(* String.readASN1 *)
Definition der_read (s : bytes) : option elem :=
  match s with
  | t :: l :: r =>
      let tn := b2n t in let ln := b2n l in
      if N.land tn 31 =? 31 then None
      else if ln <? 128 then
        match takeN ln r with
        | Some (v, rest) => Some (mkElem tn v (t :: l :: v) rest)
        | None => None
        end
      else
        let ll := ln - 128 in
        if (ll =? 0) || (4 <? ll) then None else
        match takeN ll r with
        | None => None
        | Some (lb, r2) =>
            let len32 := unbe lb in
            if len32 <? 128 then None
            else if N.shiftr len32 ((ll - 1) * 8) =? 0 then None
            else if 4294967296 <=? 2 + ll + len32 then None
            else match takeN len32 r2 with
                 | Some (v, rest) => Some (mkElem tn v (t :: l :: lb ++ v) rest)
                 | None => None
                 end
        end
  | _ => None
  end.

(* ReadASN1 / ReadASN1Element / PeekASN1Tag / ReadOptionalASN1 / SkipASN1 *)
Definition read_asn1 (tag : N) (s : bytes) : option (bytes * bytes) :=
  match der_read s with
  | Some e => if e_tag e =? tag then Some (e_val e, e_rest e) else None
  | None => None
  end.
Definition read_asn1_element (tag : N) (s : bytes) : option (bytes * bytes) :=
  match der_read s with
  | Some e => if e_tag e =? tag then Some (e_raw e, e_rest e) else None
  | None => None
  end.
Definition peek_tag (tag : N) (s : bytes) : bool :=
  match s with t :: _ => b2n t =? tag | [] => false end.
(* result: None = malformed; Some (None, s) = absent; Some (Some v, rest) = present *)
Definition read_optional (tag : N) (s : bytes) : option (option bytes * bytes) :=
  if peek_tag tag s then
    match read_asn1 tag s with Some (v, rest) => Some (Some v, rest) | None => None end
  else Some (None, s).

(* ---- Builder ---- *)
Definition nbytes (n : N) : nat :=
  if n <? 256 then 1%nat else if n <? 65536 then 2%nat else if n <? 16777216 then 3%nat else 4%nat.
Definition enc_len (n : N) : bytes :=
  if n <? 128 then [n2b n] else n2b (128 + N.of_nat (nbytes n)) :: be (nbytes n) n.
(* AddASN1(tag, body) *)
Definition add_asn1 (tag : N) (body : bytes) : bytes := n2b tag :: enc_len (blen body) ++ body.

(* ---- INTEGER ---- *)
(* checkASN1Integer *)
Definition int_minimal (b : bytes) : bool :=
  match b with
  | [] => false
  | [_] => true
  | x :: y :: _ =>
      negb (((b2n x =? 0) && (b2n y <? 128)) || ((b2n x =? 255) && (128 <=? b2n y)))
  end.
(* readASN1BigInt on the content octets *)
Definition int_decode (b : bytes) : option Z :=
  if negb (int_minimal b) then None else
  match b with
  | x :: _ => if 128 <=? b2n x then Some (Z.of_N (unbe b) - Z.of_N (256 ^ blen b))%Z
              else Some (Z.of_N (unbe b))
  | [] => None
  end.
(* readASN1Int64: at most 8 octets *)
Definition int64_decode (b : bytes) : option Z :=
  if (8 <? blen b) then None else int_decode b.

(* minimal big-endian bytes of n (empty for 0): big.Int.Bytes *)
Fixpoint be_min_fuel (fuel : nat) (n : N) (acc : bytes) : bytes :=
  match fuel with
  | O => acc
  | S f => if n =? 0 then acc else be_min_fuel f (n / 256) (n2b n :: acc)
  end.
Definition be_min (n : N) : bytes := be_min_fuel (S (N.to_nat (N.log2 n))) n [].
(* AddASN1BigInt for a non-negative value (content octets) *)
Definition int_encode (n : N) : bytes :=
  match be_min n with
  | [] => [x00]
  | x :: r => if 128 <=? b2n x then x00 :: x :: r else x :: r
  end.

(* ---- OBJECT IDENTIFIER ---- *)
(* readBase128Int: at most 5 octets, value below 2^31 by the 2^24 guard, first
   octet not 0x80; returns the value and the unread rest *)
Fixpoint read_b128 (fuel : nat) (first : bool) (acc : N) (s : bytes) : option (N * bytes) :=
  match fuel with
  | O => None
  | S f =>
      match s with
      | [] => None
      | b :: r =>
          if 16777216 <=? acc then None
          else if first && (b2n b =? 128) then None
          else let acc' := acc * 128 + N.land (b2n b) 127 in
               if b2n b <? 128 then Some (acc', r) else read_b128 f false acc' r
      end
  end.

Fixpoint oid_rest (fuel : nat) (s : bytes) : option (list N) :=
  match s with
  | [] => Some []
  | _ =>
      match fuel with
      | O => None
      | S f =>
          match read_b128 5 true 0 s with
          | None => None
          | Some (v, r) => match oid_rest f r with Some l => Some (v :: l) | None => None end
          end
      end
  end.

(* ReadASN1ObjectIdentifier on the content octets *)
Definition oid_decode (b : bytes) : option (list N) :=
  match b with
  | [] => None
  | _ =>
      match read_b128 5 true 0 b with
      | None => None
      | Some (v, r) =>
          match oid_rest (length r) r with
          | None => None
          | Some l => if v <? 80 then Some (v / 40 :: v mod 40 :: l) else Some (2 :: (v - 80) :: l)
          end
      end
  end.

(* base-128, minimal *)
Fixpoint b128_fuel (fuel : nat) (n : N) (acc : bytes) : bytes :=
  match fuel with
  | O => acc
  | S f => if n =? 0 then acc else b128_fuel f (n / 128) (n2b (128 + n mod 128) :: acc)
  end.
Definition b128 (n : N) : bytes := b128_fuel 10 (n / 128) [n2b (n mod 128)].
(* AddASN1ObjectIdentifier content octets, for a valid OID *)
Definition oid_encode (o : list N) : bytes :=
  match o with
  | a :: b :: r => b128 (40 * a + b) ++ flat_map b128 r
  | _ => []
  end.
Definition oid_valid (o : list N) : bool :=
  match o with
  | a :: b :: r => (a <=? 2) && ((a =? 2) || (b <? 40)) && forallb (fun c => c <? 2147483648) (b :: r)
  | _ => false
  end.

Fixpoint oid_eqb (a b : list N) : bool :=
  match a, b with
  | [], [] => true
  | x :: a', y :: b' => (x =? y) && oid_eqb a' b'
  | _, _ => false
  end.

(* convenience builders *)
Definition der_oid (o : list N) : bytes := add_asn1 T_OID (oid_encode o).
Definition der_null : bytes := [x05; x00].
Definition der_octets (b : bytes) : bytes := add_asn1 T_OCTETSTRING b.
Definition der_int (n : N) : bytes := add_asn1 T_INTEGER (int_encode n).
Definition der_seq (b : bytes) : bytes := add_asn1 T_SEQUENCE b.
Definition der_set (b : bytes) : bytes := add_asn1 T_SET b.
