(* Base/Reader.v -- reading a fixed number of bytes from the front of a byte
   string: the behaviour of io.ReadFull / binary.Read on bytes.Reader and
   bytes.Buffer that the decoders rely on (all-or-nothing, never past the end). *)
From Coq Require Import Bool List NArith Lia Arith ZifyN ZifyNat ZifyBool.
From GoUefi Require Import Base.Bytes.
Import ListNotations.
Local Open Scope N_scope.

Definition blen (bs : bytes) : N := N.of_nat (length bs).

(* One pass over the bytes taken (never over the whole rest, and a huge declared
   length never becomes a huge nat): the executable models stay linear. *)
Fixpoint take_go (bs : bytes) (n : N) : option (bytes * bytes) :=
  if n =? 0 then Some ([], bs)
  else match bs with
       | [] => None
       | x :: r => match take_go r (N.pred n) with
                   | Some (a, b) => Some (x :: a, b)
                   | None => None
                   end
       end.
Definition takeN (n : N) (bs : bytes) : option (bytes * bytes) := take_go bs n.

Lemma takeN_spec n bs :
  takeN n bs = if blen bs <? n then None else Some (firstn (N.to_nat n) bs, skipn (N.to_nat n) bs).
Proof.
  unfold takeN, blen. revert n. induction bs as [|x r IH]; intros n; cbn [take_go].
  - destruct (N.eqb_spec n 0) as [->|Hn]; [reflexivity|].
    destruct (N.ltb_spec (N.of_nat (length (@nil Byte.byte))) n) as [|H]; [reflexivity | cbn in H; lia].
  - destruct (N.eqb_spec n 0) as [->|Hn]; [reflexivity|].
    rewrite IH. cbn [length].
    destruct (N.ltb_spec (N.of_nat (length r)) (N.pred n)) as [H1|H1];
      destruct (N.ltb_spec (N.of_nat (S (length r))) n) as [H2|H2]; try lia; [reflexivity|].
    replace (N.to_nat n) with (S (N.to_nat (N.pred n))) by lia. reflexivity.
Qed.

Lemma takeN_app a r n : blen a = n -> takeN n (a ++ r) = Some (a, r).
Proof.
  rewrite takeN_spec. unfold blen. intros <-. rewrite app_length, Nat2N.id.
  destruct (N.ltb_spec (N.of_nat (length a + length r)) (N.of_nat (length a))); [lia|].
  rewrite firstn_app_exact, skipn_app_exact by reflexivity. reflexivity.
Qed.

Lemma takeN_inv n bs a r : takeN n bs = Some (a, r) -> bs = a ++ r /\ blen a = n.
Proof.
  rewrite takeN_spec. unfold blen. destruct (N.ltb_spec (N.of_nat (length bs)) n) as [H|H]; [discriminate|].
  intros E. injection E as <- <-. split; [symmetry; apply firstn_skipn|].
  rewrite firstn_length. lia.
Qed.

Lemma takeN_none n bs : takeN n bs = None <-> blen bs < n.
Proof.
  rewrite takeN_spec. destruct (N.ltb_spec (blen bs) n); split; intros; try discriminate; try lia; reflexivity.
Qed.

Lemma blen_app a b : blen (a ++ b) = blen a + blen b.
Proof. unfold blen. rewrite app_length. lia. Qed.
Lemma blen_le k n : blen (le k n) = N.of_nat k.
Proof. unfold blen. rewrite le_length. reflexivity. Qed.
Lemma blen_nil : blen [] = 0. Proof. reflexivity. Qed.
Lemma blen_cons b bs : blen (b :: bs) = 1 + blen bs.
Proof. unfold blen. cbn [length]. lia. Qed.

Ltac inv_take H :=
  let a := fresh "f" in let r := fresh "r" in let E := fresh "E" in let L := fresh "L" in
  match type of H with
  | context [takeN ?n ?bs] =>
      destruct (takeN n bs) as [[a r]|] eqn:E; [|discriminate H];
      apply takeN_inv in E as [E L]; subst bs
  end.
