(* Base/Bytes.v -- byte strings, fixed-width little/big-endian integers.
   Definitions and their characterising lemmas (used by every model). *)
From Coq Require Import Bool List NArith ZArith Lia Arith ZifyN ZifyNat ZifyBool.
From Coq.Strings Require Import Byte.
Import ListNotations.
Ltac Zify.zify_post_hook ::= Z.div_mod_to_equations.
Local Open Scope N_scope.

Definition bytes := list byte.

Definition b2n (b : byte) : N := Byte.to_N b.
Definition n2b (n : N) : byte :=
  match Byte.of_N (n mod 256) with Some b => b | None => x00 end.

Lemma b2n_lt b : b2n b < 256.
Proof. unfold b2n. pose proof (Byte.to_N_bounded b). lia. Qed.

Lemma b2n_n2b n : b2n (n2b n) = n mod 256.
Proof.
  unfold b2n, n2b. assert (n mod 256 < 256) by (apply N.mod_lt; lia).
  destruct (Byte.of_N (n mod 256)) eqn:E.
  - apply Byte.to_of_N; auto.
  - apply Byte.of_N_None_iff in E. lia.
Qed.

Lemma n2b_b2n b : n2b (b2n b) = b.
Proof.
  unfold n2b, b2n. rewrite N.mod_small by (pose proof (Byte.to_N_bounded b); lia).
  rewrite Byte.of_to_N. reflexivity.
Qed.

Lemma b2n_inj a b : b2n a = b2n b -> a = b.
Proof. intros H. rewrite <- (n2b_b2n a), <- (n2b_b2n b), H. reflexivity. Qed.

Definition byte_eqb (a b : byte) : bool := N.eqb (b2n a) (b2n b).
Lemma byte_eqb_spec a b : reflect (a = b) (byte_eqb a b).
Proof.
  unfold byte_eqb. destruct (N.eqb_spec (b2n a) (b2n b)) as [E|E]; constructor.
  - apply b2n_inj; exact E.
  - intros ->. apply E; reflexivity.
Qed.

Fixpoint bytes_eqb (a b : bytes) : bool :=
  match a, b with
  | [], [] => true
  | x :: a', y :: b' => byte_eqb x y && bytes_eqb a' b'
  | _, _ => false
  end.

Lemma bytes_eqb_eq a b : bytes_eqb a b = true <-> a = b.
Proof.
  revert b; induction a as [|x a IH]; intros [|y b]; cbn; split; intro H;
    try reflexivity; try discriminate.
  - apply andb_true_iff in H as [H1 H2]. destruct (byte_eqb_spec x y); [|discriminate].
    apply IH in H2. subst. reflexivity.
  - inversion H; subst. destruct (byte_eqb_spec y y); [|congruence]. cbn. apply IH. reflexivity.
Qed.

Lemma bytes_eqb_refl a : bytes_eqb a a = true.
Proof. apply bytes_eqb_eq. reflexivity. Qed.

Lemma bytes_eqb_neq a b : bytes_eqb a b = false <-> a <> b.
Proof.
  split.
  - intros H E. apply bytes_eqb_eq in E. congruence.
  - intros H. destruct (bytes_eqb a b) eqn:E; [apply bytes_eqb_eq in E; contradiction|reflexivity].
Qed.

(* ---- little endian, k bytes ---- *)
Fixpoint le (k : nat) (n : N) : bytes :=
  match k with O => [] | S k' => n2b n :: le k' (n / 256) end.

Fixpoint unle (l : bytes) : N :=
  match l with [] => 0 | b :: r => b2n b + 256 * unle r end.

Lemma le_length k n : length (le k n) = k.
Proof. revert n; induction k; intros; cbn; auto. Qed.

Lemma unle_lt l : unle l < 256 ^ N.of_nat (length l).
Proof.
  induction l as [|b r IH]; cbn [unle length].
  - cbn. lia.
  - rewrite Nat2N.inj_succ, N.pow_succ_r'. pose proof (b2n_lt b). lia.
Qed.

Lemma unle_le k n : unle (le k n) = n mod 256 ^ N.of_nat k.
Proof.
  revert n; induction k as [|k IH]; intros n.
  - cbn. rewrite N.mod_1_r. reflexivity.
  - cbn [le unle]. rewrite IH, b2n_n2b, Nat2N.inj_succ, N.pow_succ_r'.
    rewrite N.mod_mul_r by (try apply N.pow_nonzero; lia). reflexivity.
Qed.

Lemma unle_le_small k n : n < 256 ^ N.of_nat k -> unle (le k n) = n.
Proof. intros H. rewrite unle_le. apply N.mod_small. exact H. Qed.

Lemma le_unle l : le (length l) (unle l) = l.
Proof.
  induction l as [|b r IH]; cbn [length le unle]; [reflexivity|].
  pose proof (b2n_lt b) as Hb. f_equal.
  - rewrite <- (n2b_b2n b) at 2. unfold n2b at 1 2.
    replace ((b2n b + 256 * unle r) mod 256) with (b2n b mod 256) by lia. reflexivity.
  - replace ((b2n b + 256 * unle r) / 256) with (unle r) by lia. exact IH.
Qed.

Lemma le_unle_k l k : k = length l -> le k (unle l) = l.
Proof. intros ->. apply le_unle. Qed.

Lemma le_inj k a b : a < 256 ^ N.of_nat k -> b < 256 ^ N.of_nat k -> le k a = le k b -> a = b.
Proof.
  intros Ha Hb H. rewrite <- (unle_le_small k a Ha), <- (unle_le_small k b Hb), H. reflexivity.
Qed.

(* ---- big endian ---- *)
Definition be (k : nat) (n : N) : bytes := rev (le k n).
Definition unbe (l : bytes) : N := unle (rev l).

Lemma be_length k n : length (be k n) = k.
Proof. unfold be. rewrite rev_length. apply le_length. Qed.
Lemma unbe_be_small k n : n < 256 ^ N.of_nat k -> unbe (be k n) = n.
Proof. intros H. unfold unbe, be. rewrite rev_involutive. apply unle_le_small. exact H. Qed.
Lemma be_unbe l : be (length l) (unbe l) = l.
Proof.
  unfold be, unbe. rewrite <- (rev_length l). rewrite le_unle. apply rev_involutive.
Qed.
Lemma be_unbe_k l k : k = length l -> be k (unbe l) = l.
Proof. intros ->. apply be_unbe. Qed.
Lemma unbe_lt l : unbe l < 256 ^ N.of_nat (length l).
Proof. unfold unbe. rewrite <- rev_length. apply unle_lt. Qed.

(* ---- list helpers ---- *)
Lemma firstn_app_exact {A} (a r : list A) k : k = length a -> firstn k (a ++ r) = a.
Proof. intros ->. rewrite firstn_app, firstn_all, Nat.sub_diag, firstn_O, app_nil_r. reflexivity. Qed.
Lemma skipn_app_exact {A} (a r : list A) k : k = length a -> skipn k (a ++ r) = r.
Proof. intros ->. rewrite skipn_app, skipn_all, Nat.sub_diag, skipn_O. reflexivity. Qed.

Lemma firstn_skipn_length {A} (l : list A) k : (k <= length l)%nat -> length (firstn k l) = k.
Proof. intros H. rewrite firstn_length. lia. Qed.

Definition slice {A} (off len : nat) (l : list A) : list A := firstn len (skipn off l).

Definition is_nilb {A} (l : list A) : bool := match l with [] => true | _ => false end.

Definition zeros (k : nat) : bytes := repeat x00 k.
Lemma zeros_length k : length (zeros k) = k.
Proof. apply repeat_length. Qed.

(* literal powers used all over *)
Lemma pow256_1 : 256 ^ N.of_nat 1 = 256. Proof. reflexivity. Qed.
Lemma pow256_2 : 256 ^ N.of_nat 2 = 65536. Proof. reflexivity. Qed.
Lemma pow256_4 : 256 ^ N.of_nat 4 = 4294967296. Proof. reflexivity. Qed.
Lemma pow256_8 : 256 ^ N.of_nat 8 = 18446744073709551616. Proof. reflexivity. Qed.

Definition le16 := le 2.
Definition le32 := le 4.
Definition le64 := le 8.

(* List.rev is quadratic when run; the executable models use the linear one *)
Definition frev {A} (l : list A) : list A := rev_append l [].
Lemma frev_rev {A} (l : list A) : frev l = rev l.
Proof. unfold frev. symmetry. apply rev_alt. Qed.
