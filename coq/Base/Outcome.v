(* Base/Outcome.v -- how a Go call can end: a returned value, a returned error,
   a run-time panic, or process termination (log.Fatal / os.Exit). *)
From Coq Require Import List NArith.
Import ListNotations.

Inductive outcome (A : Type) : Type :=
| Ret (a : A)
| Err (e : N)        (* returned error; the tag is informational only *)
| Panic (w : N)      (* run-time panic *)
| Fatal (s : N).     (* process terminated; s names the call site *)
Arguments Ret {A} a.
Arguments Err {A} e.
Arguments Panic {A} w.
Arguments Fatal {A} s.

Definition bind {A B} (m : outcome A) (f : A -> outcome B) : outcome B :=
  match m with
  | Ret a => f a
  | Err e => Err e
  | Panic w => Panic w
  | Fatal s => Fatal s
  end.

Declare Scope outcome_scope.
Notation "x <- m ;; f" := (bind m (fun x => f))
  (at level 61, m at next level, right associativity) : outcome_scope.
Notation "' pat <- m ;; f" := (bind m (fun x => match x with pat => f end))
  (at level 61, pat pattern, m at next level, right associativity) : outcome_scope.

(* result classes, the only thing safety properties compare *)
Inductive oclass := CRet | CErr | CPanic | CFatal.
Definition class_of {A} (o : outcome A) : oclass :=
  match o with Ret _ => CRet | Err _ => CErr | Panic _ => CPanic | Fatal _ => CFatal end.
Definition returns {A} (o : outcome A) : bool :=
  match o with Ret _ | Err _ => true | _ => false end.

Definition of_option {A} (e : N) (o : option A) : outcome A :=
  match o with Some a => Ret a | None => Err e end.

Lemma bind_ret_inv {A B} (m : outcome A) (f : A -> outcome B) b :
  bind m f = Ret b -> exists a, m = Ret a /\ f a = Ret b.
Proof. destruct m; cbn; intros H; try discriminate. eauto. Qed.

Lemma bind_returns {A B} (m : outcome A) (f : A -> outcome B) :
  returns m = true -> (forall a, returns (f a) = true) -> returns (bind m f) = true.
Proof. destruct m; cbn; intros; auto; discriminate. Qed.
