(* Base/NumText.v -- decimal and hexadecimal text of natural numbers (fmt's
   %d and %x).  Decimal goes through the standard library's certified
   conversions; hexadecimal is the lower-case digits of the big-endian bytes
   with leading zeros removed. *)
From Coq Require Import Bool List NArith Lia ZArith ZifyN ZifyNat ZifyBool.
From Coq Require Import Decimal DecimalString DecimalN DecimalPos.
From Coq.Strings Require Import Byte String.
From GoUefi Require Import Base.Bytes Base.Hex.
Import ListNotations.
Ltac Zify.zify_post_hook ::= Z.div_mod_to_equations.
Local Open Scope N_scope.

Definition dec_text (n : N) : bytes :=
  list_byte_of_string (DecimalString.NilZero.string_of_uint (N.to_uint n)).
Definition parse_dec (s : bytes) : option N :=
  match DecimalString.NilZero.uint_of_string (string_of_list_byte s) with
  | Some d => Some (N.of_uint d)
  | None => None
  end.

Lemma to_uint_nonnil n : N.to_uint n <> Decimal.Nil.
Proof. destruct n; cbn; [discriminate|apply DecimalPos.Unsigned.to_uint_nonnil]. Qed.

Lemma parse_dec_text n : parse_dec (dec_text n) = Some n.
Proof.
  unfold parse_dec, dec_text. rewrite string_of_list_byte_of_string.
  rewrite DecimalString.NilZero.usu by apply to_uint_nonnil.
  rewrite DecimalN.Unsigned.of_to. reflexivity.
Qed.

(* ---- hexadecimal ---- *)
Fixpoint drop_zeros (s : bytes) : bytes :=
  match s with
  | [] => []
  | c :: t => if byte_eqb c x30 && negb (is_nilb t) then drop_zeros t else s
  end.

(* %x of an unsigned integer below 2^64 *)
Definition hex_text (n : N) : bytes := drop_zeros (hex_lower (be 8 n)).

(* value of a string of hexadecimal digits (either case); None on a bad digit or no digits *)
Fixpoint hexval_acc (s : bytes) (acc : N) : option N :=
  match s with
  | [] => Some acc
  | c :: r => match fromhex c with Some v => hexval_acc r (acc * 16 + v) | None => None end
  end.
Definition parse_hex (s : bytes) : option N :=
  match s with [] => None | _ => hexval_acc s 0 end.

Lemma fromhex_hexbyte b :
  match hexbyte_lower b with
  | [h; l] => match fromhex h, fromhex l with
              | Some x, Some y => (x =? b2n b / 16) && (y =? b2n b mod 16)
              | _, _ => false end
  | _ => false end = true.
Proof. revert b. apply forall_bytes. vm_compute. reflexivity. Qed.

Lemma hexval_acc_byte b r acc :
  hexval_acc (hexbyte_lower b ++ r) acc = hexval_acc r (acc * 256 + b2n b).
Proof.
  pose proof (fromhex_hexbyte b) as H. unfold hexbyte_lower in *.
  change ([hexdigit_lower (b2n b / 16); hexdigit_lower (b2n b mod 16)] ++ r)
    with (hexdigit_lower (b2n b / 16) :: hexdigit_lower (b2n b mod 16) :: r). cbn [hexval_acc].
  destruct (fromhex (hexdigit_lower (b2n b / 16))) as [x|]; [|discriminate].
  destruct (fromhex (hexdigit_lower (b2n b mod 16))) as [y|]; [|discriminate].
  apply andb_true_iff in H as [Hx Hy]. apply N.eqb_eq in Hx, Hy. subst x y. f_equal.
  generalize (b2n b). intros v. lia.
Qed.

Definition be_value (l : bytes) (acc : N) : N := fold_left (fun a b => a * 256 + b2n b) l acc.

Lemma hexval_acc_hex_lower l acc : hexval_acc (hex_lower l) acc = Some (be_value l acc).
Proof.
  revert acc. induction l as [|b l IH]; intros acc; [reflexivity|].
  unfold hex_lower in *. cbn [flat_map]. rewrite hexval_acc_byte, IH. reflexivity.
Qed.

Lemma be_value_rev l : be_value (List.rev l) 0 = unle l.
Proof.
  unfold be_value. induction l as [|b l IH]; [reflexivity|].
  cbn [List.rev unle]. rewrite fold_left_app, IH. cbn [fold_left]. lia.
Qed.

Lemma be_value_be k n : n < 256 ^ N.of_nat k -> be_value (be k n) 0 = n.
Proof. intros H. unfold be. rewrite be_value_rev. apply unle_le_small. exact H. Qed.

Lemma hexval_drop_zeros s : hexval_acc (drop_zeros s) 0 = hexval_acc s 0.
Proof.
  induction s as [|c t IH]; [reflexivity|]. cbn [drop_zeros].
  destruct (byte_eqb_spec c x30) as [->|]; cbn [andb]; [|reflexivity].
  destruct t as [|d t]; [reflexivity|]. cbn [is_nilb negb]. rewrite IH. reflexivity.
Qed.

Lemma drop_zeros_nonnil s : s <> [] -> drop_zeros s <> [].
Proof.
  induction s as [|c t IH]; [congruence|]. intros _. cbn [drop_zeros].
  destruct (byte_eqb c x30 && negb (is_nilb t)) eqn:E; [|discriminate].
  apply IH. destruct t; [cbn in E; rewrite andb_false_r in E; discriminate|discriminate].
Qed.

Lemma parse_hex_text n : n < 18446744073709551616 -> parse_hex (hex_text n) = Some n.
Proof.
  intros H. unfold parse_hex, hex_text.
  assert (Hn : drop_zeros (hex_lower (be 8 n)) <> []).
  { apply drop_zeros_nonnil. unfold be. cbn. discriminate. }
  destruct (drop_zeros (hex_lower (be 8 n))) eqn:E; [congruence|]. rewrite <- E.
  rewrite hexval_drop_zeros, hexval_acc_hex_lower, be_value_be by (rewrite pow256_8; exact H). reflexivity.
Qed.

(* fixed-width (zero padded) hexadecimal of k bytes *)
Lemma parse_hex_fixed k n : (0 < k)%nat -> n < 256 ^ N.of_nat k -> parse_hex (hex_lower (be k n)) = Some n.
Proof.
  intros Hk H. unfold parse_hex.
  destruct (hex_lower (be k n)) eqn:E.
  - exfalso. apply (f_equal (@List.length Byte.byte)) in E. rewrite hex_lower_length, be_length in E. cbn in E. lia.
  - rewrite <- E, hexval_acc_hex_lower, be_value_be by exact H. reflexivity.
Qed.

Lemma drop_zeros_forall (P : byte -> bool) s : forallb P s = true -> forallb P (drop_zeros s) = true.
Proof.
  induction s as [|c t IH]; [reflexivity|]. cbn [drop_zeros]. intros H.
  destruct (byte_eqb c x30 && negb (is_nilb t)); [|exact H].
  cbn [forallb] in H. apply andb_true_iff in H as [_ H]. apply IH. exact H.
Qed.

Lemma hex_text_lower n : forallb is_lower_hex (hex_text n) = true.
Proof. unfold hex_text. apply drop_zeros_forall. apply hex_lower_is_lower. Qed.

Example num_text_ex : dec_text 1205 = [x31; x32; x30; x35] /\ hex_text 48879 = [x62; x65; x65; x66] /\
                      parse_hex [x42; x45; x45; x46] = Some 48879 /\ dec_text 0 = [x30] /\ hex_text 0 = [x30] /\
                      hex_text 2048 = [x38; x30; x30].
Proof. repeat split; vm_compute; reflexivity. Qed.
