(* Base/Hex.v -- lower/upper-case hexadecimal text of byte strings, and the
   decoder of encoding/hex (DecodeString, returning the decoded prefix). *)
From Coq Require Import Bool List NArith Lia Arith ZifyN ZifyNat ZifyBool.
From Coq.Strings Require Import Byte.
From GoUefi Require Import Base.Bytes.
Import ListNotations.
Local Open Scope N_scope.

(* text is a list of ASCII bytes *)
Definition hexdigit_lower (n : N) : byte :=
  if n <? 10 then n2b (48 + n) else n2b (87 + n).      (* '0'.. , 'a'.. *)
Definition hexdigit_upper (n : N) : byte :=
  if n <? 10 then n2b (48 + n) else n2b (55 + n).      (* 'A'.. *)

Definition hexbyte_lower (b : byte) : bytes :=
  [hexdigit_lower (b2n b / 16); hexdigit_lower (b2n b mod 16)].
Definition hexbyte_upper (b : byte) : bytes :=
  [hexdigit_upper (b2n b / 16); hexdigit_upper (b2n b mod 16)].

Definition hex_lower (l : bytes) : bytes := flat_map hexbyte_lower l.
Definition hex_upper (l : bytes) : bytes := flat_map hexbyte_upper l.

(* encoding/hex.fromHexChar *)
Definition fromhex (c : byte) : option N :=
  let n := b2n c in
  if (48 <=? n) && (n <=? 57) then Some (n - 48)
  else if (97 <=? n) && (n <=? 102) then Some (n - 87)
  else if (65 <=? n) && (n <=? 70) then Some (n - 55)
  else None.

(* hex.DecodeString: decodes pairs; on the first bad pair (or an odd tail)
   returns what was decoded so far together with an error flag. *)
Fixpoint hex_decode (s : bytes) : bytes * bool :=
  match s with
  | [] => ([], true)
  | [_] => ([], false)
  | a :: b :: r =>
      match fromhex a, fromhex b with
      | Some x, Some y => let '(t, ok) := hex_decode r in (n2b (x * 16 + y) :: t, ok)
      | _, _ => ([], false)
      end
  end.

Definition is_lower_hex (c : byte) : bool :=
  let n := b2n c in ((48 <=? n) && (n <=? 57)) || ((97 <=? n) && (n <=? 102)).

Definition to_upper (c : byte) : byte :=
  let n := b2n c in if (97 <=? n) && (n <=? 122) then n2b (n - 32) else c.

(* ---- finite-domain facts, by exhaustive computation over the 256 bytes ---- *)
Definition all_bytes : bytes := map n2b (map N.of_nat (seq 0 256)).

Lemma all_bytes_complete b : In b all_bytes.
Proof.
  unfold all_bytes. rewrite <- (n2b_b2n b). apply in_map. apply in_map_iff.
  exists (N.to_nat (b2n b)). split; [lia|]. apply in_seq. pose proof (b2n_lt b). lia.
Qed.

Lemma forall_bytes (P : byte -> bool) : forallb P all_bytes = true -> forall b, P b = true.
Proof. intros H b. rewrite forallb_forall in H. apply H. apply all_bytes_complete. Qed.

Lemma hex_decode_byte_lower b r :
  hex_decode (hexbyte_lower b ++ r) = (let '(t, ok) := hex_decode r in (b :: t, ok)).
Proof.
  assert (H : forall b, (match hexbyte_lower b with
            | [h; l] => match fromhex h, fromhex l with
                        | Some x, Some y => byte_eqb (n2b (x * 16 + y)) b | _, _ => false end
            | _ => false end) = true) by (apply forall_bytes; vm_compute; reflexivity).
  specialize (H b). unfold hexbyte_lower in *. cbn [app hex_decode].
  destruct (fromhex (hexdigit_lower (b2n b / 16))); [|discriminate].
  destruct (fromhex (hexdigit_lower (b2n b mod 16))); [|discriminate].
  destruct (byte_eqb_spec (n2b (n * 16 + n0)) b); [|discriminate]. subst. reflexivity.
Qed.

Lemma hex_decode_byte_upper b r :
  hex_decode (hexbyte_upper b ++ r) = (let '(t, ok) := hex_decode r in (b :: t, ok)).
Proof.
  assert (H : forall b, (match hexbyte_upper b with
            | [h; l] => match fromhex h, fromhex l with
                        | Some x, Some y => byte_eqb (n2b (x * 16 + y)) b | _, _ => false end
            | _ => false end) = true) by (apply forall_bytes; vm_compute; reflexivity).
  specialize (H b). unfold hexbyte_upper in *. cbn [app hex_decode].
  destruct (fromhex (hexdigit_upper (b2n b / 16))); [|discriminate].
  destruct (fromhex (hexdigit_upper (b2n b mod 16))); [|discriminate].
  destruct (byte_eqb_spec (n2b (n * 16 + n0)) b); [|discriminate]. subst. reflexivity.
Qed.

Lemma hex_decode_lower l : hex_decode (hex_lower l) = (l, true).
Proof.
  induction l as [|b l IH]; [reflexivity|].
  unfold hex_lower in *. cbn [flat_map]. rewrite hex_decode_byte_lower, IH. reflexivity.
Qed.

Lemma hex_decode_upper l : hex_decode (hex_upper l) = (l, true).
Proof.
  induction l as [|b l IH]; [reflexivity|].
  unfold hex_upper in *. cbn [flat_map]. rewrite hex_decode_byte_upper, IH. reflexivity.
Qed.

Lemma hex_lower_length l : length (hex_lower l) = (2 * length l)%nat.
Proof. induction l as [|b l IH]; [reflexivity|]. unfold hex_lower in *. cbn [flat_map length app]. cbn. lia. Qed.

Lemma hexbyte_lower_is_lower b : forallb is_lower_hex (hexbyte_lower b) = true.
Proof. revert b. apply forall_bytes. vm_compute. reflexivity. Qed.

Lemma hex_lower_is_lower l : forallb is_lower_hex (hex_lower l) = true.
Proof.
  induction l as [|b l IH]; [reflexivity|]. unfold hex_lower in *. cbn [flat_map].
  rewrite forallb_app, hexbyte_lower_is_lower, IH. reflexivity.
Qed.

Lemma map_upper_hexbyte b : map to_upper (hexbyte_lower b) = hexbyte_upper b.
Proof.
  assert (H : forall b, bytes_eqb (map to_upper (hexbyte_lower b)) (hexbyte_upper b) = true)
    by (apply forall_bytes; vm_compute; reflexivity).
  apply bytes_eqb_eq. apply H.
Qed.

Lemma map_upper_hex l : map to_upper (hex_lower l) = hex_upper l.
Proof.
  induction l as [|b l IH]; [reflexivity|]. unfold hex_lower, hex_upper in *. cbn [flat_map].
  rewrite map_app, map_upper_hexbyte, IH. reflexivity.
Qed.
