(* driver.ml -- runs the extracted Coq models / conformance relations on the
   cases the Go harness sends over stdin, one per line, tab separated:
     C <op> <arg> ...            -> R <verdict> <info...>
   While a case runs the model may ask for a primitive (RSA, X.509, PEM):
     Q <kind> <arg> ...          <- A <answer>
   Verdicts: ok | violation | mismatch | skip. *)
module ZA = Z   (* Zarith, before the extracted module Z shadows it *)
open Model
type string = Stdlib.String.t   (* the extracted Coq [string] type must not shadow OCaml's *)

(* ---------- conversions between OCaml values and extracted datatypes ---------- *)
let rec pos_of_int (i : int) : positive =
  if i = 1 then XH
  else if i land 1 = 0 then XO (pos_of_int (i lsr 1))
  else XI (pos_of_int (i lsr 1))
let n_of_int (i : int) : n = if i = 0 then N0 else Npos (pos_of_int i)
let rec int_of_pos = function
  | XH -> 1 | XO p -> 2 * int_of_pos p | XI p -> 2 * int_of_pos p + 1
let int_of_n = function N0 -> 0 | Npos p -> int_of_pos p

(* arbitrary-size decimal <-> N through Zarith *)
let rec pos_of_z (z : ZA.t) : positive =
  if ZA.equal z ZA.one then XH
  else if ZA.is_even z then XO (pos_of_z (ZA.shift_right z 1))
  else XI (pos_of_z (ZA.shift_right z 1))
let n_of_z (z : ZA.t) : n = if ZA.sign z = 0 then N0 else Npos (pos_of_z z)
let rec z_of_pos = function
  | XH -> ZA.one
  | XO p -> ZA.shift_left (z_of_pos p) 1
  | XI p -> ZA.succ (ZA.shift_left (z_of_pos p) 1)
let z_of_n = function N0 -> ZA.zero | Npos p -> z_of_pos p
let n_of_string s = n_of_z (ZA.of_string s)
let string_of_n x = ZA.to_string (z_of_n x)

let byte_tab : byte array = Array.init 256 (fun i -> n2b (n_of_int i))
let byte_of_int i = byte_tab.(i land 255)
let int_of_byte (b : byte) = int_of_n (b2n b)

let hexval c = match c with
  | '0'..'9' -> Char.code c - 48
  | 'a'..'f' -> Char.code c - 87
  | 'A'..'F' -> Char.code c - 55
  | _ -> failwith "bad hex"
let bytes_of_hex (s : string) : byte list =
  let n = String.length s / 2 in
  let rec go i acc = if i < 0 then acc
    else go (i - 1) (byte_of_int (hexval s.[2*i] * 16 + hexval s.[2*i+1]) :: acc) in
  go (n - 1) []
let hex_of_bytes (l : byte list) : string =
  let b = Buffer.create 64 in
  List.iter (fun x -> Buffer.add_string b (Printf.sprintf "%02x" (int_of_byte x))) l;
  Buffer.contents b

let split c s = if s = "" then [] else String.split_on_char c s
let nlist_of_string s = List.map n_of_string (split ',' s)
let string_of_nlist l = String.concat "," (List.map string_of_n l)
let bool_of_string01 s = (s = "1")
let s01 b = if b then "1" else "0"

let rec nat_of_int i = if i <= 0 then O else S (nat_of_int (i - 1))
let rec int_of_nat = function O -> 0 | S n -> 1 + int_of_nat n

let guid_of_string s =
  match String.split_on_char ':' s with
  | [a; b; c; d] -> { d1 = n_of_string a; d2 = n_of_string b; d3 = n_of_string c; d4 = bytes_of_hex d }
  | _ -> failwith ("bad guid " ^ s)
let string_of_guid g =
  Printf.sprintf "%s:%s:%s:%s" (string_of_n g.d1) (string_of_n g.d2) (string_of_n g.d3) (hex_of_bytes g.d4)

let time_of_string s =
  match nlist_of_string s with
  | [y; mo; d; h; mi; se; p1; ns; tz; dl; p2] ->
      { t_year = y; t_month = mo; t_day = d; t_hour = h; t_minute = mi; t_second = se; t_pad1 = p1;
        t_nanosecond = ns; t_timezone = tz; t_daylight = dl; t_pad2 = p2 }
  | _ -> failwith ("bad time " ^ s)

let obs_str_of_string s =
  if s = "E" then OErr else if s = "P" then OPanic else if s = "X" then OExit
  else if String.length s >= 2 && String.sub s 0 2 = "S:" then
    OStr (nlist_of_string (String.sub s 2 (String.length s - 2)))
  else failwith ("bad obs_str " ^ s)

(* ---------- oracle queries ---------- *)
let ask (fields : string list) : string =
  print_string (String.concat "\t" ("Q" :: fields)); print_newline ();
  let l = input_line stdin in
  match String.split_on_char '\t' l with
  | "A" :: v :: _ -> v
  | _ -> failwith ("bad answer " ^ l)

(* ---------- signature databases ---------- *)
let sig_of_string s =
  match String.split_on_char '/' s with
  | [o; d] -> { sd_owner = guid_of_string o; sd_data = bytes_of_hex d }
  | _ -> failwith ("bad sig " ^ s)
let siglist_of_string s =
  match String.split_on_char '|' s with
  | [t; ls; hs; sz; hd; sigs] ->
      { sl_type = guid_of_string t; sl_listsize = n_of_string ls; sl_headersize = n_of_string hs;
        sl_size = n_of_string sz; sl_header = bytes_of_hex hd; sl_sigs = List.map sig_of_string (split ',' sigs) }
  | _ -> failwith ("bad siglist " ^ s)
let db_of_string s = List.map siglist_of_string (split ';' s)
let obs_decode_of cls rest =
  match cls, rest with
  | "ok", [db; reenc] -> Some (db_of_string db, bytes_of_hex reenc)
  | _ -> None
let pem_oracle (data : byte list) : byte list option =
  match ask ["pem"; hex_of_bytes data] with
  | "-" -> None
  | h -> Some (bytes_of_hex h)
let hop_of_string s =
  match String.split_on_char '~' s with
  | ["A"; t; o; d] -> HAppend (guid_of_string t, guid_of_string o, bytes_of_hex d)
  | ["R"; t; o; d] -> HRemove (guid_of_string t, guid_of_string o, bytes_of_hex d)
  | ["L"; l] -> HAppendList (siglist_of_string l)
  | ["E"] -> HRecode
  | ["Q"; t; o; d] -> HQueryEntry (guid_of_string t, guid_of_string o, bytes_of_hex d)
  | ["X"; l] -> HQueryList (siglist_of_string l)
  | _ -> failwith ("bad hop " ^ s)
let hobs_of_string s =
  match String.split_on_char '~' s with
  | [ok; db; ans] -> { ho_ok = bool_of_string01 ok; ho_db = db_of_string db; ho_answer = bool_of_string01 ans }
  | _ -> failwith ("bad hobs " ^ s)

let lhop_of_string s =
  match String.split_on_char '~' s with
  | ["a"; o; d] -> LHAppend (guid_of_string o, bytes_of_hex d)
  | ["r"; o; d] -> LHRemove (guid_of_string o, bytes_of_hex d)
  | ["q"; o; d] -> LHQuery (guid_of_string o, bytes_of_hex d)
  | _ -> failwith ("bad lhop " ^ s)
let lobs_of_string s =
  match String.split_on_char '~' s with
  | [ok; l; f; i] -> { lo_ok = bool_of_string01 ok; lo_list = siglist_of_string l; lo_found = bool_of_string01 f;
                       lo_index = n_of_string i }
  | _ -> failwith ("bad lobs " ^ s)

(* ---------- variable I/O ---------- *)
let fs_obs_of_string s =
  match String.split_on_char '~' s with
  | ["O"; p; f] -> FO_OpenFile (bytes_of_hex p, n_of_string f)
  | ["W"; b] -> FO_Write (bytes_of_hex b)
  | _ -> FO_Other
let read_obs_of_fields = function
  | ["D"; a; v] -> RO_decoded (n_of_string a, bytes_of_hex v)
  | ["A"; c] -> RO_wrong_attrs (bool_of_string01 c)
  | ["E"; c] -> RO_error (bool_of_string01 c)
  | _ -> failwith "bad read obs"
let content_of_string s = if s = "-" then None else Some (bytes_of_hex s)
let sop_of_string s =
  match String.split_on_char '^' s with
  | ["W"; n; g; a; v] -> SWrite (bytes_of_hex n, guid_of_string g, n_of_string a, bytes_of_hex v)
  | ["R"; n; g; r] -> SRead (bytes_of_hex n, guid_of_string g, n_of_string r)
  | _ -> failwith ("bad sop " ^ s)
let store_of_string s =
  List.map (fun kv -> match String.split_on_char '=' kv with
                      | [k; v] -> (bytes_of_hex k, bytes_of_hex v)
                      | _ -> failwith "bad store") (split ',' s)

(* ---------- device paths ---------- *)
let hdr_of_string s =
  match nlist_of_string s with
  | [t; st; l0; l1] -> { h_type = t; h_sub = st; h_len0 = l0; h_len1 = l1 }
  | _ -> failwith ("bad hdr " ^ s)
let node_of_string s =
  match String.split_on_char '|' s with
  | ["P"; h; f; d] -> NPci (hdr_of_string h, n_of_string f, n_of_string d)
  | ["A"; h; x; y] -> NAcpi (hdr_of_string h, bytes_of_hex x, bytes_of_hex y)
  | ["H"; h; pn; st; sz; sg; pf; sty] ->
      NHardDrive (hdr_of_string h, n_of_string pn, n_of_string st, n_of_string sz, bytes_of_hex sg, n_of_string pf, n_of_string sty)
  | ["F"; h; p] -> NFilePath (hdr_of_string h, nlist_of_string p)
  | ["W"; h; x] -> NFirmwareFile (hdr_of_string h, bytes_of_hex x)
  | ["U"; h; p; i] -> NUsb (hdr_of_string h, n_of_string p, n_of_string i)
  | _ -> failwith ("bad node " ^ s)

(* ---------- PKCS#7 ---------- *)
let rec z_of_zarith (z : ZA.t) : Model.z =
  if ZA.sign z = 0 then Z0 else if ZA.sign z > 0 then Zpos (pos_of_z z) else Zneg (pos_of_z (ZA.neg z))
let zarith_of_z = function Z0 -> ZA.zero | Zpos p -> z_of_pos p | Zneg p -> ZA.neg (z_of_pos p)
let cert_of_string s =
  match String.split_on_char ':' s with
  | [i; ser; k] -> { c_issuer = bytes_of_hex i; c_serial = z_of_zarith (ZA.of_string ser); c_key = n_of_string k }
  | _ -> failwith ("bad cert " ^ s)
let utctime_oracle (t : byte list) : bool = (ask ["utctime"; hex_of_bytes t] = "1")
let x509_oracle (raw : byte list) : bool = (ask ["x509"; hex_of_bytes raw] = "1")
let rsa_oracle (key : n) (msg : byte list) (sg : byte list) : bool =
  (ask ["rsa"; string_of_n key; hex_of_bytes msg; hex_of_bytes sg] = "1")
let oid_of_string s = List.map n_of_string (split '.' s)
let signer_obs_of_string s =
  match String.split_on_char '/' s with
  | [i; ser; md; has; ct; sg; mar] ->
      { so_issuer = bytes_of_hex i; so_serial = z_of_zarith (ZA.of_string ser); so_md = bytes_of_hex md;
        so_has_attrs = bool_of_string01 has; so_ctype = oid_of_string ct; so_sig = bytes_of_hex sg;
        so_marshal = bytes_of_hex mar }
  | _ -> failwith ("bad signer obs " ^ s)
let p7_obs_of cls rest =
  match cls, rest with
  | "ok", [oid; content; signers] ->
      Some { po_oid = oid_of_string oid; po_content = bytes_of_hex content;
             po_signers = List.map signer_obs_of_string (split ',' signers) }
  | _ -> None

(* ---------- dispatch ---------- *)
let verdict b = if b then "ok" else "violation"

let run (op : string) (a : string list) : string list =
  match op, a with
  (* C17 *)
  | "guid_format", [g; impl] ->
      let g = guid_of_string g in
      [verdict (check_format g (bytes_of_hex impl)); hex_of_bytes (guid_format g)]
  | "guid_parse", [text; impl] ->
      [verdict (check_parse (bytes_of_hex text) (guid_of_string impl))]
  | "guid_to_bytes", [g; impl] -> [verdict (check_to_bytes (guid_of_string g) (bytes_of_hex impl))]
  | "guid_from_bytes", [s; impl] -> [verdict (check_from_bytes (bytes_of_hex s) (guid_of_string impl))]
  | "guid_cmp", [x; y; impl] ->
      [verdict (check_cmp (guid_of_string x) (guid_of_string y) (bool_of_string01 impl))]
  | "guid_wire", [g; impl] -> [verdict (check_wire (guid_of_string g) (bytes_of_hex impl))]
  | "utf16_marshal", [s; impl] -> [verdict (check_marshal (nlist_of_string s) (bytes_of_hex impl))]
  | "utf16_parse", [bs; impl] -> [verdict (check_parse_utf16 (bytes_of_hex bs) (obs_str_of_string impl))]
  | "efistring", [bs; impl] -> [verdict (check_efistring (bytes_of_hex bs) (obs_str_of_string impl))]
  (* C10 *)
  | "auth2_read", bs :: cls :: rest ->
      let bs = bytes_of_hex bs in
      let impl = (match cls, rest with
        | "ok", [tm; len; rev; typ; g; data; rem; marshal] ->
            OA_ok ({ a_time = time_of_string tm;
                     a_info = { wg_length = n_of_string len; wg_revision = n_of_string rev;
                                wg_type = n_of_string typ; wg_guid = guid_of_string g;
                                wg_data = bytes_of_hex data } },
                   n_of_string rem, bytes_of_hex marshal)
        | _ -> OA_other) in
      [verdict (check_read_auth2 bs impl); s01 (auth2_decodes bs)]
  | "wincert_read", bs :: cls :: rest ->
      let bs = bytes_of_hex bs in
      let impl = (match cls, rest with
        | "ok", [len; rev; typ; cert; rem; written] ->
            OW_ok ({ wc_length = n_of_string len; wc_revision = n_of_string rev; wc_type = n_of_string typ;
                     wc_cert = bytes_of_hex cert }, n_of_string rem, bytes_of_hex written)
        | _ -> OW_other) in
      [verdict (check_read_wincert bs impl); s01 (wincert_decodes bs)]
  | "auth2_write", [tm; len; rev; typ; g; data; impl] ->
      let a = { a_time = time_of_string tm;
                a_info = { wg_length = n_of_string len; wg_revision = n_of_string rev;
                           wg_type = n_of_string typ; wg_guid = guid_of_string g;
                           wg_data = bytes_of_hex data } } in
      [verdict (check_write_auth2 a (bytes_of_hex impl))]
  (* C07 / C08 *)
  | "c07_decode", bs :: cls :: rest ->
      let bs = bytes_of_hex bs in
      [verdict (check_c07 bs (obs_decode_of cls rest)); s01 (decodes bs)]
  | "c07_built", db :: bs :: cls :: rest ->
      let bs = bytes_of_hex bs in
      [verdict (check_c07_built (db_of_string db) bs (obs_decode_of cls rest)); "1"]
  | "c08_decode", bs :: cls :: rest ->
      let bs = bytes_of_hex bs in
      [verdict (check_c08 bs (obs_decode_of cls rest)); s01 (decodes_any bs)]
  (* C09 *)
  | "db_history", [init; ops; obs] ->
      let init = db_of_string init in
      let ops = List.map hop_of_string (split '&' ops) in
      let obs = List.map hobs_of_string (split '&' obs) in
      if List.length ops <> List.length obs then ["skip"; "ops/obs length"] else
      let ((v, i), okc) = run_history pem_oracle init init (List.combine ops obs) N0 N0 in
      [(match int_of_n v with 0 -> "ok" | 1 -> "violation" | _ -> "mismatch"); string_of_n i; string_of_n okc]
  | "list_history", [init; ops; obs] ->
      let init = siglist_of_string init in
      let ops = List.map lhop_of_string (split '&' ops) in
      let obs = List.map lobs_of_string (split '&' obs) in
      if List.length ops <> List.length obs then ["skip"; "ops/obs length"] else
      let ((v, i), okc) = run_list_history pem_oracle init init (List.combine ops obs) N0 N0 in
      [(match int_of_n v with 0 -> "ok" | 1 -> "violation" | _ -> "mismatch"); string_of_n i; string_of_n okc]
  (* C11 *)
  | "var_write", [dir; name; g; attrs; value; ok; trace] ->
      [verdict (check_write (bytes_of_hex dir) (bytes_of_hex name) (guid_of_string g) (n_of_string attrs)
                  (bytes_of_hex value) (bool_of_string01 ok) (List.map fs_obs_of_string (split '&' trace)))]
  | "var_write_short", [dir; name; g; attrs; value; ok; trace] ->
      [verdict (check_write_short (bytes_of_hex dir) (bytes_of_hex name) (guid_of_string g) (n_of_string attrs)
                  (bytes_of_hex value) (bool_of_string01 ok) (List.map fs_obs_of_string (split '&' trace)))]
  | "var_read", [content; required; api; obs] ->
      let chk = if api = "legacy" then check_read_legacy else check_read in
      [verdict (chk (content_of_string content) (n_of_string required)
                  (read_obs_of_fields (String.split_on_char '~' obs)))]
  (* C12 *)
  | "store_history", [dir; init; ops; obs] ->
      let ops = List.map sop_of_string (split '&' ops) in
      let obs = List.map (fun o -> if o = "-" then None else Some (read_obs_of_fields (String.split_on_char '^' o)))
                  (split '&' obs) in
      if List.length ops <> List.length obs then ["skip"; "ops/obs length"] else
      let (ok, i) = run_store (bytes_of_hex dir) (store_of_string init) (List.combine ops obs) N0 in
      [verdict ok; string_of_n i]
  (* C18 *)
  | "boot_order", [bs; names] ->
      [verdict (check_boot_order (bytes_of_hex bs) (List.map bytes_of_hex (split ',' names)))]
  | "load_option", bs :: cls :: rest ->
      let bs = bytes_of_hex bs in
      let impl = (match cls, rest with
        | "ok", [attrs; fpl; desc; nodes] ->
            Some { lo_attrs = n_of_string attrs; lo_fpl_len = n_of_string fpl; lo_desc = nlist_of_string desc;
                   lo_nodes = List.map node_of_string (split ';' nodes) }
        | _ -> None) in
      [verdict (check_load_option bs impl); s01 (load_option_decodes bs)]
  | "hd_text", [pn; st; sz; sg; sty; text] ->
      [verdict (check_hd_text (n_of_string pn) (n_of_string st) (n_of_string sz) (bytes_of_hex sg) (n_of_string sty)
                  (bytes_of_hex text))]
  | "file_text", [p; text] -> [verdict (check_file_text (nlist_of_string p) (nlist_of_string text))]
  (* C13 / C14 *)
  | "safety", [len; cls; alloc] ->
      let c = (match cls with "ret" -> CRet | "panic" -> CPanic | "exit" -> CFatal | _ -> CFatal) in
      [verdict (cls <> "timeout" && check_safety (n_of_string len) c (n_of_string alloc))]
  (* C04 / C16 *)
  | "p7_verify", [mode; blob; c; impl] ->
      let blob = bytes_of_hex blob and c = cert_of_string c in
      let m = int_of_n (model_verify utctime_oracle x509_oracle rsa_oracle blob c) in
      let sound = check_verify utctime_oracle x509_oracle rsa_oracle blob c (impl = "true") in
      let complete = mode = "sound" || check_accepts utctime_oracle x509_oracle rsa_oracle blob c (impl = "true") in
      let ms = (match m with 2 -> "true" | 1 -> "false" | _ -> "err") in
      let same = (ms = impl) || (ms = "err" && impl <> "true" && impl <> "false") in
      [(if not sound then "violation" else if not complete then "violation-incomplete" else if same then "ok" else "mismatch");
       ms; s01 (p7_parses utctime_oracle x509_oracle blob)]
  | "p7_parse", blob :: cls :: rest ->
      let blob = bytes_of_hex blob in
      let o = p7_obs_of cls rest in
      [verdict (check_p7_parse utctime_oracle x509_oracle blob o && check_reencode utctime_oracle x509_oracle blob o);
       s01 (p7_parses utctime_oracle x509_oracle blob);
       s01 (check_reencode utctime_oracle x509_oracle blob o)]
  (* C05 *)
  | "p7_sign", [cert_raw; issuer; serial; oid; content; time; sg; tbs; impl] ->
      [verdict (check_sign (bytes_of_hex cert_raw) (bytes_of_hex issuer) (n_of_string serial) (oid_of_string oid)
                  (bytes_of_hex content) (bytes_of_hex time) (bytes_of_hex sg) (bytes_of_hex tbs) (bytes_of_hex impl))]
  (* C06 *)
  | "efi_sign", [cert_raw; issuer; serial; name; g; attrs; tm; payload; p7time; sg; tbs; impl] ->
      let t = time_of_string tm in
      [verdict (check_efi_sign (bytes_of_hex cert_raw) (bytes_of_hex issuer) (n_of_string serial) (bytes_of_hex name)
                  (guid_of_string g) (n_of_string attrs) t (bytes_of_hex payload) (bytes_of_hex p7time)
                  (bytes_of_hex sg) (bytes_of_hex tbs) (bytes_of_hex impl));
       hex_of_bytes (efi_signed_buffer (bytes_of_hex name) (guid_of_string g) (n_of_string attrs) t (bytes_of_hex payload));
       hex_of_bytes (efi_sign_model (bytes_of_hex cert_raw) (bytes_of_hex issuer) (n_of_string serial) (bytes_of_hex name)
                  (guid_of_string g) (n_of_string attrs) t (bytes_of_hex payload) (bytes_of_hex p7time) (bytes_of_hex sg));
       hex_of_bytes (efi_sign_tbs_model (bytes_of_hex name) (guid_of_string g) (n_of_string attrs) t (bytes_of_hex payload) (bytes_of_hex p7time))]
  (* C01 *)
  | "pe_parse", [img; peok; st; pre; bts] ->
      let img = bytes_of_hex img in
      let o = { po_ok = (st = "ok");
                po_pre = (if String.length pre > 0 && pre.[0] = 'x' then Some (bytes_of_hex (String.sub pre 1 (String.length pre - 1))) else None);
                po_bytes = (if bts = "-" then [] else bytes_of_hex bts) } in
      let ((v, wf), nt) = check_pe_parse img (peok = "1") o in
      [(match int_of_n v with 0 -> "ok" | 1 -> "violation" | _ -> "mismatch"); s01 nt; s01 wf]
  | "pe_flip", [img; pos; nb; pre; peok2; st; pre2] ->
      let img = bytes_of_hex img in
      let strip p = if String.length p > 0 && p.[0] = 'x' then Some (bytes_of_hex (String.sub p 1 (String.length p - 1))) else None in
      let pre = (match strip pre with Some p -> p | None -> []) in
      let (v, cls) = check_pe_flip img (n_of_string pos) (List.hd (bytes_of_hex nb)) pre (peok2 = "1") (st = "ok") (strip pre2) in
      [(if int_of_n v = 0 then "ok" else "violation"); s01 (int_of_n cls > 0);
       (match int_of_n cls with 1 -> "covered" | 2 -> "excluded" | 3 -> "layout-changing" | _ -> "not-well-formed")]
  (* C02 / C03 *)
  | "pe_verify", [peok; img; c; impl] ->
      let img = bytes_of_hex img and c = cert_of_string c in
      let (m, sound) = pe_verify_both utctime_oracle x509_oracle rsa_oracle (peok = "1") img c (impl = "true") in
      let ms = (match int_of_n m with 2 -> "true" | 1 -> "false" | _ -> "err") in
      let same = (ms = impl) || (ms = "err" && impl <> "true" && impl <> "false") || (ms = "false" && impl = "err") in
      [(if not sound then "violation" else if same then "ok" else "mismatch"); ms]
  | "pe_signed", [img; blobs; out; cmp] ->
      let img = bytes_of_hex img and out = bytes_of_hex out in
      let blobs = List.map bytes_of_hex (split ',' blobs) in
      let code = int_of_n (check_signed_image utctime_oracle x509_oracle img blobs out) in
      let msame = (cmp <> "1") || (match model_signed_bytes img blobs with Some b -> b = out | None -> false) in
      [(if code = 100 then "skip" else if code <> 0 then "violation" else if msame then "ok" else "mismatch");
       string_of_int code]
  (* C15 *)
  | "fault", [res_ok; after; same] ->
      [verdict (check_fault (bool_of_string01 res_ok) (nlist_of_string after) (bool_of_string01 same))]
  | "call_order", [op; kinds] ->
      [verdict (check_call_order (n_of_string op) (nlist_of_string kinds))]
  (* C19 *)
  | "pure", [alone; obs; snaps] ->
      let pairs x = List.map (fun e -> match split ':' e with
        | [o; r] -> (n_of_string o, bytes_of_hex r) | _ -> failwith "bad pair") (split ',' x) in
      [verdict (check_pure (pairs alone) (pairs obs) (List.map bytes_of_hex (split ',' snaps)))]
  | _ -> ["skip"; "unknown op " ^ op]

let () =
  try
    while true do
      let l = input_line stdin in
      match String.split_on_char '\t' l with
      | "C" :: op :: args ->
          let r = (try run op args with
                   | Stack_overflow -> ["skip"; "stack overflow"]
                   | Failure m -> ["skip"; "failure: " ^ m]
                   | Not_found -> ["skip"; "not found"]) in
          print_string (String.concat "\t" ("R" :: r)); print_newline ()
      | [""] -> ()
      | _ -> print_string "R\tskip\tbad line"; print_newline ()
    done
  with End_of_file -> ()
